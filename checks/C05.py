#!/usr/bin/env python3
"""C05 - runtime life cycle: wait/stop drain all work, restart works.
Lean model Life + Props/C05.lean; tie: E2 logs of generated life-cycle histories (1-5 incarnations per
process, different thread counts / scheduling policies, external submitters racing wait/stop,
suspend/resume, four shutdown styles) on the live runtime."""
import os, sys
sys.path.insert(0, os.path.join(os.path.dirname(os.path.abspath(__file__)), '..', 'tools'))
import e2check


def runs(rng, tier):
    out = []
    if tier == 'thorough':
        for k in range(1200):
            out.append([rng.below(1 << 30), rng.choice([0, 50, 200, 400]), 1 + rng.below(5), rng.choice([2, 4, 8])])
        for k in range(200):   # the stop()-entered-before-finalize style, forced
            out.append([rng.below(1 << 30), rng.choice([0, 100, 300]), 1 + rng.below(3), rng.choice([3, 6]), 1])
    else:
        for k in range(40):
            out.append([rng.below(1 << 30), rng.choice([0, 100, 300]), 1 + rng.below(4), rng.choice([2, 4, 6])])
        for k in range(8):
            out.append([rng.below(1 << 30), rng.choice([0, 100]), 1 + rng.below(2), rng.choice([3, 5]), 1])
    return out


def extra_runs(rng, tier):
    return [[rng.below(1 << 30), rng.choice([100, 400]), 2, 6, st] for st in (0, 1, 1, 1, 2, 3) for _ in range(3)]


def nontrivial(raw):
    # an external wait that had to keep waiting, a suspension, and a restart all occurred
    return ' rt.suspend ' in raw and raw.count(' life.stop.exit ') >= 2 and ' newq.pop ' in raw


def stats(raw):
    d = {k: raw.count(' ' + k + ' ') for k in ('gac.inc', 'gac.sample', 'newq.push', 'task.rebind', 'rt.suspend', 'pu.sleep',
                                               'life.stop.exit', 'x.wait.exit', 'body.enter', 'rt.result')}
    # samples that saw a busy counter (wait had to go on) and samples taken from inside a task
    busy = task = 0
    for line in raw.split('\n'):
        f = line.split(' ')
        if len(f) == 5 and f[1] == 'gac.sample':
            v = int(f[3])
            if (v >> 1) > (v & 1):
                busy += 1
            if v & 1:
                task += 1
    d['samples_busy'] = busy
    d['samples_from_task'] = task
    return d


# seed, perturbation, incarnations, size, style, ?, ?, race_suspend=2: a helper submits low-priority tasks while main calls suspend()
FINDING_RUNS = {'C05-suspend-lowprio': [[12, 0, 2, 6, -1, 0, -1, 2], [2, 0, 2, 6, -1, 0, -1, 2], [3, 0, 2, 6, -1, 0, -1, 2], [4, 0, 2, 6, -1, 0, -1, 2]]}

e2check.run(dict(
    finding_runs=FINDING_RUNS,
    prop='C05', model='life', harness='e2/life.cpp', bin='e2_life', props=['C05'], translators=[],
    runs=runs, extra_runs=extra_runs, nontrivial=nontrivial, stats=stats, par=3, timeout_s=900,
    rule='life-cycle histories `start cfg; (submit* | external_submit | wait | wait-from-a-task | suspend; submit*; resume)*; finalize; stop` repeated 1-5 times per process with PRNG-chosen thread counts (1-6) and scheduling policies (all 8), task trees with mixed priorities/stack sizes/yields, OS threads submitting concurrently with wait()/stop(), four shutdown styles (finalize then stop; stop entered before finalize with a helper submitting and then finalizing; finalize from a task; entry function returning a value), PRNG timing perturbation at the instrumented sites; non-trivial = the run contains a suspension, at least one restart and a staged task conversion; distinct = distinct argv',
    trusted_extra=['the life-cycle hooks are add-only lines (gac.inc/gac.dec/gac.sample read the counter under the log lock; rt.*/life.* are notes placed after the corresponding store or inside the corresponding mutex)',
                   'driver normalisation: a `task.new` immediately followed on the same OS thread by `heap.pool` for the same object (pre-allocation for the recycling heap) is dropped'],
    assumptions=['histories respect the documented preconditions: stop/suspend/resume from non-pika threads, nothing is submitted from outside once finalize() was signalled and the work has drained, at most one task at a time blocks in wait()',
                 'activity sources other than tasks (CUDA/MPI polling) are not built in this tree and are not modelled',
                 'completion of every submitted task body (ledger) and the absence of body activity during suspension are additionally observed by monitors on each run; the theorems cover the counter/phase protocol'],
))
