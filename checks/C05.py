#!/usr/bin/env python3
"""C05 - runtime life cycle: wait/stop drain all work, restart works.
Lean model Life + Props/C05.lean; tie: E2 logs of generated life-cycle histories (1-5 incarnations per
process, different thread counts / scheduling policies, external submitters racing wait/stop,
suspend/resume, four shutdown styles, stop() entered while running or while SUSPENDED) on the live runtime."""
import os, sys
sys.path.insert(0, os.path.join(os.path.dirname(os.path.abspath(__file__)), '..', 'tools'))
import e2check


def runs(rng, tier):
    out = []
    if tier == 'thorough':
        for k in range(1200):
            out.append([rng.below(1 << 30), rng.choice([0, 50, 200, 400]), 1 + rng.below(5), rng.choice([2, 4, 8])])
        for k in range(200):   # the stop()-entered-before-finalize style, forced
            out.append([rng.below(1 << 30), rng.choice([0, 100, 300]), 1 + rng.below(3), rng.choice([3, 6]), 1])
        forced, pending = stop_suspended_runs(rng, 6, 4)
        out = pending + out + forced      # the probes need >= 12 s each (600 quiet observations): start them first
    else:
        for k in range(40):
            out.append([rng.below(1 << 30), rng.choice([0, 100, 300]), 1 + rng.below(4), rng.choice([2, 4, 6])])
        for k in range(8):
            out.append([rng.below(1 << 30), rng.choice([0, 100]), 1 + rng.below(2), rng.choice([3, 5]), 1])
        forced, pending = stop_suspended_runs(rng, 1, 1)
        out = pending + out + forced
    return out


POLICIES = 8


def stop_suspended_runs(rng, rounds, pending):
    """Follow-up C05h: stop() entered while the runtime is SUSPENDED (smode 1), after suspend; suspend (3), after
    suspend; resume (2) - forced, so that every run of the check has them for every scheduling policy and for 1..4
    threads, with each way of calling finalize (main or another OS thread / a task / after an entry function) -
    plus `pending` directed probes of stop() on a suspended runtime that holds queued work (smode 4: the unchanged
    tree keeps polling; the harness' state-based stuck verdict must find exactly that state: `end pending-stop`)."""
    out, probes = [], []
    for _ in range(rounds):
        pols = list(range(POLICIES))
        for i, pol in enumerate(pols):
            th = 1 + (i + rng.below(4)) % 4
            style = [0, 2, 3][(i + rng.below(3)) % 3]
            out.append([rng.below(1 << 30), rng.choice([0, 100, 300]), 1 + rng.below(2), rng.choice([2, 4]), style, th, pol, 0, 1])
        for smode in (3, 2, 3, 2):
            out.append([rng.below(1 << 30), rng.choice([0, 100]), 1 + rng.below(2), rng.choice([2, 4]), rng.choice([0, 2, 3]),
                        1 + rng.below(4), rng.below(POLICIES), 0, smode])
    for _ in range(pending):
        probes.append([rng.below(1 << 30), 0, 1, 3, rng.choice([0, 2, 3]), 1 + rng.below(3), rng.below(POLICIES), 0, 4])
    return out, probes


def extra_runs(rng, tier):
    return ([[rng.below(1 << 30), rng.choice([100, 400]), 2, 6, st] for st in (0, 1, 1, 1, 2, 3) for _ in range(3)] +
            [[rng.below(1 << 30), rng.choice([0, 200]), 2, 4, st, 1 + rng.below(4), rng.below(POLICIES), 0, sm]
             for st in (0, 2, 3) for sm in (1, 3)])


def nontrivial(raw):
    # an external wait that had to keep waiting, a suspension, and a restart all occurred
    return ' rt.suspend ' in raw and raw.count(' life.stop.exit ') >= 2 and ' newq.pop ' in raw


def stats(raw):
    d = {k: raw.count(' ' + k + ' ') for k in ('gac.inc', 'gac.sample', 'newq.push', 'task.rebind', 'rt.suspend', 'pu.sleep',
                                               'life.stop.exit', 'x.wait.exit', 'body.enter', 'rt.result',
                                               'x.susp2.exit', 'x.res0.exit')}
    # stop() entered while suspended (harness note `x.stop.enter 0 1 0`) and such stops that returned
    d['stop_entered_suspended'] = raw.count(' x.stop.enter 0 1 ')
    d['stop_pending_probe'] = 1 if 'end pending-stop' in raw else 0
    # samples that saw a busy counter (wait had to go on) and samples taken from inside a task
    busy = task = 0
    for line in raw.split('\n'):
        f = line.split(' ')
        if len(f) == 5 and f[1] == 'gac.sample':
            v = int(f[3])
            if (v >> 1) > (v & 1):
                busy += 1
            if v & 1:
                task += 1
    d['samples_busy'] = busy
    d['samples_from_task'] = task
    return d


# seed, perturbation, incarnations, size, style, ?, ?, race_suspend=2: a helper submits low-priority tasks while main calls suspend()
FINDING_RUNS = {'C05-suspend-lowprio': [[12, 0, 2, 6, -1, 0, -1, 2], [2, 0, 2, 6, -1, 0, -1, 2], [3, 0, 2, 6, -1, 0, -1, 2], [4, 0, 2, 6, -1, 0, -1, 2],
                                        [5, 0, 2, 6, -1, 0, -1, 2], [6, 0, 2, 6, -1, 0, -1, 2], [7, 0, 2, 6, -1, 0, -1, 2], [8, 0, 2, 6, -1, 0, -1, 2]],
                # smode 5: every worker held between its store of `sleeping` and the condition-variable wait until
                # stop() has sent all its notifications (directed, released from state only)
                'C05-stop-suspended-lostwake': [[1, 0, 1, 3, 0, 2, 1, 0, 5], [2, 0, 1, 3, 3, 3, 4, 0, 5]]}

e2check.run(dict(
    finding_runs=FINDING_RUNS,
    prop='C05', model='life', harness='e2/life.cpp', bin='e2_life', props=['C05', 'C05t'], translators=[],
    runs=runs, extra_runs=extra_runs, nontrivial=nontrivial, stats=stats, par=3, timeout_s=900,
    rule='life-cycle histories `start cfg; (submit* | external_submit | wait | wait-from-a-task | wait-from-a-second-OS-thread | suspend; [suspend]; [wait]; submit*; resume; [resume] | resume-while-running)*; finalize (main / another OS thread / a task / after an entry function); [suspend; [suspend] | suspend; submit*; resume]; stop` (stop() entered while running or while SUSPENDED, forced for all 8 policies x 1-4 threads in every run of the check) repeated 1-5 times per process with PRNG-chosen thread counts (1-6) and scheduling policies (all 8), task trees with mixed priorities/stack sizes/yields, OS threads submitting concurrently with wait()/stop(), four shutdown styles (finalize then stop; stop entered before finalize with a helper submitting and then finalizing; finalize from a task; entry function returning a value), PRNG timing perturbation at the instrumented sites; non-trivial = the run contains a suspension, at least one restart and a staged task conversion; distinct = distinct argv',
    trusted_extra=['the life-cycle hooks are add-only lines (gac.inc/gac.dec/gac.sample read the counter under the log lock; rt.*/life.* are notes placed after the corresponding store or inside the corresponding mutex)',
                   'driver normalisation: a `task.new` immediately followed on the same OS thread by `heap.pool` for the same object (pre-allocation for the recycling heap) is dropped'],
    assumptions=['histories respect the documented preconditions: stop/suspend/resume from non-pika threads, nothing is submitted from outside once finalize() was signalled and the work has drained, at most one task at a time blocks in wait(); stop() on a suspended runtime that still holds queued work does not return in the unchanged tree (documented: no progress while suspended) and is exercised only by the directed `pending-stop` probe; pika::finalize() is called while the runtime is running (it throws invalid_status on a suspended runtime)',
                 'activity sources other than tasks (CUDA/MPI polling) are not built in this tree and are not modelled',
                 'completion of every submitted task body (ledger) and the absence of body activity during suspension are additionally observed by monitors on each run; the theorems cover the counter/phase protocol'],
))
