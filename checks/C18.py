#!/usr/bin/env python3
"""C18 - type erasure: Lean model Erase + theorems Props/C18.lean, tied by E0 (differential histories)."""
import os, sys
sys.path.insert(0, os.path.join(os.path.dirname(os.path.abspath(__file__)), '..', 'tools'))
import e0check


def gen(rng, cid, sbo=0):
    n = rng.weighted([(2, 1), (3, 2), (4, 3), (5, 2), (6, 3)])
    fam = rng.weighted([('fn', 3), ('snd', 3), ('mixed', 3)])
    pool = {'fn': 'FFFQQ', 'snd': 'AAAUU', 'mixed': 'FFQAAU'}[fam]
    kinds = ''.join(rng.choice(pool) for _ in range(n))
    isfn = lambda i: kinds[i] in 'FQ'
    copyable = lambda i: kinds[i] in 'FA'
    mvfrom = lambda i, j: kinds[i] == kinds[j] or (kinds[i] == 'U' and kinds[j] == 'A')
    live = [False] * n
    full = [None] * n          # mirror of the abstract content: (big, copy, mode) or None
    ops = []
    nops = 10 + rng.below(66)
    arm = [0]               # mirror of the payloads' arming countdown

    def constructs():
        # one payload copy/move construction is attempted; True = it succeeds
        if arm[0] == 1:
            arm[0] = 0
            return False
        if arm[0] > 1:
            arm[0] -= 1
        return True

    def payload(i, cp):
        big = rng.below(2)
        cpy = 1 if (copyable(i) or cp) else rng.below(2)
        mode = rng.weighted([(0, 6), (1, 2)]) if isfn(i) else rng.weighted([(0, 5), (1, 2), (2, 2), (3, 1)])
        return big, cpy, mode, rng.below(40) - 5

    def pick(pred):
        c = [i for i in range(n) if pred(i)]
        return rng.choice(c) if c else None

    for _ in range(nops):
        if rng.below(25) == 0:
            # arbitrary (often invalid) operation: must be refused identically by both sides
            name = rng.choice(['new', 'del', 'reset', 'empty', 'run', 'runc', 'call', 'copy', 'move', 'cctor', 'mctor', 'swap'])
            i, j = rng.below(n), rng.below(n)
            if name in ('new', 'del', 'reset', 'empty', 'run', 'runc'):
                ops.append(f'{name} {i}')
            elif name == 'call':
                ops.append(f'call {i} {rng.below(7) - 2}')
            else:
                ops.append(f'{name} {i} {j}')
            # keep the mirror exact enough: re-derive by the same validity rules
            ok = False
            if name == 'new' and not live[i]:
                live[i], full[i] = True, None
            elif name == 'del' and live[i]:
                live[i], full[i] = False, None
            elif name == 'reset' and live[i]:
                full[i] = None
            elif name == 'run' and live[i] and not isfn(i):
                full[i] = None
            elif name == 'copy' and live[i] and live[j] and kinds[i] == kinds[j] and copyable(i) and i != j:
                full[i] = full[j] if (full[j] is None or constructs()) else None
            elif name == 'cctor' and not live[i] and live[j] and kinds[i] == kinds[j] and copyable(i):
                if full[j] is None or constructs():
                    live[i], full[i] = True, full[j]
            elif name == 'move' and live[i] and live[j] and mvfrom(i, j) and i != j:
                full[i], full[j] = full[j], None
            elif name == 'mctor' and not live[i] and live[j] and mvfrom(i, j):
                live[i], full[i], full[j] = True, full[j], None
            elif name == 'swap' and live[i] and live[j] and kinds[i] == kinds[j] and isfn(i):
                full[i], full[j] = full[j], full[i]
            continue
        k = rng.weighted([('newp', 6), ('new', 2), ('set', 7), ('reset', 2), ('del', 2), ('copy', 6), ('move', 6),
                          ('cctor', 4), ('mctor', 4), ('swap', 4), ('empty', 3), ('use', 12), ('arm', 2 if not sbo else 0)])
        if k == 'arm':
            a = rng.weighted([(1, 5), (2, 3), (3, 1), (0, 1)])
            ops.append(f'arm {a}')
            arm[0] = a
            continue
        if k == 'newp':
            i = pick(lambda i: not live[i])
            if i is None:
                continue
            cp = 1 if rng.below(3) == 0 else 0
            big, cpy, mode, v = payload(i, cp)
            ops.append(f'newp {i} {big} {cpy} {mode} {v} {cp}')
            if constructs():
                live[i], full[i] = True, (big, cpy, mode)
        elif k == 'new':
            i = pick(lambda i: not live[i])
            if i is None:
                continue
            ops.append(f'new {i}')
            live[i], full[i] = True, None
        elif k == 'set':
            i = pick(lambda i: live[i])
            if i is None:
                continue
            cp = 1 if rng.below(3) == 0 else 0
            big, cpy, mode, v = payload(i, cp)
            # same target type as the current one is the interesting branch of basic_function::assign
            if full[i] is not None and rng.below(2) == 0 and (full[i][1] or not cp):
                big, cpy, mode = full[i]
            ops.append(f'set {i} {big} {cpy} {mode} {v} {cp}')
            full[i] = (big, cpy, mode) if constructs() else None
        elif k in ('reset', 'del', 'empty'):
            i = pick(lambda i: live[i])
            if i is None:
                continue
            ops.append(f'{k} {i}')
            if k == 'reset':
                full[i] = None
            if k == 'del':
                live[i], full[i] = False, None
        elif k == 'copy':
            i = pick(lambda i: live[i] and copyable(i))
            if i is None:
                continue
            j = pick(lambda j: live[j] and kinds[j] == kinds[i] and (j != i or rng.below(6) == 0))
            if j is None:
                continue
            ops.append(f'copy {i} {j}')
            if i != j:
                full[i] = full[j] if (full[j] is None or constructs()) else None
        elif k == 'move':
            i = pick(lambda i: live[i])
            if i is None:
                continue
            j = pick(lambda j: live[j] and mvfrom(i, j) and (j != i or rng.below(6) == 0))
            if j is None:
                continue
            ops.append(f'move {i} {j}')
            if i != j:
                full[i], full[j] = full[j], None
        elif k == 'cctor':
            i = pick(lambda i: not live[i] and copyable(i))
            if i is None:
                continue
            j = pick(lambda j: live[j] and kinds[j] == kinds[i])
            if j is None:
                continue
            ops.append(f'cctor {i} {j}')
            if full[j] is None or constructs():
                live[i], full[i] = True, full[j]
        elif k == 'mctor':
            i = pick(lambda i: not live[i])
            if i is None:
                continue
            j = pick(lambda j: live[j] and mvfrom(i, j))
            if j is None:
                continue
            ops.append(f'mctor {i} {j}')
            live[i], full[i], full[j] = True, full[j], None
        elif k == 'swap':
            i = pick(lambda i: live[i] and isfn(i))
            if i is None:
                continue
            j = pick(lambda j: live[j] and kinds[j] == kinds[i] and (j != i or rng.below(6) == 0))
            if j is None:
                continue
            ops.append(f'swap {i} {j}')
            full[i], full[j] = full[j], full[i]
        else:
            i = pick(lambda i: live[i] and (full[i] is not None or rng.below(5) == 0))
            if i is None:
                continue
            if isfn(i):
                ops.append(f'call {i} {rng.below(7) - 2}')
            elif kinds[i] == 'A' and rng.below(3) != 0:
                ops.append(f'runc {i}')
            else:
                ops.append(f'run {i}')
                full[i] = None
    ops = ops[:80]
    ops.append('arm 0')
    for i in range(n):
        ops.append(f'del {i}')       # `invalid` (refused by both sides) for slots that are not constructed
    hdr = f'case {cid} kinds={kinds}' + (' sbo=1' if sbo else '') + (' conv=1' if rng.below(4) == 0 else '')
    return hdr + '\nthread 0: ' + ' ; '.join(ops) + ' ;\nendcase'


def nontrivial(c, r):
    raw = r['raw']
    two = any((f'o {k} ' in l and '=> ok' in l) for l in raw.split('\n') for k in ('copy', 'move', 'cctor', 'mctor', 'swap'))
    use = ('=> ret ' in raw) or ('=> value ' in raw) or ('=> error ' in raw) or ('=> stopped' in raw) or ('=> perr' in raw)
    return two and use


def stats(c, r):
    raw = r['raw']
    d = {}
    for l in raw.split('\n'):
        if not l.startswith('o '):
            continue
        t = l.split()
        d['op_' + t[1]] = d.get('op_' + t[1], 0) + 1
        res = l.split('=> ')[1].split(' |')[0].split()
        d['res_' + res[0]] = d.get('res_' + res[0], 0) + 1
        if res[0] == 'ret' and res[-1] == '1':
            d['call_saw_relocation'] = d.get('call_saw_relocation', 0) + 1
    d['objects'] = raw.count(' C') + raw.count(' K') + raw.count(' M')
    d['constructions_that_threw'] = raw.count(' F')
    return d


def optin_sbo(ctx):
    """Opt-in configuration -DPIKA_DETAIL_ENABLE_ANY_SENDER_SBO (the header calls it buggy): thorough tier
    (or VERIF_C18_SBO=1) only; reported separately, never a verdict.  The Lean model with Cfg.sbo = true
    must still reproduce every output line; the ledger monitor counts the histories in which the
    opt-in code leaves a moved-from embedded sender undestroyed (theorem C18_sbo_optin_leaks)."""
    from vlib import compile_harness, run_e1, REPO
    if ctx['tier'] != 'thorough' and os.environ.get('VERIF_C18_SBO') != '1':
        return {}
    src = os.path.join(REPO, 'libs/pika/execution_base/src/any_sender.cpp')
    ok, hbin, log = compile_harness(
        'e0_erase_sbo', 'e0/erase.cpp',
        extra='-O1 -g -fsanitize=address,undefined -fno-sanitize-recover=undefined '
              f'-DPIKA_DETAIL_ENABLE_ANY_SENDER_SBO \'-DERASE_ANY_SENDER_CPP="{src}"\'')
    if not ok:
        return {'optin_sbo': {'build': 'failed', 'log': log[-300:]}}
    n = 20000 if ctx['tier'] == 'thorough' else 2000
    cases = [gen(ctx['rng'], f'sbo{ctx["base_seed"]}n{i}', sbo=1) for i in range(n)]
    res = run_e1(hbin, 'erase', cases, jobs=ctx['jobs'], tag='C18sbo')
    acc = sum(1 for r in res if ' accept ' in r['verdict'])
    leak = sum(1 for r in res if 'were never destroyed' in r['verdict'])
    other = sum(1 for r in res if 'monitors FAIL' in r['verdict'] and 'were never destroyed' not in r['verdict'])
    first = next((r['verdict'][:300] for r in res if ' accept ' not in r['verdict']), '')
    return {'optin_sbo': {'histories': n, 'outputs_equal_to_model_Cfg_sbo_true': acc,
                          'histories_with_undestroyed_moved_from_sender': leak,
                          'histories_with_other_monitor_failures': other, 'first_divergence': first}}


if __name__ == '__main__':
    e0check.run(dict(
        prop='C18', model='erase', harness='e0/erase.cpp', bin='e0_erase', gen=gen, nontrivial=nontrivial, stats=stats,
        quick=4000, thorough=100000, extra=8000, extras=optin_sbo,
        rule='random histories (10-80 operations over 2-6 wrapper slots of kinds function / unique_function / unique_any_sender / any_sender; operations: default/payload construction, destruction, payload assignment by move or copy, reset, copy/move assignment, copy/move construction, swap, empty(), call, connect&&+start, connect const&+start; payloads small/large, move-only/copyable, returning/throwing on call, value/error/stopped/connect-throws, copy/move constructors armed to throw at a chosen construction; about 4% arbitrary possibly-invalid operations); non-trivial = at least one successful two-wrapper operation and one successful use; distinct = distinct history text',
        corr_name='E0: for every operation of the history, result and payload constructor/destructor event sequence printed by harness/e0/erase.cpp (real pika wrappers, ASan+UBSan) equal the output of the Lean model Erase.exec',
        assumptions=['shipped configuration only: the sender small-buffer optimisation (PIKA_DETAIL_ENABLE_ANY_SENDER_SBO) is off; the opt-in configuration is modelled (Cfg.sbo) and reported separately, not claimed',
                     'cross-wrapping (a function stored inside a unique_function, an any_sender stored as payload of a unique_any_sender by l-value) is not generated; any_sender&& -> unique_any_sender conversion is'],
    ))
