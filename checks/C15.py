#!/usr/bin/env python3
"""C15 - workers are pinned to distinct PUs inside the process mask.

Lean model PikaVerif/Model/Aff.lean (topology accessors, check_num_threads, the four decoders,
affinity_data::init, partitioner PU->pool assignment) + theorems Props/C15.lean, tied to the
working tree by engine E0: one harness process per synthetic hwloc topology calls the real
pika::detail::parse_affinity_options / affinity_data::init / topology accessors; the compiled
Lean model recomputes every output line; independent monitors recompute the property from the
implementation's output alone."""
import os, sys, time, re, glob, subprocess
sys.path.insert(0, os.path.join(os.path.dirname(os.path.abspath(__file__)), '..', 'tools'))
from vlib import *
from concurrent.futures import ThreadPoolExecutor

PROP = 'C15'
MODES = ['compact', 'scatter', 'balanced', 'numa-balanced', 'none']

# Findings of the pinned tree reproduced by this check (text for /verif/known_findings.txt is in
# notes/C15.md; lines there with property=C15 are honoured as well).  A monitor message that
# matches none of these signatures is a VIOLATION.
LOCAL_KNOWN = []     # every signature lives in /verif/known_findings.txt


# ------------------------------------------------------------------------------ topologies
def topo_variants(tr):
    """(synthetic string, model description) for every machine shape."""
    out = []
    for P in range(1, 5):
        for C in range(1, 9):
            for U in range(1, 5):
                model = '/'.join(['.'.join([str(U)] * C)] * P)
                out.append((f'pack:{P} core:{C} pu:{U}', model))
    extra = []
    for P, G, C, U in [(2, 2, 2, 2), (1, 2, 3, 2), (3, 2, 1, 1), (2, 2, 2, 1), (4, 2, 2, 2), (2, 3, 1, 2)]:
        model = '/'.join(['.'.join([str(U)] * (G * C))] * P)
        extra.append((f'pack:{P} numa:{G} core:{C} pu:{U}', model))      # numa level (memory side objects)
        extra.append((f'pack:{P} l3:{G} core:{C} pu:{U}', model))        # cache level between package and core
    for C, U in [(1, 1), (4, 2), (8, 1), (3, 3), (6, 4)]:
        extra.append((f'core:{C} pu:{U}', 'np:' + '.'.join([str(U)] * C)))   # no package objects
    for G, C, U in [(2, 4, 2), (4, 2, 1)]:
        extra.append((f'numa:{G} core:{C} pu:{U}', 'np:' + '.'.join([str(U)] * (G * C))))
    for P, U in [(2, 4), (1, 3), (3, 2)]:
        extra.append((f'pack:{P} pu:{U}', 'pc:' + '/'.join(['.'.join(['1'] * U)] * P)))  # no core objects: PUs as cores
    return out, extra


def asym_variants(rng, count):
    """asymmetric machines: a symmetric shape with PUs (and the cores / packages they empty) removed;
    realised as an hwloc XML file by harness/e0/mkxml.c.  synth = asym:P:C:U:keepbits"""
    out = []
    while len(out) < count:
        P, C, U = 1 + rng.below(3), 1 + rng.below(4), 1 + rng.below(4)
        N = P * C * U
        if N < 2:
            continue
        keep = [1 if rng.below(4) != 0 else 0 for _ in range(N)]
        if sum(keep) == 0 or sum(keep) == N:
            continue
        socks = []
        for p in range(P):
            cores = []
            for c in range(C):
                u = sum(keep[(p * C + c) * U:(p * C + c + 1) * U])
                if u:
                    cores.append(u)
            if cores:
                socks.append(cores)
        model = '/'.join('.'.join(map(str, cs)) for cs in socks)
        out.append((f"asym:{P}:{C}:{U}:{''.join(map(str, keep))}", model))
    return out


def model_shape(model):
    body = model[3:] if model.startswith(('np:', 'pc:')) else model
    socks = [[int(x) for x in s.split('.')] for s in body.split('/')]
    cores = [u for s in socks for u in s]
    return socks, cores


def gen_cases(rng, synth, model, tr, tag, budget_div):
    """case texts for one topology. budget_div: [remaining number of diverging cases allowed]"""
    socks, cores = model_shape(model)
    nc, npus = len(cores), sum(cores)
    base = [sum(cores[:c]) for c in range(nc)]
    cases = [f'case {tag}t topo={model} mode=topo n=1 use=1 used=0 maxc=0 mask=all\nendcase']
    masks = ['all']
    if npus > 1:
        # asymmetric masks: random subset, one PU per core, a core prefix cut in the middle of a core,
        # second hardware threads only, one socket plus one PU of the next
        k = 1 + rng.below(npus)
        sub = sorted(set(rng.below(npus) for _ in range(k)))
        masks.append('.'.join(map(str, sub)))
        masks.append('.'.join(str(base[c] + rng.below(cores[c])) for c in range(nc) if rng.below(4) != 0) or '0')
        cut = 1 + rng.below(npus - 1)
        masks.append('.'.join(map(str, range(cut))))
        hi = [base[c] + cores[c] - 1 for c in range(nc)]
        masks.append('.'.join(map(str, hi)))
        if len(socks) > 1:
            s0 = sum(socks[0])
            masks.append('.'.join(map(str, list(range(s0 - 1)) + [s0 + rng.below(npus - s0)])) if s0 > 1 else str(s0))
        if tr == 'thorough':
            for _ in range(3):
                sub = sorted(set(rng.below(npus) for _ in range(1 + rng.below(npus))))
                masks.append('.'.join(map(str, sub)))
    masks = list(dict.fromkeys(masks))
    i = 0
    for mask in masks:
        avail = npus if mask == 'all' else len(mask.split('.'))
        # C15t: use=0 with a strict mask = --pika:ignore-process-mask while a mask is set (one mask per
        # topology): counts between |mask|+1 and #PUs must be accepted and may leave the mask
        ign_strict = (mask != 'all' and mask == masks[-1])
        for use in ((1, 0) if (mask == 'all' or ign_strict) else (1,)):
            av = avail if use else npus
            counts = list(range(1, av + 2))
            if tr != 'thorough' and len(counts) > 10:
                pick = {1, 2, av - 1, av, av + 1}
                while len(pick) < 10:
                    pick.add(1 + rng.below(av + 1))
                counts = sorted(pick)
            # C15t: oversubscription well beyond the limit (every mode must reject; none must not bind)
            counts = counts + [av + 2 + rng.below(3), 2 * av + 1]
            for n in counts:
                for mode in MODES:
                    if mode == 'none' and n > npus + 3 and n != 2 * av + 1:
                        continue
                    if mode == 'none' and n > 64:
                        continue        # get_pu_mask would read past the storage word of no_affinity_
                    if use:
                        maxc, used = rng.choice([n, nc, 1, 0, nc + 3]), rng.choice([0, 0, 1, 3])
                    else:
                        # runtime default: max_cores = pika.cores = number of threads
                        maxc, used = n, 0
                        r = rng.below(10)
                        if r == 0:
                            maxc = nc + rng.below(3)
                        elif r == 1 and n > 1:
                            maxc = 1 + rng.below(n - 1)          # --pika:cores below the thread count
                            want_div = mode in ('scatter', 'balanced') and sum(cores[:min(maxc, nc)]) < n
                            if want_div:
                                if budget_div[0] <= 0:
                                    maxc = n
                                else:
                                    budget_div[0] -= 1
                        elif r == 2:
                            used = 1 + rng.below(nc)
                            if len(set(cores)) > 1:
                                used = 0
                    cases.append(f'case {tag}c{i} topo={model} mode={mode} n={n} use={use} used={used} maxc={maxc} mask={mask}\nendcase')
                    i += 1
    return cases


def gen_cmd(rng, model, tr, tag, budget_div):
    """C15t: command-line layer (harness/e0/affinity_cmd.cpp): --pika:threads x --pika:cores x
    --pika:ignore-process-mask x --pika:bind x process mask, one synthetic machine"""
    socks, cores = model_shape(model)
    nc, npus = len(cores), sum(cores)
    base = [sum(cores[:c]) for c in range(nc)]
    masks = ['all']
    if npus > 1:
        sub = sorted(set(rng.below(npus) for _ in range(1 + rng.below(npus))))
        masks.append('.'.join(map(str, sub)))
        masks.append('.'.join(str(base[c] + cores[c] - 1) for c in range(nc) if rng.below(3) != 0) or '0')
    masks = list(dict.fromkeys(masks))
    cases, i = [], 0
    for mask in masks:
        inmask = npus if mask == 'all' else len(mask.split('.'))
        for use in (1, 0):
            av = inmask if use else npus
            thr_opts = ['-', 'cores', 'all', '1', str(av), str(av + 1), str(av + 1 + rng.below(4)), str(1 + rng.below(av)), '0']
            if tr != 'thorough':
                thr_opts = thr_opts[:6] + [thr_opts[6 + rng.below(3)]]
            for thr in thr_opts:
                for bind in MODES:
                    if bind == 'none' and thr.isdigit() and int(thr) > 64:
                        continue
                    if bind == 'numa-balanced' and len(set(cores)) > 1:
                        # cores of different sizes: numa-balanced often never returns (known finding, covered at
                        # the decoder level); every such case costs the CPU-time limit
                        if budget_div[0] <= 0 or rng.below(8) != 0:
                            continue
                        budget_div[0] -= 1
                    r = rng.below(8)
                    cs = '-'
                    if r == 0:
                        cs = 'all'
                    elif r == 1:
                        cs = str(nc + rng.below(3))
                    elif r == 2:
                        cs = str(1 + rng.below(max(1, nc)))       # may be below the thread count
                    elif r == 3 and not use and bind == 'compact' and budget_div[0] > 0 and rng.below(4) == 0:
                        cs = '0'                                  # --pika:cores=0: compact never returns (known finding)
                        budget_div[0] -= 1
                    n_eff = int(thr) if thr.isdigit() else (npus if not use else inmask)
                    if cs.isdigit() and not use and bind in ('scatter', 'balanced') and sum(cores[:min(int(cs), nc)]) < min(n_eff, npus + 1) and n_eff <= npus:
                        # start-up would never return (known finding): costs 1 s of CPU each
                        if budget_div[0] <= 0:
                            cs = '-'
                        else:
                            budget_div[0] -= 1
                    cases.append(f'case {tag}m{i} kind=cmd topo={model} bind={bind} threads={thr} cores={cs} use={use} mask={mask}\nendcase')
                    i += 1
    return cases


def gen_live(rng, count, tag):
    """live starts of the real runtime on this machine (all PUs the process may use)"""
    cpus = sorted(os.sched_getaffinity(0))
    cpus = [c for c in cpus if c < 64]
    cases = []
    for i in range(count):
        bind = rng.choice(['compact', 'scatter', 'balanced', 'numa-balanced', 'none'])
        use = 0 if rng.below(5) == 0 else 1
        if use and rng.below(3) != 0 and len(cpus) > 1:
            k = 1 + rng.below(len(cpus))
            sub = sorted(set(rng.choice(cpus) for _ in range(k)))
            mask = '.'.join(map(str, sub))
            avail = len(sub)
        else:
            mask, avail = 'all', len(cpus)
        r = rng.below(10)
        if r == 0:
            thr, n = 'all', avail
        elif r == 1:
            thr, n = 'cores', avail            # no SMT assumed only for choosing pool ordinals
        elif r == 2 and bind != 'none':
            thr, n = str(avail + 1 + (rng.below(3) if rng.below(2) else 0)), 0         # must be rejected
        elif r == 3 and bind == 'none' and mask == 'all' and rng.below(2) == 0:
            # C15t: bind=none beyond the machine: no error, fewer workers than requested (known finding)
            thr, n = str(len(cpus) + 1), len(cpus) + 1
        else:
            n = 1 + rng.below(avail)
            thr = str(n)
        cores = 0
        if not use and bind == 'compact' and n > 1 and rng.below(3) == 0:
            cores = 1 + rng.below(n - 1)       # --pika:cores below the thread count (known finding)
        elif use and n > 1 and rng.below(4) == 0:
            cores = 1 + rng.below(n)           # C15t: --pika:cores is overridden while the process mask is used
        pools = '-'
        if n > 1 and rng.below(2) == 0:
            np_ = 1 + rng.below(2)
            ords = list(range(n))
            spec = []
            for _ in range(np_):
                take = []
                for _ in range(1 + rng.below(2)):
                    if rng.below(12) == 0:
                        take.append(rng.below(n))          # may repeat a PU: must be refused
                    elif ords:
                        take.append(ords.pop(rng.below(len(ords))))
                if take:
                    spec.append('.'.join(map(str, take)))
            pools = '/'.join(spec) or '-'
        cases.append(f'case {tag}l{i} kind=live bind={bind} threads={thr} use={use} mask={mask} cores={cores} pools={pools}\nendcase')
    return cases


# ------------------------------------------------------------------------------ running
def run_topology(hbin, synth, cases, tag):
    work = os.path.join(BUILD, 'work', f'{PROP}_{os.getpid()}')
    os.makedirs(work, exist_ok=True)
    cf = os.path.join(work, f'{tag}.case')
    with open(cf, 'w') as f:
        f.write('\n'.join(cases) + '\n')
    env = dict(os.environ)
    env.pop('HWLOC_XMLFILE', None)
    full = synth
    if synth.startswith('cmd:'):
        synth = synth[4:]
        hbin = hbin + '_cmd'
    if synth.startswith('asym:'):
        _, P, C, U, keep = synth.split(':')
        xml = os.path.join(work, f'{tag}.xml')
        mk = subprocess.run([os.path.join(BIN, 'e0_mkxml'), P, C, U, keep, xml], capture_output=True, text=True)
        if mk.returncode != 0:
            return [{'id': c.split()[1], 'synth': full, 'case': c, 'raw': '', 'verdict': f'case {c.split()[1]} reject 0 [mkxml failed: {mk.stderr[:100]}]', 'err': mk.stderr} for c in cases]
        env['HWLOC_XMLFILE'] = xml
        env.pop('HWLOC_SYNTHETIC', None)
    else:
        env['HWLOC_SYNTHETIC'] = synth
    env['HWLOC_THISSYSTEM'] = '0'
    if synth == 'live':
        env = dict(os.environ)
        for k in ('HWLOC_SYNTHETIC', 'HWLOC_XMLFILE', 'HWLOC_THISSYSTEM'):
            env.pop(k, None)
        hbin = hbin + '_live'
    h = subprocess.run([hbin, cf], capture_output=True, text=True, env=env)
    driver = os.path.join(LEAN, '.lake', 'build', 'bin', 'driver')
    d = subprocess.run([driver, 'aff'], input=h.stdout, capture_output=True, text=True)
    raws, cur, buf = {}, None, []
    for line in h.stdout.split('\n'):
        if line.startswith('case '):
            cur, buf = line.split()[1], [line]
        elif cur is not None:
            buf.append(line)
            if line == 'endcase':
                raws[cur] = '\n'.join(buf)
                cur = None
    verd = {}
    for line in d.stdout.split('\n'):
        if line.startswith('case '):
            verd[line.split()[1]] = line
    out = []
    for c in cases:
        cid = c.split()[1]
        out.append({'id': cid, 'synth': full, 'case': c, 'raw': raws.get(cid, ''),
                    'verdict': verd.get(cid, f'case {cid} reject 0 [no-output]'), 'err': h.stderr[-300:]})
    return out


def classify_case(r, known):
    """-> ('pass'|'tie'|'monitor'|'known', [messages], [known ids])"""
    v = r['verdict']
    msgs, kids = [], []
    if 'monitors FAIL:' in v:
        for m in v.split('monitors FAIL:')[1].split(' | '):
            m = m.strip()
            sig = re.sub(r'\d+', 'N', m)
            hit = [k for k in known if k['signature'] and k['signature'] in sig]
            if hit:
                kids.append((hit[0]['id'], m))
            else:
                msgs.append(m)
    if msgs:
        return 'monitor', msgs, kids
    if ' accept ' not in v:
        return 'tie', [v], kids
    return ('known' if kids else 'pass'), [], kids


def main():
    t0 = time.time()
    tr = tier()
    base_seed, seed = seed_for(PROP)
    rng = Rng(seed)
    replay = None
    for i, a in enumerate(sys.argv):
        if a == '--replay' and i + 1 < len(sys.argv):
            replay = sys.argv[i + 1]
    violations, known_lines = [], []

    # 1. proof obligations
    ok_build, build_log = lean_build('C15')
    audit = {'obligations': 0, 'discharged': 0, 'problems': ['lake build failed'], 'theorems': [],
             'checker_cmd': f'cd {LEAN} && lake build'}
    if ok_build:
        audit = lean_audit(PROP, [])
        if tr == 'thorough':
            for m, okc, out in leanchecker([f'PikaVerif.Props.{PROP}']):
                if not okc:
                    audit['problems'].append(f'leanchecker {m}: {out}')
    proof_ok = ok_build and not audit['problems'] and audit['obligations'] == audit['discharged'] and audit['obligations'] > 0

    # 2. implementation side
    ok_p, plog = pika_build('hooks')
    ok_h, hbin, hlog = (False, '', '')
    if ok_p:
        ok_h, hbin, hlog = compile_harness('e0_affinity', 'e0/affinity.cpp', 'hooks')
        if ok_h:
            ok_h, _, hlog = compile_harness('e0_affinity_live', 'e0/affinity_live.cpp', 'hooks')
        if ok_h:
            ok_h, _, hlog = compile_harness('e0_affinity_cmd', 'e0/affinity_cmd.cpp', 'hooks')
    if ok_p and ok_h:
        mk = sh(f'gcc -O1 {os.path.join(HERE, "harness", "e0", "mkxml.c")} -lhwloc -o {os.path.join(BIN, "e0_mkxml")}')
        if mk.returncode != 0:
            ok_h, hlog = False, mk.stderr[-2000:]
    if not (ok_p and ok_h):
        p = write_replay(PROP, f'build-failure-{base_seed}.txt', (plog if not ok_p else hlog))
        write_evidence(PROP, tr, base_seed, {'obligations': audit['obligations'], 'discharged': audit['discharged'],
                       'checker_cmd': audit['checker_cmd'], 'trusted_base': TRUSTED,
                       'explanation': 'implementation side failed to build; correspondence could not run'},
                       time.time() - t0, 1)
        finish(PROP, [f'VIOLATION property={PROP} replay={p} no-failing-input-found'], [])

    # 3. correspondence + monitors
    known = known_findings(PROP) + LOCAL_KNOWN
    jobs = []       # (synth, [cases], tag)
    if replay:
        txt = open(replay).read()
        import json as _j
        try:
            j = _j.loads(txt)
            jobs.append((j['synthetic'], [j['case']], 'r'))
        except Exception:
            m = re.search(r'^synthetic (.*)$', txt, flags=re.M)
            cs = re.findall(r'(case .*?endcase)', txt, flags=re.S)
            jobs.append((m.group(1).strip() if m else 'pack:1 core:1 pu:1', cs, 'r'))
    else:
        corpus = sorted(glob.glob(os.path.join(HERE, 'corpus', PROP, '*.case')))
        for ci, cpath in enumerate(corpus):
            txt = open(cpath).read()
            m = re.search(r'^synthetic (.*)$', txt, flags=re.M)
            cs = re.findall(r'(case .*?endcase)', txt, flags=re.S)
            jobs.append((m.group(1).strip(), cs, f'k{ci}'))
        main_t, extra_t = topo_variants(tr)
        if tr == 'thorough':
            chosen = main_t + extra_t
        else:
            pool = list(main_t)
            chosen = []
            for _ in range(32):
                chosen.append(pool.pop(rng.below(len(pool))))
            # always: the shapes of the known numa-balanced witnesses and some of the odd shapes
            chosen += [t for t in main_t if t[0] in ('pack:3 core:2 pu:2', 'pack:2 core:2 pu:2') and t not in chosen]
            ex = list(extra_t)
            for _ in range(10):
                chosen.append(ex.pop(rng.below(len(ex))))
        chosen += asym_variants(rng, 60 if tr == 'thorough' else 8)
        budget_div = [40 if tr == 'thorough' else 6]
        for ti, (synth, model) in enumerate(chosen):
            jobs.append((synth, gen_cases(rng, synth, model, tr, f's{base_seed}g{ti}', budget_div), f'g{ti}'))
        # C15t: command-line layer on a subset of the machines (all of them in the thorough tier)
        cmd_t = chosen if tr == 'thorough' else [chosen[i] for i in sorted(set([0, 1, 2, 3] + [32, 33] + list(range(len(chosen) - 10, len(chosen)))) ) if i < len(chosen)]
        budget_cmd = [30 if tr == 'thorough' else 4]
        for ti, (synth, model) in enumerate(cmd_t):
            jobs.append(('cmd:' + synth, gen_cmd(rng, model, tr, f's{base_seed}c{ti}', budget_cmd), f'c{ti}'))
        nlive = 400 if tr == 'thorough' else 40
        for li in range(4):
            jobs.append(('live', gen_live(rng, nlive // 4, f's{base_seed}L{li}'), f'L{li}'))

    with ThreadPoolExecutor(max_workers=8) as ex:
        results = [r for rs in ex.map(lambda j: run_topology(hbin, j[0], j[1], j[2]), jobs) for r in rs]
    import shutil
    shutil.rmtree(os.path.join(BUILD, 'work', f'{PROP}_{os.getpid()}'), ignore_errors=True)

    kinds = {'pass': 0, 'known': 0, 'monitor': 0, 'tie': 0}
    known_seen, mon_seen, ties = {}, {}, []
    nontriv = set()
    dist = {}
    for r in results:
        k, msgs, kids = classify_case(r, known)
        kinds[k] += 1
        for kid, m in kids:
            known_seen.setdefault(kid, (m, r))
        if k == 'monitor':
            for m in msgs:
                mon_seen.setdefault(re.sub(r'\d+', 'N', m)[:160], (m, r))
        elif k == 'tie':
            ties.append(r)
        if k in ('pass', 'known'):
            c = r['case']
            mm = re.search(r'mode=(\S+)', c)
            mode = mm.group(1) if mm else 'live-' + re.search(r'bind=(\S+)', c).group(1)
            dist[mode] = dist.get(mode, 0) + 1
            if ' error ' in r['raw']:
                dist['rejected'] = dist.get('rejected', 0) + 1
            if 'diverge' in r['raw']:
                dist['diverging'] = dist.get('diverging', 0) + 1
            if 'use=0' in c:
                dist['mask_ignored'] = dist.get('mask_ignored', 0) + 1
            elif 'mask=all' not in c:
                dist['asymmetric_mask'] = dist.get('asymmetric_mask', 0) + 1
            nm = re.search(r' n=(\d+)', c)
            n = int(nm.group(1)) if nm else r['raw'].count('\nw ')
            if mode != 'topo' and (n >= 2 or ' error ' in r['raw']):
                nontriv.add(re.sub(r'^case \S+', 'case', c))

    for kid, (m, r) in sorted(known_seen.items()):
        known_lines.append(f'KNOWN-FINDING: property={PROP} {kid}: {m[:200]} [{r["synth"]}; {r["case"].splitlines()[0]}]')
    n = 0
    for sig, (m, r) in mon_seen.items():
        n += 1
        p = write_replay(PROP, f'monitor-{base_seed}-{n}.json',
                         {'property': PROP, 'kind': 'monitor', 'what': m, 'synthetic': r['synth'], 'case': r['case'],
                          'impl_output': r['raw'], 'model_verdict': r['verdict'],
                          'rerun_cmd': f'cd {HERE} && ./check {PROP} --replay <this file>'})
        violations.append(f'VIOLATION property={PROP} replay={p}')
    if not mon_seen:
        if not proof_ok:
            p = write_replay(PROP, f'proof-{base_seed}.json',
                             {'property': PROP, 'kind': 'proof', 'problems': audit['problems'], 'build_log': build_log[-3000:],
                              'theorems': audit['theorems'], 'searched_cases': len(results)})
            violations.append(f'VIOLATION property={PROP} replay={p} no-failing-input-found')
        if ties:
            r = ties[0]
            p = write_replay(PROP, f'tie-{base_seed}.json',
                             {'property': PROP, 'kind': 'tie',
                              'correspondence': 'E0: output of harness/e0/affinity.cpp (real parse_affinity_options / affinity_data::init / topology accessors) equals the output of the Lean model Aff',
                              'first_divergence': r['verdict'], 'synthetic': r['synth'], 'case': r['case'], 'impl_output': r['raw'],
                              'diverging_cases': len(ties), 'searched_cases': len(results), 'stderr': r['err']})
            violations.append(f'VIOLATION property={PROP} replay={p} no-failing-input-found')

    samples = [{'synthetic': r['synth'], 'case': r['case'], 'impl_output': r['raw'].split('\n')[1:-2]}
               for r in results if 'mode=topo' not in r['case']][3:6]
    cov = {
        'obligations': audit['obligations'], 'discharged': audit['discharged'],
        'checker_cmd': audit['checker_cmd'], 'trusted_base': TRUSTED,
        'evaluations': len(results), 'distinct_nontrivial': len(nontriv),
        'rule': RULE, 'samples': samples or [r['case'] for r in results[:2]],
        'traces_validated_against_impl': kinds['pass'] + kinds['known'],
        'disagreements_checked': kinds['tie'],
        'topologies': len(jobs),
        'explanation': f"theorems: {[t[0] for t in audit['theorems']]}; correspondence: {kinds}; known findings seen: {sorted(known_seen)}; distribution {dist}",
    }
    write_evidence(PROP, tr, base_seed, cov, time.time() - t0, len(violations), assumptions=ASSUME)
    print(f"{PROP}: theorems {audit['discharged']}/{audit['obligations']} audited; E0 topologies {len(jobs)}, cases {len(results)}: {kinds}; nontrivial distinct {len(nontriv)}; {time.time()-t0:.1f}s")
    finish(PROP, violations, known_lines)


TRUSTED = TRUSTED_BASE[:1] + [
    "the hand-written Lean model Model/Aff.lean follows parse_affinity_options.cpp / affinity_data.cpp / topology accessors / partitioner add_resource+setup_pools line by line; it is tied to the working tree only by the E0 differential run of this check (finite; counts below), not by a proof about the C++ text",
    "hwloc's synthetic topologies (HWLOC_SYNTHETIC) stand in for real machines; pika's topology object is built from them by the unmodified code",
    "std::round(double(a)/double(b)) is modelled as (2a+b)/(2b) on naturals (exact for operands below 2^26)",
    "harness harness/e0/affinity.cpp, the line comparison in lean/Driver/AffDrv.lean, non-termination detected by a CPU-time limit (0.3 s user time for a microsecond computation)",
]
RULE = ("machine shapes pack:1-4 x core:1-8 x pu:1-4 (quick: 32 drawn + fixed witnesses; thorough: all 128) plus shapes with numa/l3 levels, without package "
        "objects and without core objects; per shape: process mask all / random subset / one PU per core / prefix cut inside a core / last hardware thread of "
        "every core / socket 0 plus one PU; mask used and ignored; thread counts 1..#available+1 (quick: 10 per mask on big shapes); modes compact, scatter, "
        "balanced, numa-balanced, none; max_cores/used_cores varied. non-trivial = at least 2 threads requested or the request was rejected; distinct = distinct "
        "(shape, mask, mode, count, use, used, max_cores) text")
ASSUME = ["the live binding of running workers (hwloc_set_cpubind in thread_func) and --pika:threads=cores/all are outside the E0 tie (see notes/C15.md)"]

if __name__ == '__main__':
    main()
