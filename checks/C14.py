#!/usr/bin/env python3
"""C14 - stop_token: Lean models Stop (concurrency) and StopRef (reference-count histories),
theorems Props/C14.lean, tied by E1 (controlled schedules) and by a sequential differential run;
plus a live-runtime monitor tier (checks/C14live.py: pika tasks sharing / changing OS threads)."""
import os, sys
sys.path.insert(0, os.path.join(os.path.dirname(os.path.abspath(__file__)), '..', 'tools'))
import e1check


def script(rng, me, ncb):
    ops = []
    for _ in range(rng.weighted([(0, 3), (1, 4), (2, 3), (3, 1)])):
        o = rng.weighted([('self', 3), ('other', 3), ('reg', 2), ('rs', 1), ('pt', 3), ('q', 1)])
        if o == 'self':
            ops.append(f'unreg:{me}')
        elif o == 'other':
            ops.append(f'unreg:{rng.below(ncb)}')
        elif o == 'reg':
            ops.append(f'reg:{rng.below(ncb)}')
        else:
            ops.append(f'{o}:0')
    return ','.join(ops)


def gen(rng, cid):
    k = rng.weighted([(2, 5), (3, 4), (4, 1)])
    ncb = rng.weighted([(2, 2), (3, 3), (4, 3), (5, 2), (6, 1)])
    mode = rng.weighted([('os', 4), ('pika', 1)])
    hdr = f'case {cid} mode={mode} ncb={ncb} seed={rng.below(1 << 30)} strat={rng.weighted([(0, 5), (1, 3), (2, 2)])}'
    for c in range(ncb):
        s = script(rng, c, ncb)
        if s:
            hdr += f' cb{c}={s}'
    lines = [hdr]
    for t in range(k):
        ops = []
        for _ in range(2 + rng.below(5)):
            o = rng.weighted([('rs', 4), ('reg', 6), ('unreg', 4), ('q', 1), ('addsrc', 1), ('dropsrc', 1), ('pt', 1)])
            if o in ('reg', 'unreg'):
                ops.append(f'{o} {rng.below(ncb)}')
            else:
                ops.append(o)
        lines.append(f'thread {t}: ' + ' ; '.join(ops) + ' ;')
    lines.append('endcase')
    return '\n'.join(lines)


def nontrivial(c, r):
    # a request_stop that really ran a registered callback, or a contended lock word
    return ' stop.deq ' in r['raw'] or ' stop.casfail ' in r['raw']


def stats(c, r):
    raw = r['raw']
    return {'cas_failures': raw.count(' stop.casfail '), 'spin_reloads': raw.count(' stop.reload '),
            'dequeued': raw.count(' stop.deq '), 'inline_runs': raw.count(' stop.infin '),
            'unlinked': sum(1 for l in raw.split('\n') if ' stop.unlink ' in l and l.split()[3] == '1'),
            'unlink_failed': sum(1 for l in raw.split('\n') if ' stop.unlink ' in l and l.split()[3] == '0'),
            'self_deregistrations': raw.count(' stop.setrem '), 'waited_for_other_thread': raw.count(' stop.waited '),
            'pika_task_cases': 1 if ' mode=pika ' in c else 0}


def extra_checks(ctx):
    """second correspondence (reference counts) + live-runtime tier, folded into one result for e1check"""
    import C14ref, C14live
    out = {'violations': [], 'evaluations': 0, 'validated': 0, 'disagreements': 0, 'explanation': ''}
    for part in (C14ref.run(ctx), C14live.run(ctx)):
        out['violations'] += part.get('violations', [])
        for k in ('evaluations', 'validated', 'disagreements'):
            out[k] += part.get(k, 0)
        out['explanation'] += ('; ' if out['explanation'] else '') + part.get('explanation', '')
    return out


if __name__ == '__main__':
    sys.path.insert(0, os.path.dirname(os.path.abspath(__file__)))
    e1check.run(dict(
        prop='C14', props=['C14', 'C14q', 'C14t'], model='stop', harness='e1/stop.cpp', bin='e1_stop', gen=gen, nontrivial=nontrivial, stats=stats,
        quick=3000, thorough=120000, extra=8000,
        extra_check=extra_checks,
        rule='(a) random programs (2-4 logical threads on plain OS threads or pika tasks, 2-6 operations each over request_stop / stop_callback construction / destruction / stop_requested+stop_possible query / stop_source copy+destroy, 2-6 callbacks whose bodies deregister themselves or others, register further callbacks or call request_stop) on one stop state under PRNG schedules (uniform / priority / sticky); non-trivial = request_stop dequeued a registered callback or a CAS on the state word failed; distinct = distinct (program, schedule seed) text. (b) random sequential histories of stop_source / stop_token special members, compared line by line with the Lean model. (c) live runtime: harness/e2/stop_live.cpp, scenario A (request_stop on a pika task whose callback suspends it while another pika task on the same worker OS thread destroys the stop_callback) and scenario B (the task is stolen by another worker inside the callback and destroys its own stop_callback), PRNG-chosen numbers of callbacks, yields and destroyer tasks; observable monitors only',
        corr_name='E1 log of harness/e1/stop.cpp accepted by Lean model Stop; E0 outputs of harness/e0/stopref.cpp equal to Lean model StopRef',
        assumptions=['token reference count (bits 0-30) is modelled in the sequential half only; the concurrency model keeps lock bit, stop-requested bit and source count of the word',
                     'callback bodies are harness scripts (deregister self/other, register, request_stop, query); callbacks that block are outside the model',
                     'live tier: monitors only (no event-log acceptor); its hang verdict uses the hook note stop.self of remove_callback; runs that cannot provoke a steal or exceed the wall-clock budget give no verdict'],
    ))
