#!/usr/bin/env python3
"""C10 - work runs where it was sent (scheduler, pool and hint placement).
Lean model Place + Props/C10.lean; tie: E2 logs of generated pipelines over 1-3 pools created through the
resource partitioner (every scheduling policy), plus the sequential (E0) placement-function runs."""
import os, sys
sys.path.insert(0, os.path.join(os.path.dirname(os.path.abspath(__file__)), '..', 'tools'))
import e2check

# (layout of extra pools, total threads, policy of the default pool)
LAYOUTS = [
    ('p1:static:3', 5, 'local-priority-fifo'),            # default pool of 2 + static pool of 3 (offset 2, size 3)
    ('p1:static-priority:3,p2:local:1', 6, 'static'),
    ('-', 3, 'static-priority'),
    ('p1:shared-priority:2', 4, 'abp-priority-fifo'),
    ('p1:static:3,p2:static-priority:2', 6, 'local'),
    ('p1:local-priority-lifo:1', 2, 'static'),
    ('p1:static-priority:3', 4, 'abp-priority-lifo'),
    ('p1:static:2,p2:static:3', 7, 'static-priority'),
]
# (no layout with the elasticity mode: there select_active_pu may yield the calling task inside start(), which the
#  model's `start does not yield` guard excludes - see notes/C10.md)
THOROUGH_EXTRA = [
    ('p1:local:2,p2:static:3', 7, 'abp-priority-fifo'),
    ('p1:shared-priority:3,p2:static:2', 6, 'shared-priority'),
    ('p1:abp-priority-fifo:2,p2:static-priority:4', 8, 'local-priority-lifo'),
    ('-', 1, 'static'),
    ('-', 8, 'static'),
    ('p1:static:5', 7, 'static'),
]


def argv(rng, mode, size, lay, perturb):
    layout, th, pol = lay
    return [rng.below(1 << 30), perturb, mode, size, layout, f'--pika:threads={th}', f'--pika:scheduler={pol}']


def runs(rng, tier):
    out = []
    if tier == 'thorough':
        for lay in LAYOUTS + THOROUGH_EXTRA:
            for k in range(24):
                out.append(argv(rng, 'mix', rng.choice([20, 40, 80]), lay, rng.choice([0, 100, 300, 600])))
            for k in range(10):
                out.append(argv(rng, 'susp', rng.choice([60, 120]), lay, rng.choice([200, 600])))
            for k in range(2):
                out.append(argv(rng, 'seq', 80, lay, 0))
    else:
        for i, lay in enumerate(LAYOUTS):
            out.append(argv(rng, 'mix', rng.choice([20, 30]), lay, rng.choice([100, 300])))
            out.append(argv(rng, 'mix', 20, lay, rng.choice([0, 600])))
            out.append(argv(rng, 'mix', 40, lay, 300))
            out.append(argv(rng, 'susp', 60, lay, 600))
            out.append(argv(rng, 'seq', 40, lay, 0))
    return out


def extra_runs(rng, tier):
    return [argv(rng, m, 24, lay, 600) for lay in LAYOUTS for m in ('mix', 'susp')]


def nontrivial(raw):
    # a worker converted a staged task, a suspended task was re-queued by set_thread_state, and at least two pools ran work
    return ' place.unstage ' in raw and ' place.hint ' in raw and raw.count(' x.pool ') >= 1 and ' x.at ' in raw


def stats(raw):
    d = {k: raw.count(' ' + k + ' ') for k in ('place.create', 'place.unstage', 'place.sched', 'place.pop', 'place.hint',
                                              'place.lw', 'place.start', 'place.run', 'x.at', 'phase.begin')}
    d['pools'] = raw.count(' x.pool ')
    return d


FINDING_RUNS = {
    'static-priority-boost-requeue': [[1, 100, 'mix', 14, '-', '--pika:threads=3', '--pika:scheduler=static-priority', '--pika:ini=pika.thread_queue.high_priority_queues!=1'],
                                      [2, 100, 'mix', 14, '-', '--pika:threads=3', '--pika:scheduler=static-priority', '--pika:ini=pika.thread_queue.high_priority_queues!=1']],
    # SIGSEGV in create_thread: the directed run dies, which is the finding (alternative signature valid for this run only)
    'shared-priority-hint-out-of-range': [([13, 100, 'mixoob', 10, 'p1:shared-priority:2', '--pika:threads=4', '--pika:scheduler=abp-priority-fifo'], "crash rc=-N")],
}

e2check.run(dict(
    finding_runs=FINDING_RUNS,
    prop='C10', model='place', harness='e2/place.cpp', bin='e2_place', props=['C10'],
    runs=runs, extra_runs=extra_runs, nontrivial=nontrivial, stats=stats, par=3, timeout_s=900,
    rule='generated sender pipelines (schedule/then, transfer_just, continues_on chains over up to 3 schedulers, execute, bulk, '
         'std_thread_scheduler hops; random worker hints incl. out-of-range and negative, normal/high/low priority; bodies that yield, '
         'suspend on semaphores released by OS threads or by tasks of other pools, and spin with boosted yields; submitters inside and '
         'outside the runtime, nested submissions) on live runtimes with 1-3 pools created through the resource partitioner callback, all '
         'eight scheduling policies, with PRNG timing perturbation; every body records pool (worker TSS and task scheduler), local and '
         'global worker number, OS thread id and task at entry and after every yield/suspension; plus sequential runs in which the '
         'implementation\'s queue choice is compared with the Lean placement function including the exact round-robin counter; '
         'non-trivial = the run contains staged-task conversions and set_thread_state re-queues; distinct = distinct argv',
    assumptions=['shared_priority_queue_scheduler: queue structure not modelled (the acceptor checks pool-level placement only)',
                 'the round-robin counter is exact only in the sequential runs; concurrent runs accept any queue index for unhinted placements',
                 'static-hint theorem is partial: see notes/C10.md (set_thread_state without a usable worker hint; fewer high priority queues than workers)'],
    trusted_extra=['log parser of lean/Driver/PlaceDrv.lean merges hook events one actor emits back to back inside one call and renumbers re-used addresses'],
))
