#!/usr/bin/env python3
"""C06 - mutexes: Lean models Mtx (pika::mutex / timed_mutex), Rec (recursive_mutex_impl<spinlock>),
Spin (bare spinlock) + theorems Props/C06.lean, tied by E1 (controlled schedules)."""
import os, re, sys
sys.path.insert(0, os.path.join(os.path.dirname(os.path.abspath(__file__)), '..', 'tools'))
import e1check
from vlib import REPO


def prog_mutex(rng, timed):
    """One thread's program: mostly well-formed acquire ... release blocks, with misuse mixed in
    (unlock without holding, lock / try_lock while holding, ending while holding)."""
    ops = []
    for _ in range(1 + rng.below(3)):
        acq = rng.weighted([('lock', 6), ('trylock', 3)] + ([('timed', 5)] if timed else []))
        ops.append(acq)
        for _ in range(rng.weighted([(0, 5), (1, 3), (2, 1)])):
            ops.append('yield')
        m = rng.below(20)
        if m == 0:
            ops.append('lock')          # re-lock while (probably) holding: deadlock error expected
        elif m == 1:
            ops.append('trylock')
        elif m == 2 and timed:
            ops.append('timed')
        if rng.below(12) != 0:
            ops.append('unlock')
        if rng.below(15) == 0:
            ops.append('unlock')        # foreign / double unlock: lock_error expected
    return ops


def prog_rec(rng):
    ops = []
    for _ in range(1 + rng.below(3)):
        d = 0
        for _ in range(1 + rng.below(3)):
            ops.append(rng.weighted([('rlock', 5), ('rtry', 3)]))
            d += 1
            if rng.below(3) == 0:
                ops.append('yield')
        for _ in range(d if rng.below(10) != 0 else d - 1):
            ops.append('runlock')
            if rng.below(4) == 0:
                ops.append('yield')
    return ops


def prog_spin(rng):
    ops = []
    for _ in range(1 + rng.below(3)):
        ops.append(rng.weighted([('slock', 5), ('stry', 4)]))
        for _ in range(rng.weighted([(0, 5), (1, 3), (2, 1)])):
            ops.append('yield')
        if rng.below(5) == 0:
            ops.append('stry')
        if rng.below(12) != 0:
            ops.append('sunlock')
    return ops


def gen(rng, cid):
    kind = rng.weighted([('mutex', 3), ('timed', 4), ('recursive', 2), ('spin', 1)])
    k = rng.weighted([(2, 4), (3, 4), (4, 2), (5, 1)])
    # a third of the pika::mutex / timed_mutex cases use the non-throwing overloads (caller-supplied error_code)
    ec = f" ec={1 if rng.below(3) == 0 else 0}" if kind in ('mutex', 'timed') else ''
    lines = [f'case {cid} kind={kind} seed={rng.below(1 << 30)} strat={rng.weighted([(0, 5), (1, 3), (2, 2)])}{ec}']
    for t in range(k):
        if kind in ('mutex', 'timed'):
            ops = prog_mutex(rng, kind == 'timed')
        elif kind == 'recursive':
            ops = prog_rec(rng)
        else:
            ops = prog_spin(rng)
        lines.append(f'thread {t}: ' + ' ; '.join(ops) + ' ;')
    lines.append('endcase')
    return '\n'.join(lines)


def nontrivial(c, r):
    # some task really contended: enqueued on the cv, spun on a spinlock, failed a try, or misused
    raw = r['raw']
    return (' cv.enq ' in raw or ' ag.yield ' in raw or ' sl.try 2 0 ' in raw or ' sl.try 1 0 ' in raw
            or re.search(r' ret 1 [023] ', raw) is not None)


def stats(c, r):
    raw = r['raw']
    kind = re.search(r'kind=(\w+)', c).group(1)
    return {'kind_' + kind: 1, 'blocked_waits': raw.count(' cv.enq '), 'timeouts': raw.count(' ag.timeout '),
            'notifies': raw.count(' cv.pop '), 'spins': raw.count(' ag.yield '),
            'deadlock_errors': len(re.findall(r' ret 1 2 ', raw)), 'lock_errors': len(re.findall(r' ret 1 3 ', raw)),
            'timed_signalled': len(re.findall(r' cv\.woke \d+ 0 1', raw)),
            'recursive_reentries': raw.count(' rmtx.rec '), 'cs_entered': raw.count(' cs.enter '),
            'deadlock_end': 1 if 'end deadlock' in raw else 0}


def memory_orders():
    """Source scan (supporting evidence for the partial 'visibility' clause): the spinlock must
    acquire with exchange(acquire) and release with store(release)."""
    src = open(os.path.join(REPO, 'libs/pika/concurrency/include/pika/concurrency/spinlock.hpp')).read()
    probs = []
    if not re.search(r'v_\.exchange\(\s*true\s*,\s*std::memory_order_(acquire|acq_rel|seq_cst)\s*\)', src):
        probs.append('spinlock::acquire_lock no longer uses exchange(true, acquire-or-stronger)')
    if not re.search(r'v_\.store\(\s*false\s*,\s*std::memory_order_(release|seq_cst)\s*\)', src):
        probs.append('spinlock::relinquish_lock no longer uses store(false, release-or-stronger)')
    return probs


e1check.run(dict(
    prop='C06', props=['C06', 'C06t'], model='mtx', harness='e1/mutex.cpp', bin='e1_mutex', gen=gen, nontrivial=nontrivial, stats=stats,
    quick=1200, thorough=24000, extra=4000, extra_obligations=memory_orders,
    corr_name='E1 log of harness/e1/mutex.cpp accepted by Lean models Mtx / Rec / Spin (driver model mtx)',
    rule='random programs (2-5 tasks; acquire/yield/release blocks over lock, try_lock, try_lock_for, unlock with re-lock, foreign/double unlock and missing unlock mixed in; throwing and error_code overloads) on one pika::mutex, pika::timed_mutex (pika tasks), recursive_mutex_impl<spinlock> or bare spinlock (OS threads); PRNG schedules (uniform / priority / sticky); non-trivial = some task enqueued on the cv, spun on a spinlock, failed a try or got a misuse error; distinct = distinct (program, schedule seed) text',
    assumptions=['"writes in one critical section are visible in the next" is not covered by the SC model; only a source scan of the spinlock memory orders (exchange acquire / store release) supports it',
                 'recursive_mutex_impl::unlock and spinlock::unlock by a non-owner are outside those classes\' contract (not detected by the code); the acceptors only admit unlock invocations by a holder'],
))
