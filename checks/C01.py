#!/usr/bin/env python3
"""C01 - every submitted task runs exactly once, on one worker at a time.
Lean model Sched + Props/C01.lean; tie: E2 logs of generated task programs on the live runtime."""
import os, sys
sys.path.insert(0, os.path.join(os.path.dirname(os.path.abspath(__file__)), '..', 'tools'))
import e2check

POLICIES = ['local', 'local-priority-fifo', 'local-priority-lifo', 'static', 'static-priority',
            'abp-priority-fifo', 'abp-priority-lifo', 'shared-priority']


def runs(rng, tier):
    out = []
    if tier == 'thorough':
        for pol in POLICIES:
            for th in (1, 2, 3, 4, 8, 16):
                for k in range(4):
                    out.append([rng.below(1 << 30), rng.choice([0, 50, 200, 400]), rng.choice(['fanout', 'mixed', 'pingpong']),
                                rng.choice([6, 12, 24]), f'--pika:threads={th}', f'--pika:scheduler={pol}'])
    else:
        pols = POLICIES[:]
        for i, pol in enumerate(pols):
            for th in ((1, 4) if i % 2 == 0 else (2, 16)):
                out.append([rng.below(1 << 30), rng.choice([0, 100, 300]), rng.choice(['fanout', 'mixed']),
                            rng.choice([6, 12]), f'--pika:threads={th}', f'--pika:scheduler={pol}'])
    return out


def extra_runs(rng, tier):
    return [[rng.below(1 << 30), 400, 'fanout', 24, f'--pika:threads={th}', f'--pika:scheduler={pol}']
            for pol in POLICIES for th in (4, 8)]


def nontrivial(raw):
    return ' sw.restore2 ' in raw and ' task.rebind ' in raw  # suspension/wake-up and object recycling both occurred


def stats(raw):
    return {k: raw.count(' ' + k + ' ') for k in ('sw.tagged', 'sw.restore2', 'sw.set', 'task.rebind', 'sts.helper', 'sas.abort', 'sas.retry', 'body.enter')}


e2check.run(dict(
    prop='C01', model='schedco', harness='e2/sched.cpp', bin='e2_sched', props=['C01'], translators=['stateword.py'],
    runs=runs, extra_runs=extra_runs, nontrivial=nontrivial, stats=stats, par=3, timeout_s=900,
    rule='generated task programs (fan-out trees with yields, semaphore hand-shakes, boosted spin-waits, pika::thread and sender tasks, mixed priorities/stack sizes, 1-3 external submitter threads) on the live runtime for every scheduling policy and several worker counts, with PRNG timing perturbation at the instrumented sites; non-trivial = the run contains at least one suspension wake-up and one recycled thread object; distinct = distinct argv',
    assumptions=['body-entered-exactly-once is observed by per-task counters (monitor), the theorems cover the state-word/queue protocol',
                 'queue back-ends are treated as bags of entries (C17 covers them)'],
))
