#!/usr/bin/env python3
"""C01 - every submitted task runs exactly once, on one worker at a time.
Lean model Sched + Props/C01.lean; tie: E2 logs of generated task programs on the live runtime."""
import os, sys
sys.path.insert(0, os.path.join(os.path.dirname(os.path.abspath(__file__)), '..', 'tools'))
import e2check

POLICIES = ['local', 'local-priority-fifo', 'local-priority-lifo', 'static', 'static-priority',
            'abp-priority-fifo', 'abp-priority-lifo', 'shared-priority']


# fixed runs, always first (corpus style): "meet" keeps more tasks alive and blocked in one queue than
# thread_queue's soft limit (max_thread_count = 1000) while further tasks are still staged there, so
# the staged tasks can only be started through the over-the-limit branch of add_new_always
FIXED = [[9001, 0, 'meet', 1200, '--pika:threads=1', '--pika:scheduler=local-priority-fifo'],
         [9002, 50, 'meet', 1100, '--pika:threads=2', '--pika:scheduler=static-priority'],
         # 'burst': one parent spawns hundreds of children in a tight loop, so one queue holds far more staged tasks than a
         # worker converts or steals in one batch (the schedulers work in batches of 64 / 32); every policy family once
         [9003, 0, 'burst', 6, '--pika:threads=1', '--pika:scheduler=shared-priority'],
         [9004, 0, 'burst', 10, '--pika:threads=4', '--pika:scheduler=shared-priority'],
         [9005, 0, 'burst', 6, '--pika:threads=2', '--pika:scheduler=local-priority-fifo'],
         [9006, 0, 'burst', 6, '--pika:threads=3', '--pika:scheduler=static'],
         [9007, 0, 'burst', 6, '--pika:threads=2', '--pika:scheduler=abp-priority-lifo'],
         # 'stale': interrupt() on finished threads, then batches of yielding threads on the recycled objects
         [9008, 0, 'stale', 2, '--pika:threads=2', '--pika:scheduler=local-priority-fifo'],
         [9009, 0, 'stale', 4, '--pika:threads=1', '--pika:scheduler=static-priority'],
         [9010, 100, 'stale', 2, '--pika:threads=4', '--pika:scheduler=abp-priority-fifo']]


def zoo_runs(rng, tier):
    out = []
    if tier == 'thorough':
        for pol in POLICIES:
            for th in (1, 2, 4, 8, 16):
                for steal in (True, False):
                    out.append([rng.below(1 << 30), rng.choice([0, 100, 300]), 'zoo', rng.choice([8, 16, 32]),
                                f'--pika:threads={th}', f'--pika:scheduler={pol}'] + ([] if steal else ['--verif:nosteal']))
        out += [[rng.below(1 << 30), 100, 'meet', rng.choice([1100, 1300, 1500]), f'--pika:threads={th}', f'--pika:scheduler={pol}']
                for pol in ('local', 'abp-priority-fifo', 'shared-priority') for th in (1, 2)]
    else:
        for i, pol in enumerate(POLICIES):
            th = (1, 4, 2, 8, 3, 16, 2, 4)[i]
            out.append([rng.below(1 << 30), rng.choice([0, 100, 300]), 'zoo', rng.choice([8, 12]),
                        f'--pika:threads={th}', f'--pika:scheduler={pol}'] + (['--verif:nosteal'] if i % 3 == 2 else []))
    return out


def runs(rng, tier):
    return FIXED + base_runs(rng, tier) + zoo_runs(rng, tier)


def base_runs(rng, tier):
    out = []
    if tier == 'thorough':
        for pol in POLICIES:
            for th in (1, 2, 3, 4, 8, 16):
                for k in range(4):
                    out.append([rng.below(1 << 30), rng.choice([0, 50, 200, 400]), rng.choice(['fanout', 'mixed', 'pingpong', 'burst']),
                                rng.choice([6, 12, 24]), f'--pika:threads={th}', f'--pika:scheduler={pol}'])
    else:
        pols = POLICIES[:]
        for i, pol in enumerate(pols):
            for th in ((1, 4) if i % 2 == 0 else (2, 16)):
                out.append([rng.below(1 << 30), rng.choice([0, 100, 300]), rng.choice(['fanout', 'mixed']),
                            rng.choice([6, 12]), f'--pika:threads={th}', f'--pika:scheduler={pol}'])
    return out


def extra_runs(rng, tier):
    return [[rng.below(1 << 30), 400, 'fanout', 24, f'--pika:threads={th}', f'--pika:scheduler={pol}']
            for pol in POLICIES for th in (4, 8)]


def nontrivial(raw):
    return ' sw.restore2 ' in raw and ' task.rebind ' in raw  # suspension/wake-up and object recycling both occurred


def stats(raw):
    return {k: raw.count(' ' + k + ' ') for k in ('sw.tagged', 'sw.restore2', 'sw.set', 'task.rebind', 'sts.helper', 'sas.abort', 'sas.retry', 'body.enter', 'co.enter', 'co.yield', 'co.resume', 'co.return')}


def backend_subcheck(ctx):
    """The scheduler model treats the pending / staged queue back-ends as containers that return every entry once and, for a
    yielded task (`other_end`), put it at the END the policy pops last.  That assumption is checked on the real
    lockfree_lifo / lockfree_fifo / abp back-ends with the E1 cases of the C17 tie (model `deque`, back-end kinds)."""
    from vlib import compile_harness, run_e1, classify, write_replay, HERE
    ok, hbin, hlog = compile_harness('e1_deque', 'e1/deque.cpp', 'hooks', '-O1', libs='-latomic')
    if not ok:
        p = write_replay('C01', f"backend-build-failure-{ctx['seed']}.txt", hlog)
        return {'violations': [f'VIOLATION property=C01 replay={p} no-failing-input-found'], 'explanation': 'queue back-end harness failed to build'}
    rng = ctx['rng']
    cases = []
    for i in range(2000 if ctx['tier'] == 'thorough' else 300):
        kind = rng.choice(['lifo', 'abp_fifo', 'abp_lifo', 'fifo', 'lifo'])
        k = rng.weighted([(1, 4), (2, 4), (3, 2)])
        lines = [f"case be{ctx['seed']}n{i} kind={kind} pool={rng.choice([1, 2, 4])} seed={rng.below(1 << 30)} strat={rng.weighted([(0, 5), (1, 3), (2, 3)])}"]
        val = 1
        for t in range(k):
            ops = []
            for _ in range(1 + rng.below(6)):
                if rng.below(100) < 55:
                    ops.append(f'bpush {val} {rng.below(2)}')
                    val += 1
                else:
                    ops.append(f'bpop {rng.below(2)}')
            lines.append(f'thread {t}: ' + ' ; '.join(ops) + ' ;')
        lines.append('endcase')
        cases.append('\n'.join(lines))
    res = run_e1(hbin, 'deque', cases, tag='C01be')
    bad = [(classify(r), c, r) for c, r in zip(cases, res) if classify(r) != 'pass']
    out = {'explanation': f'queue back-end assumption: {len(cases)} E1 cases on the real back-ends, {len(bad)} not accepted', 'violations': []}
    if bad:
        k, c, r = ([b for b in bad if b[0] == 'monitor'] or bad)[0]
        what = r['verdict'].split('monitors FAIL:')[-1].strip() if 'monitors FAIL' in r['verdict'] else r['verdict']
        p = write_replay('C01', f"backend-{k}-{ctx['seed']}.json", {'property': 'C01', 'kind': k, 'part': 'queue back-end assumption of the scheduler model',
                         'what': what, 'case': c, 'impl_history': r['raw'], 'model_verdict': r['verdict'], 'not_accepted': len(bad),
                         'rerun_cmd': f'cd {HERE} && ./check C17 --replay <this file>'})
        out['violations'].append(f'VIOLATION property=C01 replay={p}' + ('' if k == 'monitor' else ' no-failing-input-found'))
    return out


e2check.run(dict(
    extra_check=backend_subcheck,
    prop='C01', model='schedco', harness='e2/sched.cpp', bin='e2_sched', props=['C01'], translators=['stateword.py'],
    runs=runs, extra_runs=extra_runs, nontrivial=nontrivial, stats=stats, par=3, timeout_s=900,
    rule='generated task programs (fan-out trees with yields, semaphore hand-shakes, boosted spin-waits, pika::thread and sender tasks, mixed priorities/stack sizes, 1-3 external submitter threads; "zoo": executed callables, scheduled senders with and without worker hints, register_work with run_now and staged, detached and joined pika::thread, mutex+condition_variable / latch / semaphore suspensions, recycling waves over all five stack classes, all five priorities, stealing switched off through the scheduler mode; "meet": more simultaneously blocked tasks per queue than max_thread_count while others are still staged) on the live runtime for every scheduling policy and several worker counts, with PRNG timing perturbation at the instrumented sites; non-trivial = the run contains at least one suspension wake-up and one recycled thread object; distinct = distinct argv',
    assumptions=['the thread function is entered at most once per incarnation, resumed otherwise, and its return is what yields `terminated`: theorems over the coroutine layer Model/SchedCo (hooks co.enter/co.yield/co.resume/co.return); the harness-level body counters remain as independent monitors',
                 'queue back-ends are treated as bags of entries (C17 covers them); staged task descriptions are not modelled (a task enters the model when its thread object is created)',
                 'progress is proved in enabledness form (stuck state => terminated or legitimately suspended; a token can always be turned into a run by a free worker); fairness of the OS scheduler and of the queue back-ends is assumed'],
))
