#!/usr/bin/env python3
"""C19 - suspending and resuming pools or workers never loses work.
Lean model Elastic + Props/C19.lean; tie: E2 logs of suspend/resume histories on the live runtime
(second pool created through the resource partitioner), constants/shape facts regenerated from the source."""
import os, sys
sys.path.insert(0, os.path.join(os.path.dirname(os.path.abspath(__file__)), '..', 'tools'))
import e2check
from vlib import known_findings

POLICIES = ['local-priority-fifo', 'local-priority-lifo', 'static-priority', 'abp-priority-fifo', 'abp-priority-lifo']

# cases that failed on some tree in the past run first (argv without the binary)
CORPUS = [
    [1, 100, 'refuse', 6, 3, 'static-priority', 0],      # refused PU suspension went on and suspended the PU (fixed)
    [2, 100, 'refuse', 6, 3, 'local-priority-fifo', 0],
    [1, 200, 'pu', 8, 3, 'local-priority-fifo', 1],
    [3, 0, 'race', 6, 3, 'local-priority-fifo', 1],      # resume in the lost-notify window (seeded change: resume notifies only once)
    [4, 0, 'strand', 6, 3, 'static-priority', 1],        # enqueue held between select_active_pu and the push while the PU is suspended
    [5, 0, 'strand', 4, 4, 'static-priority', 1],        #   (seeded change: select_active_pu accepts a worker in pre_sleep)
    [6, 100, 'strand', 4, 3, 'local-priority-fifo', 1],
    [7, 0, 'yieldpoll', 6, 3, 'static-priority', 1],     # a yield()-polling task lives on the PU being suspended (must be moved away)
    [8, 0, 'yieldpoll', 3, 4, 'local-priority-fifo', 1],
    [9, 0, 'pupool', 8, 4, 'local-priority-fifo', 1],       # neighbouring PUs asleep when the whole pool is suspended
    [10, 100, 'pupool', 8, 3, 'static-priority', 1],
    [11, 0, 'pupool', 12, 6, 'abp-priority-fifo', 1],
    [12, 0, 'blocked', 6, 3, 'local-priority-fifo', 1],     # tasks blocked on a latch belong to the pool whose PU is suspended
    [13, 100, 'blocked', 6, 4, 'static-priority', 1],
    [14, 0, 'blocked', 9, 2, 'abp-priority-lifo', 1],
]
# only when the finding is registered in known_findings.txt (reported as KNOWN-FINDING, exit 0)
FINDING_RUNS = [[1, 0, 'lowprio', 1, 3, 'local-priority-fifo', 1]]


def runs(rng, tier):
    out = [list(c) for c in CORPUS]
    if any(f['id'] == 'lowprio-last-worker' for f in known_findings('C19')):
        out += [list(c) for c in FINDING_RUNS]
    reps = 6 if tier == 'thorough' else 1
    for rep in range(reps):
        for i, pol in enumerate(POLICIES):
            ns = (2, 3, 4, 6) if tier == 'thorough' else ((2, 4) if (i + rep) % 2 == 0 else (3,))
            for n in ns:
                pert = rng.choice([0, 100, 300, 600])
                out.append([rng.below(1 << 30), pert, 'pu', rng.choice([4, 8, 16]), max(n, 2), pol, 1])
                out.append([rng.below(1 << 30), pert, 'pool', rng.choice([4, 8, 16]), n, pol, rng.below(2)])
                if tier == 'thorough' or n != 4:
                    out.append([rng.below(1 << 30), pert, 'refuse', rng.choice([4, 8]), n, pol, rng.below(2)])
            # directed: resume issued inside the store(sleeping)/wait window of the worker being suspended
            out.append([rng.below(1 << 30), rng.choice([0, 100]), 'race', rng.choice([4, 8]), rng.choice([2, 3, 4]), pol, 1])
    return out


def extra_runs(rng, tier):
    return [[rng.below(1 << 30), 400, prog, 16, n, pol, el] for pol in POLICIES for n in (2, 4)
            for prog, el in (('blocked', 1), ('pupool', 1), ('yieldpoll', 1), ('strand', 1), ('race', 1), ('pu', 1), ('pool', 0), ('refuse', 0), ('refuse', 1))]


def nontrivial(raw):
    # a worker really went to sleep and was woken again, or an unsupported request was refused
    return (' el.sleep ' in raw and ' el.wake ' in raw) or ' el.refuse ' in raw


def stats(raw):
    return {k: raw.count(' ' + k + ' ') for k in ('x.call', 'el.cas', 'el.ucas', 'el.sleep', 'el.wake', 'el.notify', 'el.rload',
                                                   'el.sel', 'el.refuse', 'el.qlen', 'el.inc', 'sw.tagged')}


e2check.run(dict(
    prop='C19', model='elastic', harness='e2/elastic.cpp', bin='e2_elastic', props=['C19', 'C19t'], translators=['elastic.py', 'stateword.py'],
    runs=runs, extra_runs=extra_runs, nontrivial=nontrivial, stats=stats, par=3, timeout_s=240,
    rule='histories of suspend/resume of processing units (elastic pool, one PU never suspended; issued from OS threads, tasks of the '
         'default pool and tasks of the pool itself) and of whole pools (suspend_direct racing with submitters, resume_direct or PU-wise '
         'resume), plus unsupported requests (PU suspension without elasticity, pool suspending itself, PU suspension from the pool '
         'itself without stealing; throwing and non-throwing error_code), concurrently with task submission with/without worker hints '
         'and mixed priorities, on a second pool created through the resource partitioner for the five local_priority_queue_scheduler '
         'policies and 2-6 workers, PRNG timing perturbation at the instrumented sites (incl. the store(sleeping)/wait window) and directed schedules (prog race: the worker is held inside that window while another OS thread resumes it; prog strand: submitters hinted to a worker are held between select_active_pu and the enqueue while that worker is suspended, non-stealing policy included; prog yieldpoll: a task polling a flag with yield() lives on the PU being suspended, the flag is raised only after the call returned, count-based verdict; prog blocked: tasks suspended on a latch that is released only after suspend_processing_unit returned); all work '
         'must complete before anything is resumed; non-trivial = a worker really slept and was woken, or a request was refused; '
         'distinct = distinct argv',
    assumptions=['low priority tasks are not generated by default: the shared low priority queue is served only by the last worker '
                 '(finding lowprio-last-worker, see notes/C19.md); run prog lowprio / pu+low to reproduce',
                 'schedulers other than the local_priority_queue_scheduler family (local, static, shared-priority) carry no el.* queue hooks and are not exercised',
                 'liveness clauses are solo-completion theorems; the harness adds state-based hang/livelock detection on the real runs',
                 'queue back-ends are treated as counters (C17 covers them); exactly-once of task bodies is observed by the ledger and tied through the C01 acceptor on the same logs'],
    trusted_extra=['tools/translate/elastic.py: runtime_state values and the shape of suspend/resume/select_active_pu/suspend_processing_unit_*/scheduling-loop exit path are re-read from the source on every run (fails closed)'],
))
