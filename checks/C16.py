#!/usr/bin/env python3
"""C16 - configuration precedence.

(S) Lean theorems Props/C16.lean about the model Model/Config.lean, which is built on the table
    Gen/Settings.lean regenerated from the pika sources on every run (tools/translate/settings.py).
(T) E0 tie: a probe linked against the hooks build of libpika is started as a real process with a
    generated argv / environment and reports from inside the running runtime; the Lean driver
    computes the expected report from the model; both are compared.
(F) monitors in the driver test the precedence clauses directly on the observables.
"""
import os, sys, time, json, re, glob, subprocess, shutil
sys.path.insert(0, os.path.join(os.path.dirname(os.path.abspath(__file__)), '..', 'tools'))
from vlib import *
from concurrent.futures import ThreadPoolExecutor

PROP = 'C16'
TOPOS = [('pack:1 core:4 pu:2', 8, 4, 5), ('pack:2 core:2 pu:2', 8, 4, 2), ('pack:1 core:2 pu:1', 2, 2, 2),
         ('pack:1 core:1 pu:1', 1, 1, 1), ('pack:1 core:6 pu:1', 6, 6, 2), ('pack:1 core:3 pu:4', 12, 3, 1)]

VALUES = {
    'threads': [('1', 4), ('2', 5), ('3', 4), ('4', 4), ('all', 4), ('cores', 4), ('0', 2), ('abc', 1), ('8', 1), ('9', 1),
                ('6', 1), ('2x', 1), ('12', 1), ('13', 1)],
    'cores': [('1', 3), ('2', 3), ('all', 2), ('4', 2), ('abc', 1), ('3', 1)],
    'scheduler': [('local', 3), ('local-priority-fifo', 3), ('local-priority-lifo', 3), ('static', 3), ('static-priority', 3),
                  ('abp-priority-fifo', 2), ('abp-priority-lifo', 2), ('shared-priority', 3), ('local-p', 1), ('st', 1),
                  ('foo', 1), ('abp', 1), ('local-priority', 1), ('s', 1)],
    'bind': [('balanced', 3), ('compact', 3), ('scatter', 3), ('none', 3), ('numa-balanced', 1)],
    'affinity': [('pu', 6), ('core', 1), ('socket', 1), ('machine', 1), ('p', 1), ('numa', 1)],
    'pu_step': [('1', 6), ('2', 1), ('0', 1), ('abc', 1), ('8', 1), ('01', 1)],
    'pu_offset': [('0', 6), ('1', 1), ('7', 1), ('8', 1), ('abc', 1), ('00', 1)],
    'numa_sensitive': [('0', 3), ('1', 3), ('2', 3), ('3', 1), ('x', 1)],
    'small_size': [('0x8000', 3), ('0x10000', 2), ('0x20000', 3), ('65536', 1), ('0xA000', 2), ('40000', 1), ('abc', 1), ('0xC000', 1), ('49152', 1)],
    'plain': [('5', 3), ('123', 3), ('zzz', 1), ('0', 1)],
}
# (name in VALUES, ini key, env var, cli option or None)
SETTINGS = [
    ('threads', 'pika.os_threads', 'PIKA_THREADS', 'pika:threads', 8),
    ('cores', 'pika.cores', 'PIKA_CORES', 'pika:cores', 3),
    ('scheduler', 'pika.scheduler', 'PIKA_SCHEDULER', 'pika:scheduler', 6),
    ('bind', 'pika.bind', 'PIKA_BIND', 'pika:bind', 4),
    ('affinity', 'pika.affinity', 'PIKA_AFFINITY', 'pika:affinity', 1),
    ('pu_step', 'pika.pu_step', 'PIKA_PU_STEP', 'pika:pu-step', 2),
    ('pu_offset', 'pika.pu_offset', 'PIKA_PU_OFFSET', 'pika:pu-offset', 2),
    ('numa_sensitive', 'pika.numa_sensitive', 'PIKA_NUMA_SENSITIVE', 'pika:numa-sensitive', 2),
    ('small_size', 'pika.stacks.small_size', 'PIKA_SMALL_STACK_SIZE', None, 5),
    ('plain', 'pika.max_idle_loop_count', 'PIKA_MAX_IDLE_LOOP_COUNT', None, 1),
    ('plain', 'pika.thread_queue.max_thread_count', 'PIKA_THREAD_QUEUE_MAX_THREAD_COUNT', None, 1),
    ('plain', 'pika.shutdown_check_count', 'PIKA_SHUTDOWN_CHECK_COUNT', None, 1),
    ('plain', 'pika.stacks.medium_size', 'PIKA_MEDIUM_STACK_SIZE', None, 1),
]


def hx(s):
    return s.encode().hex() if s else '-'


def unhx(h):
    return '' if h == '-' else bytes.fromhex(h).decode()


QUOTED_POSITIONALS = ['a"b', "it's", 'key=value', 'a=b=c', 'e\\f', 'two words', '"quoted"', 'tail\\', 'x\\"y', '=', 'a\\\\b']
ENTRY_KINDS = [('argv', 6), ('vm', 2), ('null', 2)]


def gen_alone(rng, cid):
    """C16f: --pika:pu-step=N / --pika:pu-offset=N and nothing else (valid and boundary values)"""
    topo, pus, cores, _ = rng.weighted([(t, t[3]) for t in TOPOS])
    opt = rng.choice(['pika:pu-step', 'pika:pu-offset'])
    v = rng.choice(['0', '1', '2', str(pus - 1), str(pus), '3'])
    argv = [f'--{opt}={v}'] + (['in.dat'] if rng.below(3) == 0 else [])
    lines = [f'case {cid} pus={pus} cores={cores} maskpus={pus} maskcores={cores} topo={topo.replace(" ", "_")} entry={rng.weighted(ENTRY_KINDS)}']
    lines += [f'arg {hx(a)}' for a in argv]
    lines.append('endcase')
    return '\n'.join(lines)


def gen(rng, cid):
    if rng.below(40) == 0:
        return gen_alone(rng, cid)
    topo, pus, cores, _ = rng.weighted([(t, t[3]) for t in TOPOS])
    env, prepend, groups = [], [], []       # groups: list of token lists kept together on the command line
    nset = rng.weighted([(1, 5), (2, 5), (3, 3), (0, 1)])
    chosen = []
    for _ in range(nset):
        s = rng.weighted([(s, s[4]) for s in SETTINGS])
        if s[1] not in [c[1] for c in chosen]:
            chosen.append(s)
    for vname, key, envv, opt, _ in chosen:
        vals = VALUES[vname]
        pick = lambda: rng.weighted(vals)
        srcs = set()
        for src, w in (('env', 45), ('ini', 40), ('cli', 50 if opt else 0), ('pre', 12), ('preini', 8)):
            if rng.below(100) < w:
                srcs.add(src)
        if not srcs:
            srcs.add('cli' if opt else 'env')
        if 'env' in srcs:
            env.append((envv, '' if rng.below(25) == 0 else pick()))
        if 'ini' in srcs:
            for _ in range(2 if rng.below(8) == 0 else 1):
                groups.append([f'--pika:ini={key}={pick()}'])
        if 'cli' in srcs:
            for _ in range(2 if rng.below(12) == 0 else 1):
                form = rng.weighted([('eq', 10), ('abbrev', 2), ('sep', 2)])
                v = pick()
                if form == 'eq':
                    groups.append([f'--{opt}={v}'])
                elif form == 'abbrev':
                    groups.append([f'--{opt[:len(opt) - 1 - rng.below(3)]}={v}'])
                else:
                    groups.append([f'--{opt}', v])
        if 'pre' in srcs and opt:
            prepend.append(f'--{opt}={pick()}')
        if 'preini' in srcs:
            prepend.append(f'--pika:ini={key}={pick()}')
    # occasional extras
    if rng.below(10) == 0:
        groups.append(['--pika:ignore-process-mask'])
    if rng.below(14) == 0:
        env.append(('PIKA_IGNORE_PROCESS_MASK', rng.choice(['0', '1', 'x'])))
    if rng.below(14) == 0:
        groups.append([f'--pika:ini=pika.force_min_os_threads!={rng.choice(["0", "2", "5", "1"])}'])
    if rng.below(40) == 0:
        groups.append([f'--pika:high-priority-threads={rng.choice(["1", "2", "9"])}'])
    if rng.below(25) == 0:
        groups.append([rng.choice(['--pika:ini=pika.nokey=1', '--pika:ini=pika.nokey!=1', '--pika:ini=junk', '--pika:ignore',
                                   '--pika:ignore=1', '--pika:i=1', '--pika:pu-step=', '--pika:threads'])])
    for _ in range(rng.weighted([(0, 5), (1, 3), (2, 2), (3, 1)])):
        groups.append([rng.choice(['in.dat', 'x', 'out-1', '42', 'a.b', '-'])])
    # C16f: positional arguments that need quoting / escaping on their way to the entry function
    if rng.below(12) == 0:
        groups.append([rng.choice(QUOTED_POSITIONALS)])
    if rng.below(5) == 0:
        groups.append([rng.choice(['--foo', '--foo=1', '-x', '--pika:bogus', '--pika:bogus=3', '-abc', '--verbose'])])
        if rng.below(2) == 0:
            env.append(('PIKA_COMMANDLINE_ALLOW_UNKNOWN', rng.choice(['1', '1', '0'])))
    if prepend and rng.below(4) == 0:
        prepend.append(rng.choice(['pre.dat', '--pre-unknown']))
    # order of options on the command line
    order = list(range(len(groups)))
    for i in range(len(order) - 1, 0, -1):
        j = rng.below(i + 1)
        order[i], order[j] = order[j], order[i]
    argv = [t for i in order for t in groups[i]]
    if prepend:
        env.append(('PIKA_COMMANDLINE_OPTIONS', ' '.join(prepend)))
    lines = [f'case {cid} pus={pus} cores={cores} maskpus={pus} maskcores={cores} topo={topo.replace(" ", "_")} entry={rng.weighted(ENTRY_KINDS)}']
    lines += [f'env {hx(n)} {hx(v)}' for n, v in env]
    lines += [f'arg {hx(a)}' for a in argv]
    lines.append('endcase')
    return '\n'.join(lines)


def readable(case):
    out = []
    for l in case.split('\n'):
        w = l.split()
        if w and w[0] == 'env':
            out.append(f'{unhx(w[1])}={unhx(w[2])}')
        elif w and w[0] == 'arg':
            out.append(unhx(w[1]))
        elif w and w[0] == 'case':
            out.append('[' + ' '.join(w[2:]) + ']')
    return ' '.join(out)


def run_probe(probe, case, keys, timeout=300):
    """start the probe as a real process for one case; returns the 'R ' lines it printed"""
    header = case.split('\n')[0].split()
    kv = dict(x.split('=', 1) for x in header[2:])
    env = {'PATH': '/usr/bin:/bin', 'HWLOC_SYNTHETIC': kv['topo'].replace('_', ' '), 'VERIF_CFG_KEYS': keys,
           'LD_LIBRARY_PATH': os.environ.get('LD_LIBRARY_PATH', '')}
    if kv.get('entry', 'argv') != 'argv':
        env['VERIF_ENTRY'] = kv['entry']
    argv = [probe]
    for l in case.split('\n')[1:]:
        w = l.split()
        if w and w[0] == 'env':
            env[unhx(w[1])] = unhx(w[2])
        elif w and w[0] == 'arg':
            argv.append(unhx(w[1]))
    try:
        r = subprocess.run(argv, env=env, capture_output=True, timeout=timeout, cwd=os.path.join(BUILD, 'work'))
        out = r.stdout.decode(errors='replace')
        note = '' if r.returncode == 0 else f'R exit {r.returncode}'
    except subprocess.TimeoutExpired:
        return None
    rl = [l for l in out.split('\n') if l.startswith('R ')]
    if note:
        rl.append(note)
    return '\n'.join(rl)


def sanitized(case):
    """the same case with every positional argument that needs quoting replaced by a plain word"""
    out = []
    for l in case.split('\n'):
        w = l.split()
        if w and w[0] == 'arg':
            a = unhx(w[1])
            if not a.startswith('-') and any(ch in a for ch in '"\'\\= \t'):
                l = 'arg ' + hx('qq')
        out.append(l)
    return '\n'.join(out)


def run_cases(probe, cases, keys, jobs=8):
    os.makedirs(os.path.join(BUILD, 'work'), exist_ok=True)
    driver = os.path.join(LEAN, '.lake', 'build', 'bin', 'driver')
    # plan: inputs the model does not cover are not started at all (some of them hang the pinned tree)
    plan = subprocess.run([driver, 'cfg'], input='\n'.join(cases) + '\n', capture_output=True, text=True).stdout
    skipped = set(l.split()[1] for l in plan.split('\n') if l.startswith('case ') and ' skip ' in l)
    # C16f: positional arguments that need quoting are outside the model but are started all the same (the
    # monitors judge them) - unless the same input with plain positionals is outside the model too (the
    # model stops at the first reason; some of the later ones crash or hang the pinned tree)
    maybe = [c for c in cases if c.split('\n')[0].split()[1] in skipped
             and any(f' skip [{w}' in l for l in plan.split('\n') if l.startswith('case ' + c.split('\n')[0].split()[1] + ' ')
                     for w in RUNNABLE_UNMODELLED)]
    if maybe:
        plan2 = subprocess.run([driver, 'cfg'], input='\n'.join(sanitized(c) for c in maybe) + '\n', capture_output=True, text=True).stdout
        still = set(l.split()[1] for l in plan2.split('\n') if l.startswith('case ') and ' skip ' in l)
        skipped -= set(c.split('\n')[0].split()[1] for c in maybe) - still
    with ThreadPoolExecutor(max_workers=jobs) as ex:
        outs = list(ex.map(lambda c: 'R notrun' if c.split('\n')[0].split()[1] in skipped else run_probe(probe, c, keys), cases))
    # a time-out is never a verdict: rerun alone with a long limit
    for i, o in enumerate(outs):
        if o is None:
            outs[i] = run_probe(probe, cases[i], keys, timeout=900) or 'R timeout'
    text = '\n'.join(c.replace('\nendcase', '\n' + o + '\nendcase') for c, o in zip(cases, outs)) + '\n'
    d = subprocess.run([driver, 'cfg'], input=text, capture_output=True, text=True)
    verdicts = {}
    for line in d.stdout.split('\n'):
        if line.startswith('case '):
            verdicts[line.split()[1]] = line
    res = []
    for c, o in zip(cases, outs):
        cid = c.split('\n')[0].split()[1]
        res.append({'id': cid, 'verdict': verdicts.get(cid, f'case {cid} reject 0 [no-driver-output {d.stderr[-200:]}]'), 'raw': o})
    return res


def masks_of(raw):
    return [l.split()[3] for l in raw.split('\n') if l.startswith('R mask ')]


def binding_check(probe, cases, results, keys):
    """Metamorphic tie for the binding: however the resolved (bind, threads, cores, ignore-process-mask)
    was obtained, the per-worker PU masks of the running runtime must be those of a start-up in which
    exactly these values are given directly on the command line (the mapping itself is C15)."""
    groups = {}
    for c, r in zip(cases, results):
        m = re.search(r' accept ok .* bindkey=(\S+)', r['verdict'])
        if m:
            topo = dict(x.split('=', 1) for x in c.split('\n')[0].split()[2:])
            groups.setdefault((topo['topo'], topo['pus'], topo['cores'], m.group(1)), []).append((c, r))
    canon_cases, order = [], []
    for (topo, pus, cores, bk), members in groups.items():
        bind, threads, ncores, ipm = bk.split('/')
        argv = [f'--pika:bind={bind}', f'--pika:threads={threads}', f'--pika:cores={ncores}'] + (['--pika:ignore-process-mask'] if ipm == '1' else [])
        lines = [f'case canon{len(order)} pus={pus} cores={cores} maskpus={pus} maskcores={cores} topo={topo}'] + [f'arg {hx(a)}' for a in argv] + ['endcase']
        canon_cases.append('\n'.join(lines))
        order.append((topo, pus, cores, bk))
    with ThreadPoolExecutor(max_workers=8) as ex:
        outs = list(ex.map(lambda c: run_probe(probe, c, keys) or '', canon_cases))
    bad, checked = [], 0
    for key, cc, out in zip(order, canon_cases, outs):
        ref = masks_of(out)
        for c, r in groups[key]:
            checked += 1
            if masks_of(r['raw']) != ref:
                bad.append((c, r, f'worker masks {masks_of(r["raw"])} differ from those of the direct start-up {readable(cc)}: {ref}'))
    return bad, checked, len(order)


def kind(v):
    line = v['verdict']
    if 'monitors FAIL' in line:
        return 'monitor'
    if ' accept ' in line:
        return 'pass'
    if ' skip ' in line:
        return 'skip'
    return 'tie'


def main():
    t0 = time.time()
    tr = tier()
    base_seed, seed = seed_for(PROP)
    rng = Rng(seed)
    replay = None
    for i, a in enumerate(sys.argv):
        if a == '--replay' and i + 1 < len(sys.argv):
            replay = sys.argv[i + 1]
    violations, known_lines = [], []

    # 0. T-gen: regenerate the settings table from the pika working tree
    g = sh([sys.executable, os.path.join(HERE, 'tools', 'translate', 'settings.py')])
    gen_ok = g.returncode == 0
    gen_log = (g.stdout + g.stderr)[-2000:]

    # 1. proof obligations
    ok_build, build_log = lean_build('C16')
    audit = {'obligations': 0, 'discharged': 0, 'problems': ['lake build failed'], 'theorems': [],
             'checker_cmd': f'cd {LEAN} && lake build'}
    if ok_build:
        audit = lean_audit(PROP, [])
        if tr == 'thorough':
            for m, okc, out in leanchecker([f'PikaVerif.Props.{PROP}']):
                if not okc:
                    audit['problems'].append(f'leanchecker {m}: {out}')
    if not gen_ok:
        audit['problems'].append('translator failed (source no longer has the expected shape): ' + gen_log[-300:])
    proof_ok = gen_ok and ok_build and not audit['problems'] and audit['obligations'] == audit['discharged'] and audit['obligations'] > 0

    # 2. implementation side
    ok_p, plog = pika_build('hooks')
    ok_h, probe, hlog = (False, '', '')
    if ok_p:
        ok_h, probe, hlog = compile_harness('cfg_probe', 'e0/cfg_probe.cpp', 'hooks')
    driver = os.path.join(LEAN, '.lake', 'build', 'bin', 'driver')
    if not (ok_p and ok_h and os.path.exists(driver)):
        p = write_replay(PROP, f'build-failure-{base_seed}.txt', (plog if not ok_p else hlog) + build_log[-2000:])
        write_evidence(PROP, tr, base_seed, {'obligations': audit['obligations'], 'discharged': audit['discharged'],
                       'checker_cmd': audit['checker_cmd'], 'trusted_base': TRUSTED,
                       'explanation': 'implementation side or driver failed to build; correspondence could not run'},
                       time.time() - t0, 1)
        finish(PROP, [f'VIOLATION property={PROP} replay={p} no-failing-input-found'], [])
    keys = sh([driver, 'cfg-keys']).stdout.strip()

    # 3. correspondence + monitors
    corpus = sorted(glob.glob(os.path.join(HERE, 'corpus', PROP, '*.case')))
    if replay:
        txt = open(replay).read()
        try:
            txt = json.load(open(replay))['case']
        except Exception:
            pass
        m = re.search(r'(case .*?endcase)', txt, flags=re.S)
        cases = [m.group(1) if m else txt]
    else:
        cases = [open(c).read().strip() for c in corpus]
        n = N_THOROUGH if tr == 'thorough' else N_QUICK
        cases += [gen(rng, f's{base_seed}n{i}') for i in range(n)]
    t1 = time.time()
    results = run_cases(probe, cases, keys)
    t_tie = time.time() - t1
    kf = known_findings(PROP)
    reported = set()
    known_ids = set()

    def norm(msg):
        """stable shape of a monitor message: quoted values and digits are normalised"""
        return re.sub(r'\d+', 'N', re.sub(r"'[^']*'", "'N'", msg))

    def judge(c, r):
        """every monitor message of a case is judged on its own: it is a KNOWN-FINDING only if it matches a
        listed finding (input class); any other message - of the same case too - is a VIOLATION"""
        msgs = [x.strip() for x in r['verdict'].split('monitors FAIL:')[-1].split(' | ') if x.strip()]
        n_unknown = 0
        for msg in msgs:
            hit = [f for f in kf if f['signature'] and f['signature'] in norm(msg)]
            if hit:
                if hit[0]['id'] not in known_ids:
                    known_ids.add(hit[0]['id'])
                    known_lines.append(f"KNOWN-FINDING: property={PROP} {hit[0]['id']}: {msg[:220]}  [input: {readable(c)[:160]}]")
                continue
            n_unknown += 1
            sig = norm(msg)[:120]
            if sig in reported or len(violations) >= 5:
                continue
            reported.add(sig)
            p = write_replay(PROP, f'monitor-{base_seed}-{len(reported)}.json',
                             {'property': PROP, 'kind': 'monitor', 'what': msg, 'all_messages': msgs, 'input': readable(c), 'case': c,
                              'impl_report': r['raw'], 'model_verdict': r['verdict'],
                              'rerun_cmd': f'cd {HERE} && ./check {PROP} --replay <this file>'})
            violations.append(f'VIOLATION property={PROP} replay={p}')
        return n_unknown

    kinds = {'pass': 0, 'monitor': 0, 'known': 0, 'tie': 0, 'skip': 0}
    ties = []
    for c, r in zip(cases, results):
        k = kind(r)
        if k == 'monitor':
            k = 'monitor' if judge(c, r) else 'known'
            # the correspondence verdict of such a case still counts
            if ' reject ' in r['verdict'].split('monitors FAIL:')[0]:
                ties.append(('tie', c, r))
                kinds['tie'] += 1
        kinds[k] += 1
        if k == 'tie':
            ties.append((k, c, r))
    if os.environ.get('VERIF_DEBUG'):
        with open(os.environ['VERIF_DEBUG'], 'w') as f:
            for c, r in zip(cases, results):
                f.write(kind(r) + ' :: ' + readable(c) + '\n    ' + r['verdict'] + '\n')
    bbad, bchecked, bgroups = binding_check(probe, cases, results, keys)
    for c, r, msg in bbad:
        if kind(r) == 'pass':
            kinds['pass'] -= 1
        r['verdict'] = r['verdict'].replace(' accept ', ' reject 0 [binding: ' + msg + '] was-accept ')
        kinds['tie'] += 1
        ties.append(('tie', c, r))
    extra_run = 0
    if (not proof_ok or kinds['tie'] > 0) and kinds['monitor'] == 0 and not replay:
        ecases = [gen(rng, f'x{base_seed}n{i}') for i in range(N_EXTRA)]
        for c, r in zip(ecases, run_cases(probe, ecases, keys)):
            if kind(r) == 'monitor' and judge(c, r):
                kinds['monitor'] += 1
        extra_run = len(ecases)

    if violations:
        pass
    elif ties or not proof_ok:
        if not proof_ok:
            p = write_replay(PROP, f'proof-{base_seed}.json',
                             {'property': PROP, 'kind': 'proof', 'problems': audit['problems'], 'translator': gen_log,
                              'build_log': build_log[-3000:], 'theorems': audit['theorems'],
                              'searched_cases': len(cases) + extra_run})
            violations.append(f'VIOLATION property={PROP} replay={p} no-failing-input-found')
        if ties:
            k, c, r = ties[0]
            p = write_replay(PROP, f'tie-{base_seed}.json',
                             {'property': PROP, 'kind': 'tie',
                              'correspondence': 'report of harness/e0/cfg_probe.cpp (real process, live runtime) = report computed by Lean model Config.resolve',
                              'first_divergence': r['verdict'], 'input': readable(c), 'case': c, 'impl_report': r['raw'],
                              'diverging_cases': len(ties), 'searched_cases': len(cases) + extra_run,
                              'rerun_cmd': f'cd {HERE} && ./check {PROP} --replay <this file>'})
            violations.append(f'VIOLATION property={PROP} replay={p} no-failing-input-found')

    # 4. evidence
    nontriv, dist = set(), {}
    for c, r in zip(cases, results):
        if kind(r) != 'pass':
            continue
        body = re.sub(r'^case \S+', 'case', c)
        rd = readable(c)
        nsrc = sum(1 for _, key, envv, opt, _ in SETTINGS
                   if sum([envv + '=' in rd, (key + '=') in rd, bool(opt) and ('--' + opt) in rd]) >= 2)
        if nsrc >= 1 or 'accept error' in r['verdict']:
            nontriv.add(body)
        cls = r['verdict'].split(' accept ')[1].split(' ')[0]
        dist[cls] = dist.get(cls, 0) + 1
    samples = [readable(c) + '  =>  ' + r['verdict'].split(' ; ')[0] for c, r in list(zip(cases, results))[len(corpus):len(corpus) + 3]]
    cov = {
        'obligations': audit['obligations'], 'discharged': audit['discharged'], 'checker_cmd': audit['checker_cmd'],
        'trusted_base': TRUSTED,
        'evaluations': len(cases) + extra_run, 'distinct_nontrivial': len(nontriv), 'rule': RULE, 'samples': samples,
        'traces_validated_against_impl': kinds['pass'], 'disagreements_checked': kinds['tie'],
        'explanation': f"theorems: {[t[0] for t in audit['theorems']]}; translator ok={gen_ok}; correspondence: {kinds} "
                       f"(skip = input outside the modelled fragment, not counted as validated); corpus cases {len(corpus)}; "
                       f"extra search cases {extra_run}; outcome classes {dist}; binding: {bchecked} runs compared with {bgroups} direct start-ups; probe starts/s {len(cases) / max(t_tie, 0.01):.0f}",
    }
    write_evidence(PROP, tr, base_seed, cov, time.time() - t0, len(violations), assumptions=ASSUMPTIONS)
    print(f"{PROP}: translator {'ok' if gen_ok else 'FAILED'}; theorems {audit['discharged']}/{audit['obligations']} audited; "
          f"probe runs {len(cases)} (+{extra_run} extra) in {t_tie:.1f}s: {kinds}; nontrivial distinct {len(nontriv)}; {time.time() - t0:.1f}s")
    finish(PROP, violations, known_lines)


N_QUICK, N_THOROUGH, N_EXTRA = 1200, 12000, 3000
# inputs outside the model that are nevertheless started: the monitors judge them (C16f: quoting of positionals)
RUNNABLE_UNMODELLED = ['argument syntax', 'positional with =']
RULE = ('random start-ups of the probe process: 0-3 settings out of the generated table (thread count, cores, scheduler, bind, affinity, '
        'pu-step/offset, numa-sensitive, stack sizes, plain ini entries), each given through a random subset of {environment variable, '
        '--pika:ini, command-line option (=, abbreviated or separate-token form, sometimes twice), PIKA_COMMANDLINE_OPTIONS option, '
        'PIKA_COMMANDLINE_OPTIONS --pika:ini} with independent valid / boundary / malformed values, shuffled option order, positional and '
        'unknown arguments, positional arguments with quote characters / backslashes / blanks / =, --pika:pu-step / --pika:pu-offset alone, three entry-point variants of the probe (pika::init with f(int,char**), with f(variables_map&), pika::start(nullptr)), 6 synthetic topologies; non-trivial = at least one setting given by two or more sources, or a start-up error; '
        'distinct = distinct (topology, environment, argv)')
TRUSTED = [
    "Lean 4.33.0 kernel (lake build); axioms admitted: propext, Classical.choice, Quot.sound only (audited with #print axioms on every property theorem each run); no native_decide/bv_decide/sorry/own axioms",
    "tools/translate/settings.py (regenerates the settings / option / handler / scheduler tables from the preprocessed sources, fails closed on unexpected shapes)",
    "the hand-written Lean model Model/Config.lean follows command_line_handling.cpp / parse_command_line.cpp / program_options / ini.cpp / setup_schedulers / init_helper as decision logic; it is tied to the working tree only by the generated table and by the finite differential run of this check",
    "harness/e0/cfg_probe.cpp (reports through public pika APIs from inside the entry function), lean/Driver/CfgDrv.lean (report parser, error-message classification table), hwloc synthetic topologies",
]
ASSUMPTIONS = [
    'inputs outside the modelled fragment (option files, --, quoting, signed numbers, explicit affinity descriptions, process masks, logging / help / debug options, init_params.cfg) are reported as skip and not validated',
    'positional arguments that need quoting are outside the resolve model: such cases are started and judged by the monitors only (counted as skip, not as validated); the quoting round trip itself is the subject of C16_positional_roundtrip / C16_late_reparse_total',
    'deviations of the pinned tree from the property as stated are reported as KNOWN-FINDING (known_findings.txt, one line per input class); every other message of the same monitors is a VIOLATION',
    'per-worker PU masks are compared with those of a start-up that gives the resolved bind/threads/cores directly (metamorphic); the mapping bind description -> masks itself is C15',
]

if __name__ == '__main__':
    main()
