#!/usr/bin/env python3
"""C20 - MPI requests complete their sender exactly once, after the transfer.
Lean model Mpi + Props/C20.lean; tie: E2 logs of self-addressed Isend/Irecv pairs through transform_mpi on
the live runtime (second hooks build with PIKA_WITH_MPI=ON, OpenMPI singleton)."""
import os, sys, subprocess
sys.path.insert(0, os.path.join(os.path.dirname(os.path.abspath(__file__)), '..', 'tools'))
import e2check


def mpi_flags():
    def q(arg):
        try:
            return subprocess.run(['mpicxx', arg], capture_output=True, text=True).stdout.strip()
        except OSError:
            return ''
    inc = q('--showme:compile') or '-I/usr/lib/x86_64-linux-gnu/openmpi/include'
    lnk = q('--showme:link') or '-lmpi'
    # libraries must follow the source file on the command line; compile_harness puts `extra` first
    return f'-O1 {inc} -Wl,--no-as-needed {lnk} -Wl,--as-needed'


METHODS = {'yield_while': 0, 'suspend_resume': 1, 'new_task': 2, 'continuation': 3}


def mode(method, req_inline, comp_inline, prio):
    return (METHODS[method] << 3) | (prio << 2) | (comp_inline << 1) | req_inline


def one(rng, method, pool, variant, size='small', flags=None, perturb=None):
    if flags is None:
        flags = (rng.below(2), rng.below(2), rng.below(2))
    m = mode(method, *flags)
    if size == 'small':
        pairs, maxlog2, out = rng.choice([8, 24, 48]), rng.choice([10, 16, 18]), rng.choice([1, 4, 16])
    elif size == 'many':
        pairs, maxlog2, out = 512, 12, 512
    elif size == 'crowd':
        # many workers polling at once (no polling pool), many requests outstanding while new ones are submitted
        pairs = rng.choice([128, 256, 512])
        maxlog2, out = 10, rng.choice([pairs, pairs // 2, 96])    # long request vectors: compaction takes a while
    else:  # big messages
        pairs, maxlog2, out = rng.choice([12, 24]), 22, rng.choice([2, 6])
    threads = rng.choice([2, 3, 4]) if size != 'many' else 4
    if size == 'crowd':
        threads = 8
    if pool:
        threads = max(threads, 3)   # one PU goes to the polling pool; keep two default-pool workers
    pollsize = rng.choice([1, 8, 8, 32])
    rounds = rng.choice([1, 2]) if size != 'crowd' else 3
    p = perturb if perturb is not None else rng.choice([0, 100, 300])
    if size == 'crowd' and perturb is None:
        p = rng.choice([300, 600, 900])    # wide windows after the pollers' unlock / before their next lock
    return [rng.below(1 << 30), p, m, pool, pairs, maxlog2, out, pollsize, variant, rounds,
            f'--pika:threads={threads}', '--pika:bind=none']


def runs(rng, tier):
    out = []
    if tier == 'thorough':
        for method in METHODS:
            for pool in (0, 1):
                for ri in (0, 1):
                    for ci in (0, 1):
                        for pr in (0, 1):
                            for variant in ('normal', 'err'):
                                out.append(one(rng, method, pool, variant, flags=(ri, ci, pr)))
                for variant in ('throw', 'early'):
                    out.append(one(rng, method, pool, variant))
                out.append(one(rng, method, pool, 'normal', size='big'))
                out.append(one(rng, method, pool, 'normal', size='many'))
            out.append(one(rng, method, 0, 'normal', size='crowd'))
            out.append(one(rng, method, 0, 'err', size='crowd'))
    else:
        for method in METHODS:
            for pool in (0, 1):
                out.append(one(rng, method, pool, 'normal'))
                out.append(one(rng, method, pool, 'err' if pool == 0 else rng.choice(['err', 'throw', 'early'])))
        out.append(one(rng, rng.choice(list(METHODS)), rng.below(2), 'normal', size='big'))
        out.append(one(rng, rng.choice(['new_task', 'continuation', 'suspend_resume']), 0, 'normal', size='many'))
        for method in ('continuation', 'new_task', 'suspend_resume') * 2:
            out.append(one(rng, method, 0, 'normal', size='crowd'))
    return out


def extra_runs(rng, tier):
    return [one(rng, method, pool, variant, perturb=400) for method in METHODS for pool in (0, 1)
            for variant in ('normal', 'err', 'early')]


def nontrivial(raw):
    # at least one request went through the registry (queue/vector -> callback) and one completed eagerly
    return ' mpi.call ' in raw and ' mpi.sig ' in raw


def stats(raw):
    return {k: raw.count(' ' + k + ' ') for k in ('mpi.post', 'mpi.eager', 'mpi.ydone', 'mpi.enq', 'mpi.q2v', 'mpi.ready',
                                                  'mpi.testany', 'mpi.call', 'mpi.woke', 'mpi.sig', 'x.cont', 'tm.waitret',
                                                  'mpi.pollon', 'mpi.stopret', 'x.rel')}


e2check.run(dict(
    prop='C20', model='mpi', harness='e2/mpi.cpp', bin='e2_mpi', props=['C20', 'C20t'], variant='mpi', cc_extra=mpi_flags(),
    runs=runs, extra_runs=extra_runs, nontrivial=nontrivial, stats=stats, par=3, timeout_s=600,
    rule='self-addressed MPI_Isend/MPI_Irecv pairs (1 B .. 4 MB, up to 512 pairs outstanding, 2-4 submitter tasks, 1-2 '
         'start_polling/stop_polling rounds) through transform_mpi on the live runtime for every handler method '
         '(yield_while, suspend_resume, new_task, continuation) x request_inline x completion_inline x high_priority, with '
         'and without a dedicated polling pool (single-threaded poller when the pool is on and requests are transferred; six crowd runs: 8 workers polling at once, 128-512 requests outstanding, strong perturbation), '
         'MPI_Testsome and MPI_Testany pollers; variants with failing operations (invalid rank: error at the call; truncated '
         'receive: error at completion), throwing callables, and pika::wait() called while submitters still run; a third of the plain '
         'sends / receives pass their buffer BY VALUE (a move-only handle the adaptor owns; its destructor logs the release, '
         'checks a receive buffer is filled and scrubs the memory); PRNG timing '
         'perturbation at the instrumented sites; non-trivial = at least one request went through the registry and its '
         'callback; distinct = distinct argv',
    assumptions=["MPI's own behaviour is assumed: a request reported complete by MPI_Test/Testsome/Testany is complete (the "
                 "harness additionally checks the payload of every receive in its continuation)",
                 'only a singleton communicator (self-addressed messages, OpenMPI 4.1.4 without mpirun) can be exercised here',
                 'the mpix_continuation handler method is not compiled in this environment (no MPIX extension) and is not modelled',
                 'the continuation runs after set_value: downstream scheduling (continues_on, new tasks, condition variable '
                 'wake-up) is covered by C01/C02/C03/C07, the model only requires that the signal is sent once'],
    trusted_extra=['log resolver in lean/Driver/MpiDrv.lean (operation_state addresses, MPI_Request handles and acting threads '
                   '-> operation numbers); a wrong resolution can only cause a rejection'],
))
