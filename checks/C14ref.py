"""C14, sequential half: random histories of stop_source / stop_token special members run on the
real classes (harness/e0/stopref.cpp) and compared line by line with the Lean model StopRef; a
counter-free monitor recomputes stop_possible from the owners of each state."""
import os, sys, re
sys.path.insert(0, os.path.join(os.path.dirname(os.path.abspath(__file__)), '..', 'tools'))
from vlib import *


def gen(rng, cid):
    H = rng.weighted([(3, 2), (4, 3), (6, 2)])
    n = 10 + rng.below(50)
    ops = []
    live_s, live_t = set(), set()
    for _ in range(n):
        kind = rng.weighted([('snew', 4), ('snone', 1), ('scopy', 4), ('smove', 3), ('sassign', 6), ('smassign', 5),
                             ('sswap', 2), ('sdel', 5), ('tget', 5), ('tnew', 1), ('tcopy', 2), ('tmove', 2),
                             ('tassign', 2), ('tmassign', 2), ('tswap', 1), ('tdel', 3), ('rs', 2), ('wild', 1)])
        free_s = [i for i in range(H) if i not in live_s]
        free_t = [i for i in range(H) if i not in live_t]
        ls, lt = sorted(live_s), sorted(live_t)
        if kind == 'wild':  # possibly illegal operation: both sides must say so
            k2 = rng.choice(['scopy', 'sdel', 'tget', 'tdel', 'sassign', 'rs'])
            ops.append(f'{k2} {rng.below(H)}' + (f' {rng.below(H)}' if k2 in ('scopy', 'tget', 'sassign') else ''))
            # keep our bookkeeping exact
            w = ops[-1].split()
            a = int(w[1]); b = int(w[2]) if len(w) > 2 else -1
            if k2 == 'scopy' and a not in live_s and b in live_s: live_s.add(a)
            elif k2 == 'sdel' and a in live_s: live_s.discard(a)
            elif k2 == 'tget' and a not in live_t and b in live_s: live_t.add(a)
            elif k2 == 'tdel' and a in live_t: live_t.discard(a)
            continue
        if kind in ('snew', 'snone') and free_s:
            a = rng.choice(free_s); ops.append(f'{kind} {a}'); live_s.add(a)
        elif kind in ('scopy', 'smove') and free_s and ls:
            a = rng.choice(free_s); ops.append(f'{kind} {a} {rng.choice(ls)}'); live_s.add(a)
        elif kind in ('sassign', 'smassign', 'sswap') and ls:
            ops.append(f'{kind} {rng.choice(ls)} {rng.choice(ls)}')
        elif kind == 'sdel' and ls:
            a = rng.choice(ls); ops.append(f'sdel {a}'); live_s.discard(a)
        elif kind == 'tget' and free_t and ls:
            a = rng.choice(free_t); ops.append(f'tget {a} {rng.choice(ls)}'); live_t.add(a)
        elif kind == 'tnew' and free_t:
            a = rng.choice(free_t); ops.append(f'tnew {a}'); live_t.add(a)
        elif kind in ('tcopy', 'tmove') and free_t and lt:
            a = rng.choice(free_t); ops.append(f'{kind} {a} {rng.choice(lt)}'); live_t.add(a)
        elif kind in ('tassign', 'tmassign', 'tswap') and lt:
            ops.append(f'{kind} {rng.choice(lt)} {rng.choice(lt)}')
        elif kind == 'tdel' and lt:
            a = rng.choice(lt); ops.append(f'tdel {a}'); live_t.discard(a)
        elif kind == 'rs' and ls:
            ops.append(f'rs {rng.choice(ls)}')
    return f'case {cid} H={H}\nthread 0: ' + ' ; '.join(ops) + ' ;\nendcase'


def run(ctx):
    prop, tr, base_seed, rng = ctx['prop'], ctx['tier'], ctx['seed'], ctx['rng']
    ok_h, hbin, hlog = compile_harness('e0_stopref', 'e0/stopref.cpp')
    if not ok_h:
        p = write_replay(prop, f'build-failure-ref-{base_seed}.txt', hlog)
        return {'violations': [f'VIOLATION property={prop} replay={p} no-failing-input-found'], 'explanation': 'reference-count harness failed to build'}
    cases = []
    corpus = sorted(__import__('glob').glob(os.path.join(HERE, 'corpus', prop, 'ref', '*.case')))
    if ctx.get('replay'):
        txt = open(ctx['replay']).read()
        m = re.search(r'(case \S+ H=.*?endcase)', txt, flags=re.S)
        if not m:
            return {'violations': [], 'explanation': 'reference-count half: replay is not a history'}
        cases = [m.group(1)]
    else:
        cases = [open(c).read().strip() for c in corpus]
        n = 20000 if tr == 'thorough' else 1500
        cases += [gen(rng, f'r{base_seed}n{i}') for i in range(n)]
    res = run_e1(hbin, 'stopref', cases, jobs=8, tag=prop + 'ref')
    kinds = {'pass': 0, 'monitor': 0, 'tie': 0}
    viol = []
    nontriv = 0
    for c, r in zip(cases, res):
        k = classify(r)
        kinds[k] += 1
        if 'assign' in c:
            nontriv += 1
        if k != 'pass' and len(viol) < 1:
            what = r['verdict'].split('monitors FAIL:')[-1].strip() if k == 'monitor' else r['verdict']
            p = write_replay(prop, f'ref-{k}-{base_seed}.json',
                             {'property': prop, 'kind': k, 'what': what, 'case': c, 'impl_history': r['raw'],
                              'model_verdict': r['verdict'], 'correspondence': 'outputs of harness/e0/stopref.cpp equal to Lean model StopRef',
                              'rerun_cmd': f'cd {HERE} && ./check {prop} --replay <this file>'})
            viol.append(f'VIOLATION property={prop} replay={p}' + ('' if k == 'monitor' else ' no-failing-input-found'))
    return {'violations': viol, 'evaluations': len(cases), 'validated': kinds['pass'], 'disagreements': kinds['tie'],
            'explanation': f'reference-count histories (10-60 special-member calls on 3-6 source and token slots): {kinds}, {nontriv} with assignments'}
