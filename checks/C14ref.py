"""C14, sequential half: reference-count histories (placeholder until the differential run is wired)."""
def run(ctx):
    return {'violations': [], 'evaluations': 0, 'validated': 0, 'disagreements': 0, 'explanation': 'reference-count half: not run'}
