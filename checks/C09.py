#!/usr/bin/env python3
"""C09 - latch, barrier, event, call_once.  Runs the two sub-checks (latch/event/once: checks/C09L.py,
Props/C09.lean; barrier: checks/C09B.py, Props/C09Barrier.lean) and merges their verdicts and evidence."""
import json, os, subprocess, sys, time
HERE = os.path.dirname(os.path.dirname(os.path.abspath(__file__)))
t0 = time.time()
args = sys.argv[1:]
# a replay file names its sub-check through the property recorded inside
subs = ['C09L', 'C09B']
for i, a in enumerate(args):
    if a == '--replay' and i + 1 < len(args):
        try:
            p = json.load(open(args[i + 1])).get('property', '')
            if p in subs:
                subs = [p]
        except Exception:
            pass
out_lines, rc = [], 0
evs = []
for sc in subs:
    r = subprocess.run([sys.executable, os.path.join(HERE, 'checks', sc + '.py')] + args, capture_output=True, text=True, cwd=HERE)
    for l in r.stdout.splitlines():
        out_lines.append(l.replace(f'property={sc}', 'property=C09'))
    if r.returncode != 0:
        rc = 1
        if not any(l.startswith('VIOLATION') for l in r.stdout.splitlines()):
            out_lines.append(f'VIOLATION property=C09 replay={HERE}/evidence/{sc}.json no-failing-input-found')
            sys.stderr.write(r.stderr[-2000:])
    try:
        evs.append(json.load(open(os.path.join(HERE, 'evidence', sc + '.json'))))
    except Exception:
        pass
if evs:
    cov = {}
    for k in ('obligations', 'discharged', 'evaluations', 'distinct_nontrivial', 'traces_validated_against_impl', 'disagreements_checked'):
        cov[k] = sum(e['coverage'].get(k, 0) for e in evs)
    cov['checker_cmd'] = ' ; '.join(e['coverage']['checker_cmd'] for e in evs)
    cov['trusted_base'] = evs[0]['coverage']['trusted_base']
    cov['rule'] = ' || '.join(e['coverage']['rule'] for e in evs)
    cov['samples'] = [s for e in evs for s in e['coverage'].get('samples', [])[:2]]
    cov['explanation'] = ' || '.join(f"[{e['property_id']}] " + e['coverage'].get('explanation', '') for e in evs)
    ev = {'property_id': 'C09', 'tier': evs[0]['tier'], 'seed': evs[0]['seed'], 'level': 'proof', 'coverage': cov,
          'assumptions': [a for e in evs for a in e.get('assumptions', [])], 'wall_s': round(time.time() - t0, 2),
          'violations': sum(e.get('violations', 0) for e in evs)}
    json.dump(ev, open(os.path.join(HERE, 'evidence', 'C09.json'), 'w'), indent=1)
print('\n'.join(out_lines))
sys.exit(rc)
