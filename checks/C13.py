#!/usr/bin/env python3
"""C13 - pika::thread / jthread: join waits for completion, always returns; detach/joinable; misuse errors;
jthread destructor; interruption.  Lean model Join + Props/C13.lean; tie: E2 logs of generated scenarios on the
live runtime (hooks jn.* jt.* ec.* ip.*)."""
import os, sys
sys.path.insert(0, os.path.join(os.path.dirname(os.path.abspath(__file__)), '..', 'tools'))
import e2check

# `shared-priority` is not run: with that scheduler `pika::thread`'s constructor can return a handle with an
# invalid id (create_thread defers the creation and reports invalid_thread_id when the chosen queue is not the
# creator's), so the thread is not joinable at all - finding recorded in notes/C13.md, prog `errors` reproduces it
POLICIES = ['local', 'local-priority-fifo', 'local-priority-lifo', 'static', 'static-priority',
            'abp-priority-fifo', 'abp-priority-lifo']
PROGS = ['mixed', 'mixed', 'usercb', 'twojoin', 'interrupt', 'jthread', 'basic', 'errors']
# follow-up C13m: handle operations (move construction/assignment, swap, containers, destruction, jthread moves, a handle
# moved away under a suspended joiner); `mixed2` draws from all ten scenario kinds
PROGS_M = ['moves', 'jtmove', 'movejoin', 'handles', 'mixed2', 'jtswap']


def runs(rng, tier):
    out = []
    if tier == 'thorough':
        for pol in POLICIES:
            for th in (1, 2, 3, 4, 8):
                for k in range(5):
                    out.append([rng.below(1 << 30), rng.choice([0, 100, 300, 500]), rng.choice(PROGS),
                                rng.choice([12, 24, 40]), f'--pika:threads={th}', f'--pika:scheduler={pol}'])
                for k in range(2):
                    out.append([rng.below(1 << 30), rng.choice([0, 100, 300, 500]), rng.choice(PROGS_M),
                                rng.choice([12, 24, 40]), f'--pika:threads={th}', f'--pika:scheduler={pol}'])
    else:
        for i, pol in enumerate(POLICIES):
            for k, th in enumerate((1, 4) if i % 2 == 0 else (2, 8)):
                for q in range(2):
                    out.append([rng.below(1 << 30), rng.choice([0, 200, 400]), PROGS[(4 * i + 2 * k + q) % len(PROGS)], rng.choice([8, 16]),
                                f'--pika:threads={th}', f'--pika:scheduler={pol}'])
        out.append([rng.below(1 << 30), 300, 'usercb', 12, '--pika:threads=4', '--pika:scheduler=local-priority-fifo'])
        out.append([rng.below(1 << 30), 300, 'twojoin', 12, '--pika:threads=3', '--pika:scheduler=local-priority-fifo'])
        for i, pol in enumerate(POLICIES):
            out.append([rng.below(1 << 30), rng.choice([0, 200, 400]), PROGS_M[i % len(PROGS_M)], rng.choice([8, 16]),
                        f'--pika:threads={(1, 2, 3, 4, 8)[i % 5]}', f'--pika:scheduler={pol}'])
        out.append([rng.below(1 << 30), 300, 'handles', 12, '--pika:threads=4', '--pika:scheduler=local-priority-fifo'])
        out.append([rng.below(1 << 30), 100, 'jtswap', 8, '--pika:threads=3', '--pika:scheduler=local-priority-fifo'])
        out.append([rng.below(1 << 30), 0, 'jtswap', 8, '--pika:threads=1', '--pika:scheduler=static'])
    # directed, one worker: an interruption already pending when join() is entered, handled by the user code, followed by a
    # second join (follow-up C13j: replayed through the acceptor JoinCatch = the join acceptor + the handler of the user code,
    # theorems Props/C13j.lean; the driver infers the handler event and cross-checks its counters with the harness' stat line)
    for pol in POLICIES[:3]:
        out.append([rng.below(1 << 30), 0, 'joinpend', 1, '--pika:threads=1', f'--pika:scheduler={pol}'])
    # directed: interrupt() on a finished thread, then unrelated threads on the recycled objects pass interruption points
    for i, pol in enumerate(POLICIES[:4]):
        out.append([rng.below(1 << 30), 0, 'staleintr', 4, f'--pika:threads={(1, 2, 4, 3)[i]}', f'--pika:scheduler={pol}'])
    return out


def extra_runs(rng, tier):
    return [[rng.below(1 << 30), 400, prog, 24, f'--pika:threads={th}', '--pika:scheduler=local-priority-fifo']
            for prog in ('usercb', 'twojoin', 'mixed', 'interrupt', 'handles') for th in (2, 4, 8)]


def nontrivial(raw):
    # a joiner really suspended and was woken by the target's exit callback, and a callback was refused
    return ' jn.woke ' in raw and ' jn.resume ' in raw


def stats(raw):
    d = {k: raw.count(' ' + k + ' ') for k in ('jn.lock', 'jn.woke', 'jn.err', 'jn.done', 'jn.resume', 'ec.take', 'x.cb', 'jn.interrupted', 'jt.joined', 'jn.detach',
                                                       'jn.mvctor', 'jn.mvassign', 'jn.swap', 'jn.dtor', 'jt.skip', 'jn.dtorterm', 'jn.mvterm')}
    lines = raw.split('\n')
    d['add_refused'] = sum(1 for l in lines if ' ec.add ' in l and not l.endswith(' 1'))
    d['add_accepted'] = sum(1 for l in lines if ' ec.add ' in l and l.endswith(' 1'))
    # order statistics of the three code paths of join: callback run before / after the joiner suspended
    susp = {}
    early = late = 0
    for l in lines:
        p = l.split()
        if len(p) != 5:
            continue
        if p[1] == 'jn.susp':
            susp[p[3]] = True
        elif p[1] == 'jn.checked':
            susp[p[3]] = False
        elif p[1] == 'jn.resume':
            if susp.get(p[2]):
                late += 1
            else:
                early += 1
    d['resume_before_suspend'] = early
    d['resume_after_suspend'] = late
    return d


# directed reproductions of the listed findings (run only while the finding is listed in known_findings.txt)
FINDING_RUNS = {
    'shared-priority-thread-not-joinable': [[877833741, 0, 'errors', 8, '--pika:threads=8', '--pika:scheduler=shared-priority']],
    # std::terminate: the directed run dies, which is the finding (the alternative signature is valid for this run only)
    'yield-noexcept-interruption': [([1, 0, 'yieldintr', 4, '--pika:threads=2'], "crash rc=N"), ([2, 0, 'yieldintr', 4, '--pika:threads=2'], "crash rc=N")],
    'interrupted-join-stale-callback': [[1, 0, 'joinintr', 1, '--pika:threads=3'], [2, 0, 'joinintr', 1, '--pika:threads=3']],
}

e2check.run(dict(
    finding_runs=FINDING_RUNS,
    prop='C13', model='join', harness='e2/join.cpp', bin='e2_join', props=['C13', 'C13m', 'C13j'],
    runs=runs, extra_runs=extra_runs, nontrivial=nontrivial, stats=stats, par=3, timeout_s=900,
    rule='generated scenarios on the live runtime (thread bodies: immediate, yielding, long running, blocking on a semaphore, spawning and joining further threads; joiners on other tasks after random delays; double join, join after detach, self join; user exit callbacks registered through add_thread_exit_callback while the target exits; two concurrent joiners of one handle; handle operations: move construction / move assignment / swap / vectors of handles / re-binding a joined handle / jthread moves / a handle moved away while another task is suspended in join on it, every destructor logged; interrupt() against bodies with enabled/disabled interruption sections and a bystander; jthread destructors at random times) for every scheduling policy and several worker counts, with PRNG timing perturbation at the instrumented sites (join window, exit-callback window); non-trivial = at least one joiner was suspended and woken by an exit callback; distinct = distinct argv',
    assumptions=['wake-up of a suspended joiner is modelled with wake-up tokens (agent contract; C02 covers the scheduler side); the acceptor checks on every run that a joiner only wakes after a resume_thread aimed at it',
                 'interruption of a task while it is suspended inside join is outside the main model (the default programs do not produce it; the acceptor would reject such logs): the code as it is leaves the exit callback of an interrupted join registered, which can release a later join early - finding interrupted-join-stale-callback, model IJ in Props/C13m.lean with the machine-checked counterexample, directed program `e2_join 1 0 joinintr 1 --pika:threads=3`',
                 'user code that handles thread_interrupted and carries on is outside the main model (which treats a delivery as the end of the thread function): the directed program joinpend (request pending when join is entered, handled, second join) is replayed through the separate acceptor JoinCatch (every hook event judged by the same Join.step, plus the inferred event `caught`; Props/C13j.lean), one worker only',
                 'concurrent moves of the same two handles in opposite directions and self move-assignment / self swap (both lock two spinlocks in argument order) are not generated',
                 'this_thread::yield() is declared noexcept although it is an interruption point: a delivered interruption there calls std::terminate (finding, notes/C13.md); interruptible harness bodies suspend through this_thread::suspend'],
))
