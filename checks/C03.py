#!/usr/bin/env python3
"""C03 - sender adaptors deliver exactly one, correct completion signal.

Lean: Model/Snd.lean (term language, denotation, operational semantics of the sequential adaptors),
      Model/Shared.lean (acceptor for the split / ensure_started / split_tuple shared state and the
      when_all counter), Model/SharedLife.lean (ownership layer: who holds a reference to the shared state,
      reference count, freed, touch after release), theorems in Props/C03.lean and Props/C03Life.lean.
Tie:  E0 - harness/e0/snd.cpp builds runtime pipelines from random terms on the real adaptors
           (every stage erased as unique_any_sender), driver model `snd` compares line by line;
           pool cases run schedule/continues_on/transfer_just on a real thread_pool_scheduler;
      E0-static (C03s) - the same harness with `static=1|2`: STATICALLY TYPED pipelines
           (harness/e0/snd_static.hpp: a catalogue of fully static shapes, and a reference-preserving
           tier for arbitrary terms), same expected lines; exception / payload / late-delivery monitors;
      E1 - harness/e1/split.cpp runs the shared-state adaptors with 2-4 threads under the baton,
           driver model `shared` replays the hook-event log through the Lean acceptor.
"""
import os, sys, time, re, glob, json
sys.path.insert(0, os.path.join(os.path.dirname(os.path.abspath(__file__)), '..', 'tools'))
from vlib import *

PROP = 'C03'

# ----------------------------------------------------------------------------- E0 generator
FN_W = [('add', 4), ('rev', 2), ('sum', 2), ('dup', 2), ('id', 1), ('thr', 2), ('throdd', 3), ('const', 1)]


def ints(rng, lo=0, hi=3):
    n = lo + rng.below(hi - lo + 1)
    return ':'.join(str(rng.below(15) - 5) for _ in range(n))


def gen_fn(rng, mayfail=True):
    f = rng.weighted(FN_W if mayfail else [w for w in FN_W if w[0] not in ('thr', 'throdd')])
    if f == 'add':
        return f'add:{rng.below(9) - 3}'
    if f in ('thr', 'throdd'):
        return f'{f}:{1 + rng.below(9)}'
    if f == 'const':
        v = ints(rng)
        return 'const:' + v if v else 'const'
    return f


class Ctx:
    """inlet: inside a let_* body (arg() is bound); pool: the term may use the real pool scheduler
    `p`, and - because completions of when_all's predecessors then race - at most one predecessor
    of every when_all / when_all_vector may complete without a value (so that the denotation does
    not depend on the completion order); mayfail: this subterm may contain failing constructs."""

    def __init__(self, inlet=False, pool=False, mayfail=True):
        self.inlet, self.pool, self.mayfail = inlet, pool, mayfail

    def let(self):
        return Ctx(True, self.pool, self.mayfail)

    def nofail(self):
        return Ctx(self.inlet, self.pool, False)


def gen_sch(rng, cx=None):
    cx = cx or Ctx()
    w = [('v', 5)]
    if cx.mayfail:
        w += [('e', 2), ('s', 2)]
    if cx.pool:
        w += [('p', 8)]
    k = rng.weighted(w)
    return f'e:{10 + rng.below(9)}' if k == 'e' else k


def gen_leaf(rng, cx):
    w = [('just', 6), ('arg', 5 if cx.inlet else 1), ('tj', 1 + (2 if cx.pool else 0)), ('sd', 1 + (1 if cx.pool else 0))]
    if cx.mayfail:
        w += [('err', 2), ('stop', 2)]
    k = rng.weighted(w)
    if k == 'just':
        return f'just({ints(rng)})'
    if k == 'err':
        return f'err({1 + rng.below(9)})'
    if k == 'stop':
        return 'stop()'
    if k == 'arg':
        return 'arg()'
    if k == 'sd':
        return f'sd({gen_sch(rng, cx)})'
    return f'tj({gen_sch(rng, cx)},{ints(rng)})'


def split_budget(rng, budget, k):
    parts = [1] * k
    for _ in range(max(0, budget - k)):
        parts[rng.below(k)] += 1
    return parts


def gen_term(rng, budget, cx=None):
    """random term with about `budget` nodes"""
    cx = cx or Ctx()
    if budget <= 1:
        return gen_leaf(rng, cx)
    op = rng.weighted([('then', 6), ('lv', 4), ('le', 4), ('dv', 1), ('un', 1), ('co', 3 + (4 if cx.pool else 0)), ('wa', 4), ('wv', 4),
                       ('sp', 3), ('es', 3), ('st', 3), ('bulk', 3), ('rs', 2), ('dos', 3)])
    b = budget - 1
    if op == 'then':
        return f'then({gen_fn(rng, cx.mayfail)},{gen_term(rng, b, cx)})'
    if op in ('lv', 'le'):
        if b < 2:
            return gen_leaf(rng, cx)
        p1, p2 = split_budget(rng, b, 2)
        return f'{op}({gen_fn(rng, cx.mayfail)},{gen_term(rng, p1, cx)},{gen_term(rng, p2, cx.let())})'
    if op in ('dv', 'un', 'sp', 'es', 'rs', 'dos'):
        return f'{op}({gen_term(rng, b, cx)})'
    if op == 'bulk':
        return f'bulk({rng.below(4)},{gen_fn(rng, cx.mayfail)},{gen_term(rng, b, cx)})'
    if op == 'co':
        return f'co({gen_sch(rng, cx)},{gen_term(rng, b, cx)})'
    if op == 'st':
        return f'st({rng.below(2)},{gen_term(rng, b, cx)})'
    if op == 'wa':
        k = min(b, 1 + rng.below(4))
    else:
        k = min(b, rng.below(6))
        if k == 0:
            return 'wv()'
    parts = split_budget(rng, b, k)
    lucky = rng.below(k)     # pool terms: the one predecessor that may complete without a value
    kids = [gen_term(rng, pt, cx if (not cx.pool or i == lucky) else cx.nofail()) for i, pt in enumerate(parts)]
    return f'{op}(' + ','.join(kids) + ')'


# ----------------------------------------------------------------------------- E1 generator, C03w
def gen_e1w(rng, cid):
    """life cycle of the when_all / when_all_vector operation state: 0-4 children (when_all: 2-4), every channel at
    every child, children completing on their own thread, sharing a thread, or on the starter's thread before / after
    `start` (inline completion in the start loop; the last inline child destroys the operation state while the loop is
    still on the stack); two thirds with a self-deleting operation state in guarded memory (life=1)"""
    kind = rng.weighted([('when_all_vector', 3), ('when_all', 2)])
    n = rng.below(5) if kind == 'when_all_vector' else 2 + rng.below(3)
    if kind == 'when_all_vector' and n > 0 and rng.below(8) == 0:
        n = 0
    seed = rng.below(1 << 30)
    strat = rng.weighted([(0, 5), (1, 3), (2, 2)])
    life = ' life=1' if rng.below(3) != 0 else ''
    progs = [['start']]
    mode = rng.below(4)            # 0: own threads, 1: random sharing, 2: all on the starter's thread, 3: mixed with starter
    for i in range(n):
        ch = rng.weighted([('value', 5), ('error', 3), ('stopped', 2)])
        op = f'complete_{ch} {i} {1 + rng.below(9)}'
        if mode == 0 or (mode == 1 and (len(progs) == 1 or rng.below(2) == 0)):
            progs.append([op])
        elif mode == 1:
            progs[1 + rng.below(len(progs) - 1)].append(op)
        elif mode == 2:
            progs[0].append(op)
        else:
            if rng.below(2) == 0:
                progs[0].append(op)
            else:
                progs.append([op])
    for pr in progs:
        for j in range(len(pr) - 1, 0, -1):
            k2 = rng.below(j + 1)
            pr[j], pr[k2] = pr[k2], pr[j]
    lines = [f'case {cid} kind={kind} n={n} seed={seed} strat={strat}{life}']
    for t, pr in enumerate(progs):
        lines.append(f'thread {t}: ' + ' ; '.join(pr) + ' ;')
    lines.append('endcase')
    return '\n'.join(lines)


# ----------------------------------------------------------------------------- E1 generator, C03x
def gen_e1x(rng, cid):
    """life cycle of the schedule_from / let_value / let_error operation state (let kinds: `sched_<ch> v` completes
    the successor sender the user function returned): the three activities `start`, completion of the predecessor
    (any channel) and completion of the scheduler (any channel) on own threads, sharing threads, or all on one
    thread in any program order (a completion requested before its operation state is started is delivered inline
    inside that start: predecessor inline in start(), scheduler inline in start(*scheduler_op_state)); with three
    threads the scheduler may complete on the target thread while the predecessor's thread is still inside
    start(*scheduler_op_state) (preemption point sf.armed); two thirds with a self-deleting operation state in
    guarded memory (life=1)"""
    kind = rng.weighted([('schedule_from', 5), ('let_value', 4), ('let_error', 2)])
    seed = rng.below(1 << 30)
    strat = rng.weighted([(0, 5), (1, 3), (2, 2)])
    life = ' life=1' if rng.below(3) != 0 else ''
    pch = rng.weighted([('value', 7), ('error', 2), ('stopped', 1)] if kind != 'let_error' else [('value', 2), ('error', 7), ('stopped', 1)])
    sch = rng.weighted([('value', 5), ('error', 3), ('stopped', 2)])
    # let kinds: the user function throws / (let_value) storing the predecessor's value throws -> set_error
    if kind != 'schedule_from' and rng.below(6) == 0:
        life += ' fthrow=1'
    elif kind == 'let_value' and rng.below(8) == 0:
        life += ' sthrow=1'
    ops = ['start', f'complete_{pch} 0 {1 + rng.below(9)}', f'sched_{sch} {1 + rng.below(9)}']
    if rng.below(12) == 0:
        ops.pop(1 + rng.below(2))          # the predecessor or the scheduler never completes
    mode = rng.below(4)                    # 0/1: own threads, 2: random sharing, 3: one thread
    progs = []
    for op in ops:
        if mode <= 1 or not progs or (mode == 2 and rng.below(2) == 0):
            progs.append([op])
        else:
            progs[rng.below(len(progs))].append(op)
    for pr in progs:
        for j in range(len(pr) - 1, 0, -1):
            k2 = rng.below(j + 1)
            pr[j], pr[k2] = pr[k2], pr[j]
    for j in range(len(progs) - 1, 0, -1):
        k2 = rng.below(j + 1)
        progs[j], progs[k2] = progs[k2], progs[j]
    lines = [f'case {cid} kind={kind} seed={seed} strat={strat}{life}']
    for t, pr in enumerate(progs):
        lines.append(f'thread {t}: ' + ' ; '.join(pr) + ' ;')
    lines.append('endcase')
    return '\n'.join(lines)


# ----------------------------------------------------------------------------- E0 static generator (C03s)
U8 = ['then', 'lv', 'le', 'co', 'un', 'dv', 'rs', 'dos']
U6 = ['then', 'lv', 'le', 'co', 'rs', 'dos']


def s_ints(rng):
    """mostly non-empty: a moved-from / lost value list must differ from the expected one"""
    n = rng.weighted([(0, 1), (1, 5), (2, 5), (3, 3)])
    return ':'.join(str(rng.below(15) - 5) for _ in range(n))


def s_leaf(rng, perr=0.15, arg=False):
    """a leaf of the static catalogue (just / err / stop / arg); perr = probability of the error channel"""
    x = rng.below(1000) / 1000.0
    if x < perr:
        return f'err({1 + rng.below(9)})'
    if x < perr + 0.08:
        return 'stop()'
    if arg and rng.below(3) != 0:
        return 'arg()'
    return f'just({s_ints(rng)})'


def s_sch(rng, perr=0.3):
    x = rng.below(1000) / 1000.0
    if x < perr:
        return f'e:{10 + rng.below(9)}'
    if x < perr + 0.1:
        return 's'
    return 'v'


def s_unary(rng, u, inner, perr):
    """unary adaptor `u` over `inner`; let bodies are leaves (as in the catalogue)"""
    if u == 'then':
        return f'then({gen_fn(rng)},{inner})'
    if u in ('lv', 'le'):
        return f'{u}({gen_fn(rng)},{inner},{s_leaf(rng, perr, arg=True)})'
    if u == 'co':
        return f'co({s_sch(rng, perr)},{inner})'
    return f'{u}({inner})'


def s_storing(rng, kind, perr):
    """when_all of 1-3 / when_all_vector / split / ensure_started over leaves; at most the error probability
    perr per child, the first non-value child decides (inline completion, left to right)"""
    if kind.startswith('wa'):
        k = int(kind[2])
        return 'wa(' + ','.join(s_leaf(rng, perr) for _ in range(k)) + ')'
    if kind == 'wv':
        return 'wv(' + ','.join(s_leaf(rng, perr) for _ in range(1 + rng.below(4))) + ')'
    return f'{kind}({s_leaf(rng, min(0.6, perr * 1.5))})'


S2_TEMPLATES = ['wa(then(F,L),L)', 'wa(L,dos(L))', 'wa(co(C,L),le(F,L,A))', 'wa(sp(L),es(L))', 'wa(wa(L,L),L)',
                'wv(then(F,L),then(F,L))', 'wv(dos(L),dos(L),dos(L))', 'sp(wa(L,L))', 'es(wa(L,L))', 'sp(sp(L))',
                'sp(then(F,L))', 'es(then(F,L))', 'sp(dos(L))', 'es(dos(L))', 'sp(le(F,L,A))', 'es(co(C,L))']


def gen_pure_term(rng):
    """an instance of a shape of the pure catalogue of harness/e0/snd_static.hpp (kept in step by hand; a term
    that the harness does not recognise is simply re-run on the REF tier).  The error channel is
    over-represented below dos / le / co."""
    fam = rng.weighted([('US', 8), ('UU', 5), ('DUS', 5), ('XDS', 3), ('S', 2), ('UL', 2), ('UJ', 1), ('S2', 3)])
    hot = lambda u: 0.55 if u in ('dos', 'le', 'co') else 0.2
    if fam == 'US':
        u = rng.weighted([(x, 3 if x in ('dos', 'le', 'co') else 1) for x in U8])
        if rng.below(8) == 0:
            u, kind = rng.weighted([(('dos', 'wa1'), 1), (('dos', 'wa3'), 1), (('then', 'wa3'), 1), (('le', 'wa3'), 1)])
        else:
            kind = rng.weighted([('wa2', 3), ('wv', 2), ('sp', 2), ('es', 2)])
        return s_unary(rng, u, s_storing(rng, kind, hot(u)), hot(u))
    if fam == 'UU':
        u1 = rng.weighted([(x, 3 if x in ('dos', 'le', 'co') else 1) for x in U6])
        u2 = rng.weighted([(x, 1) for x in U8])
        pe = max(hot(u1), hot(u2))
        return s_unary(rng, u1, s_unary(rng, u2, s_leaf(rng, pe), pe), pe)
    if fam == 'DUS':
        u = rng.weighted([(x, 1) for x in U8])
        return f'dos({s_unary(rng, u, s_storing(rng, rng.weighted([("wa2", 1), ("sp", 1)]), 0.5), 0.5)})'
    if fam == 'XDS':
        x = rng.weighted([('le', 2), ('co', 1), ('then', 1)])
        return s_unary(rng, x, f'dos({s_storing(rng, rng.weighted([("wa2", 1), ("sp", 1), ("es", 1)]), 0.55)})', 0.55)
    if fam == 'S':
        return s_storing(rng, rng.weighted([('wa1', 1), ('wa2', 2), ('wa3', 2), ('wv', 2), ('sp', 2), ('es', 2)]), 0.3)
    if fam == 'UL':
        u = rng.weighted([(x, 1) for x in U8])
        return s_unary(rng, u, s_leaf(rng, hot(u)), hot(u))
    if fam == 'UJ':
        u = rng.weighted([('then', 1), ('dos', 1), ('lv', 1), ('co', 1)])
        return s_unary(rng, u, f'just({s_ints(rng)})', 0.3)
    t = S2_TEMPLATES[rng.below(len(S2_TEMPLATES))]
    out = ''
    for ch in t:
        out += {'L': lambda: s_leaf(rng, 0.3), 'A': lambda: s_leaf(rng, 0.2, arg=True), 'F': lambda: gen_fn(rng),
                'C': lambda: s_sch(rng)}.get(ch, lambda: ch)()
    return out


def gen_ref_term(rng, budget, hotness=0.15, inlet=False):
    """random term for the REF tier: the adaptors of the task (dos/then/lv/le/co/un/dv/rs, when_all, split,
    ensure_started) dominate; below dos / le / co the error channel is over-represented"""
    if budget <= 1:
        if rng.below(8) == 0:
            return gen_leaf(rng, Ctx(inlet=inlet))
        return s_leaf(rng, hotness, arg=inlet)
    op = rng.weighted([('then', 5), ('lv', 4), ('le', 5), ('dv', 1), ('un', 2), ('co', 5), ('wa', 6), ('wv', 3), ('sp', 4),
                       ('es', 4), ('st', 1), ('bulk', 1), ('rs', 2), ('dos', 7)])
    b = budget - 1
    hot = 0.5 if op in ('dos', 'le', 'co') else hotness
    if op == 'then':
        return f'then({gen_fn(rng)},{gen_ref_term(rng, b, hot, inlet)})'
    if op in ('lv', 'le'):
        if b < 2:
            return s_leaf(rng, hotness, arg=inlet)
        p1, p2 = split_budget(rng, b, 2)
        return f'{op}({gen_fn(rng)},{gen_ref_term(rng, p1, hot, inlet)},{gen_ref_term(rng, p2, hotness, True)})'
    if op in ('dv', 'un', 'sp', 'es', 'rs', 'dos'):
        return f'{op}({gen_ref_term(rng, b, hot, inlet)})'
    if op == 'bulk':
        return f'bulk({rng.below(4)},{gen_fn(rng)},{gen_ref_term(rng, b, hot, inlet)})'
    if op == 'co':
        return f'co({s_sch(rng)},{gen_ref_term(rng, b, hot, inlet)})'
    if op == 'st':
        return f'st({rng.below(2)},{gen_ref_term(rng, b, hot, inlet)})'
    k = min(b, 1 + rng.below(3)) if op == 'wa' else min(b, 1 + rng.below(4))
    parts = split_budget(rng, b, k)
    return f'{op}(' + ','.join(gen_ref_term(rng, pt, hot, inlet) for pt in parts) + ')'


def gen_e0_static(rng, cid, pool=False):
    """static=1: a shape of the pure catalogue (fully static, consumer recv); static=2: any term on the REF tier"""
    if pool:
        budget = rng.weighted([(2, 2), (3, 3), (4, 3), (6, 3)])
        term = gen_term(rng, budget, Ctx(pool=True))
        if '(p' not in term:
            term = f'co(p,{term})'
        mode, consumer = 2, rng.weighted([('recv', 8), ('detached', 1), ('sync', 1)])
    elif rng.below(2) == 0:
        term, mode, consumer = gen_pure_term(rng), 1, 'recv'
    else:
        budget = rng.weighted([(2, 2), (3, 4), (4, 4), (5, 3), (6, 2), (8, 1)])
        term, mode, consumer = gen_ref_term(rng, budget), 2, rng.weighted([('recv', 7), ('detached', 1), ('sync', 2)])
    spre = ' spre=1' if 'sp(' in term and rng.below(3) == 0 else ''
    return f'case {cid} term={term} consumer={consumer} static={mode}{spre}\nendcase'


def static_mode(c):
    m = re.search(r' static=(\d)', c.split('\n')[0])
    return int(m.group(1)) if m else 0


def gen_e0(rng, cid, pool=False):
    budget = rng.weighted([(2, 2), (3, 3), (4, 3), (6, 4), (8, 3), (10, 2), (12, 2)])
    term = gen_term(rng, budget, Ctx(pool=pool))
    if pool and '(p' not in term:
        term = f'co(p,{term})'
    consumer = rng.weighted([('recv', 8), ('detached', 1), ('sync', 1)])
    return f'case {cid} term={term} consumer={consumer}\nendcase'


def classify_e0(r):
    line = r['verdict']
    if 'monitors FAIL' in line:
        return 'monitor'
    if ' accept ' in line:
        return 'pass'
    return 'tie'


# ----------------------------------------------------------------------------- E1 generator (stage 2)
def gen_e1(rng, cid):
    kind = rng.weighted([('split', 5), ('ensure_started', 3), ('split_tuple', 3), ('when_all', 4)])
    seed = rng.below(1 << 30)
    strat = rng.weighted([(0, 5), (1, 3), (2, 2)])
    if kind == 'when_all':
        k = 2 + rng.below(3)
        # a third of the when_all cases: self-deleting when_all operation state in guarded memory (destroyed inside the
        # downstream completion call by whichever predecessor finishes last; a later touch by any thread faults)
        life = ' life=1' if rng.below(3) == 0 else ''
        lines = [f'case {cid} kind=when_all n={k} seed={seed} strat={strat}{life}',
                 'thread 0: start ;']
        for t in range(k):
            ch = rng.weighted([('value', 5), ('error', 3), ('stopped', 2)])
            arg = 1 + rng.below(9)
            lines.append(f'thread {t + 1}: complete_{ch} {t} {arg} ;')
        lines.append('endcase')
        return '\n'.join(lines)
    ch = rng.weighted([('value', 5), ('error', 3), ('stopped', 3)])
    arg = 1 + rng.below(9)
    ncons = 1 if kind == 'ensure_started' else (1 + rng.below(2) if kind == 'split_tuple' else 1 + rng.below(3))
    if rng.below(3) == 0:
        # lifetime mode: guarded shared state, the adaptor's handle destroyed up front, every consumer owns its own
        # sender and either connects it into a self-deleting operation state or discards it unconnected; a touch of
        # the shared state after its last owner is gone faults, and it must be destroyed exactly once
        nsend = 1 if kind == 'ensure_started' else (2 if kind == 'split_tuple' else 1 + rng.below(4))
        acts = [('consume' if rng.below(3) != 0 else 'discard') for _ in range(nsend)]
        if kind != 'ensure_started' and 'consume' not in acts:
            acts[rng.below(nsend)] = 'consume'
        progs = [[f'complete_{ch} {arg}']]
        for i, a in enumerate(acts):
            if rng.below(3) == 0:
                progs[rng.below(len(progs))].append(f'{a} {i}')     # same thread as an earlier op (program order)
            else:
                progs.append([f'{a} {i}'])
        for pr in progs:
            # within one thread the order of completing and consuming/discarding is random too
            for j in range(len(pr) - 1, 0, -1):
                k2 = rng.below(j + 1)
                pr[j], pr[k2] = pr[k2], pr[j]
        lines = [f'case {cid} kind={kind} seed={seed} strat={strat} life=1']
        for t, pr in enumerate(progs):
            lines.append(f'thread {t}: ' + ' ; '.join(pr) + ' ;')
        lines.append('endcase')
        return '\n'.join(lines)
    lines = [f'case {cid} kind={kind} seed={seed} strat={strat}', f'thread 0: complete_{ch} {arg} ;']
    for t in range(ncons):
        lines.append(f'thread {t + 1}: consume {t} ;')
    lines.append('endcase')
    return '\n'.join(lines)


def classify_e1(r):
    line = r['verdict']
    if 'monitors FAIL' in line or '\nend crash' in r['raw']:
        return 'monitor'
    if ' accept ' in line and 'MISMATCH' not in line and 'final status' not in line:
        return 'pass'
    return 'tie'


# ----------------------------------------------------------------------------- harness builds
def compile_cached(name, src, variant, extra):
    """compile_harness, skipped when the binary was built from exactly the same translation unit: the key is the
    hash of the PREPROCESSED source (every pika header, the generated config headers and the harness text are in it),
    the flags and the compiler version - so any change of the tree under test recompiles (fails closed: no key, no
    reuse).  The static tiers take 25-45 s each to compile; with an unchanged tree they are reused."""
    import hashlib
    out = os.path.join(BIN, name)
    keyf = out + '.key'
    flags = pika_flags(variant)
    incs = ' '.join(w for w in flags.split() if w.startswith(('-I', '-D', '-std')))
    pre = sh(f'g++ -E {extra} {os.path.join(HERE, "harness", src)} {incs}')
    key = None
    if pre.returncode == 0:
        ver = sh('g++ --version').stdout
        lib = os.path.join(BUILD, f'pika-{variant}', 'lib', 'libpika.so')
        key = hashlib.sha256((pre.stdout + '\0' + extra + '\0' + flags + '\0' + ver).encode()).hexdigest()
        try:
            if os.path.exists(out) and os.path.exists(lib) and open(keyf).read().strip() == key:
                return True, out, 'cached'
        except OSError:
            pass
    try:
        os.remove(keyf)
    except OSError:
        pass
    ok, hbin, log = compile_harness(name, src, variant, extra)
    if ok and key:
        with open(keyf, 'w') as f:
            f.write(key)
    return ok, hbin, log


# ----------------------------------------------------------------------------- main
def main():
    t0 = time.time()
    tr = tier()
    base_seed, seed = seed_for(PROP)
    rng = Rng(seed)
    replay = None
    for i, a in enumerate(sys.argv):
        if a == '--replay' and i + 1 < len(sys.argv):
            replay = sys.argv[i + 1]
    violations, known_lines = [], []

    # 1. proof obligations
    # Props/C03.lean (term semantics, protocol of the shared state, when_all), Props/C03Life.lean (ownership of
    # the shared state: no touch after release, destroyed exactly once, pinned split_tuple witness) and
    # Props/C03s.lean (payload locations: every payload is read while its operation state is alive)
    # Props/C03w.lean (life cycle of the when_all / when_all_vector operation state: one completion by the last
    # child, no access after the last decrement, destroyed exactly once)
    # Props/C03x.lean (life cycle of the schedule_from operation state: one completion, the denoted one, the forwarding
    # call is the last access, reset precedes it, every stored object destroyed exactly once; swapped-order witness)
    PROPS = ['C03', 'C03Life', 'C03s', 'C03w', 'C03x']
    ok_build, build_log = lean_build(PROPS)
    audit = {'obligations': 0, 'discharged': 0, 'problems': ['lake build failed'], 'theorems': [],
             'checker_cmd': f'cd {LEAN} && lake build'}
    if ok_build:
        audits = [lean_audit(pf, []) for pf in PROPS]
        audit = {'obligations': sum(a['obligations'] for a in audits), 'discharged': sum(a['discharged'] for a in audits),
                 'problems': [x for a in audits for x in a['problems']], 'theorems': [t for a in audits for t in a['theorems']],
                 'checker_cmd': '; '.join(a['checker_cmd'] for a in audits)}
        if tr == 'thorough':
            for m, okc, out in leanchecker([f'PikaVerif.Props.{pf}' for pf in PROPS]):
                if not okc:
                    audit['problems'].append(f'leanchecker {m}: {out}')
    proof_ok = ok_build and not audit['problems'] and audit['obligations'] == audit['discharged'] and audit['obligations'] > 0

    # 2. implementation side
    ok_p, plog = pika_build('hooks')
    builds = {}
    blog = plog
    if ok_p:
        # the ASan variant (touch-after-release of an operation state is a heap-use-after-free: the
        # terminal receiver deletes the operation state inside its completion call) runs in both
        # tiers; the three compiles run side by side
        # C03s: the statically typed tiers are separate binaries of the same source (compile time): e0_snds = REF tier
        # (-DSND_REF), e0_sndp = pure catalogue (-DSND_PURE), each plain and with ASan.  The slow ones go first.
        ASAN = '-O1 -g -fsanitize=address -fno-omit-frame-pointer'
        # (-O0 and no debug info for the static ASan builds: 25 % less compile time, nothing is optimised away; the ASan
        # build of the REF tier has adaptor depth 2 instead of 3 - deeper sub-terms are erased once more often)
        ASAN0 = '-O0 -fsanitize=address -fno-omit-frame-pointer'
        todo = [('e0_sndp_asan', 'e0/snd.cpp', ASAN0 + ' -DSND_PURE -DSND_PURE_SMALL'), ('e0_snds_asan', 'e0/snd.cpp', ASAN0 + ' -DSND_REF -DSND_STATIC_DEPTH=2'),
                ('e0_sndp', 'e0/snd.cpp', '-O1 -DSND_PURE'), ('e0_snds', 'e0/snd.cpp', '-O1 -DSND_REF'),
                ('e0_snd_asan', 'e0/snd.cpp', ASAN), ('e0_snd', 'e0/snd.cpp', '-O1'), ('e1_split', 'e1/split.cpp', '-O1')]
        todo = [t for t in todo if os.path.exists(os.path.join(HERE, 'harness', t[1]))]
        from concurrent.futures import ThreadPoolExecutor
        with ThreadPoolExecutor(max_workers=6) as tp:
            done = list(tp.map(lambda t: (t[0],) + tuple(compile_cached(t[0], t[1], 'hooks', t[2])), todo))
        for name, ok_h, hbin, hlog in done:
            if not ok_h:
                ok_p = False
                blog = hlog
                break
            builds[name] = hbin
    if not ok_p:
        p = write_replay(PROP, f'build-failure-{base_seed}.txt', blog)
        write_evidence(PROP, tr, base_seed, {'obligations': audit['obligations'], 'discharged': audit['discharged'],
                       'checker_cmd': audit['checker_cmd'], 'trusted_base': TRUSTED_BASE,
                       'explanation': 'implementation side failed to build; correspondence could not run'},
                       time.time() - t0, 1)
        finish(PROP, [f'VIOLATION property={PROP} replay={p} no-failing-input-found'], [])

    # 3. correspondence + monitors
    corpus = sorted(glob.glob(os.path.join(HERE, 'corpus', PROP, '*.case')))
    e0_cases, e1_cases = [], []
    if replay:
        txt = open(replay).read()
        try:
            txt = json.loads(txt).get('case', txt)
        except Exception:
            pass
        m = re.search(r'(case .*?endcase)', txt, flags=re.S)
        c = m.group(1) if m else txt
        (e0_cases if ' term=' in c else e1_cases).append(c)
    else:
        for c in corpus:
            txt = open(c).read().strip()
            (e0_cases if ' term=' in txt else e1_cases).append(txt)
        n_corpus_e0 = len(e0_cases)
        n0 = 30000 if tr == 'thorough' else 2000
        n0p = 5000 if tr == 'thorough' else 400
        n1 = 10000 if tr == 'thorough' else 600
        for i in range(n0):
            e0_cases.append(gen_e0(rng, f't{base_seed}n{i}'))
        for i in range(n0p):
            e0_cases.append(gen_e0(rng, f'p{base_seed}n{i}', pool=True))
        # C03s: a third of the E0 cases are statically typed (added, the erased cases above are unchanged): half of
        # them instances of the pure catalogue, half random terms on the REF tier, + pool terms on the REF tier;
        # every E0 corpus case is also run on the REF tier
        for c in e0_cases[:n_corpus_e0]:
            if c.startswith('case ') and ' term=' in c and ' static=' not in c:
                h, rest = c.split('\n', 1) if '\n' in c else (c, 'endcase')
                hid = h.split()[1]
                e0_cases.append(h.replace(f'case {hid} ', f'case {hid}-static ', 1) + ' static=2\n' + rest)
        n0s = 15000 if tr == 'thorough' else 1000
        n0sp = 2000 if tr == 'thorough' else 200
        for i in range(n0s):
            e0_cases.append(gen_e0_static(rng, f'u{base_seed}n{i}'))
        for i in range(n0sp):
            e0_cases.append(gen_e0_static(rng, f'q{base_seed}n{i}', pool=True))
        if 'e1_split' in builds:
            for i in range(n1):
                e1_cases.append(gen_e1(rng, f's{base_seed}n{i}'))
            # C03w (added after everything else: the cases above are unchanged): life cycle of when_all / when_all_vector
            for i in range(3000 if tr == 'thorough' else 250):
                e1_cases.append(gen_e1w(rng, f'w{base_seed}n{i}'))
            # C03x (added after everything else: the cases above are unchanged): life cycle of schedule_from
            for i in range(4000 if tr == 'thorough' else 400):
                e1_cases.append(gen_e1x(rng, f'x{base_seed}s{i}'))

    def run_static(e0s, tag):
        """statically typed E0 cases: static=1 on the pure binary (a term it does not recognise is re-run on the REF
        tier), static=2 on the REF binary; all of them again under ASan except the pool cases"""
        out = []
        is_pool = lambda c: '(p' in c.split('\n')[0]
        for suffix, label, keep in (('', '', lambda c: True), ('_asan', '-asan', lambda c: not is_pool(c))):
            if 'e0_sndp' + suffix not in builds or 'e0_snds' + suffix not in builds:
                continue
            pure = [c for c in e0s if static_mode(c) == 1 and keep(c)]
            ref = [c for c in e0s if static_mode(c) >= 2 and keep(c)]
            if pure:
                res = run_e1(builds['e0_sndp' + suffix], 'snd', pure, jobs=6, tag=PROP + tag + 'pure' + suffix)
                for c, r in zip(pure, res):
                    if 'final nomatch' in r['verdict']:
                        ref.append(c.replace(' static=1', ' static=2', 1))
                    else:
                        out.append((classify_e0(r), c, r, 'E0-static-pure' + label))
            if ref:
                res = run_e1(builds['e0_snds' + suffix], 'snd', ref, jobs=6, tag=PROP + tag + 'ref' + suffix)
                out += [(classify_e0(r), c, r, ('E0-static-pool' if is_pool(c) else 'E0-static-ref') + label) for c, r in zip(ref, res)]
        return out

    def run_all(e0c, e1c, tag):
        out = []
        e0s = [c for c in e0c if static_mode(c) > 0]
        e0c = [c for c in e0c if static_mode(c) == 0]
        if e0s:
            out += run_static(e0s, tag)
        if e0c:
            res = run_e1(builds['e0_snd'], 'snd', e0c, jobs=6, tag=PROP + tag + 'e0')
            out += [(classify_e0(r), c, r, 'E0-pool' if '(p' in c.split('\n')[0] else 'E0') for c, r in zip(e0c, res)]
            if 'e0_snd_asan' in builds:
                # not the pool cases: exceptions thrown on pika's task stacks confuse ASan (false reports)
                sub = [c for c in e0c if '(p' not in c.split('\n')[0]][:4000 if tr == 'thorough' else 600]
                res = run_e1(builds['e0_snd_asan'], 'snd', sub, jobs=6, tag=PROP + tag + 'asan')
                out += [(classify_e0(r), c, r, 'E0-asan') for c, r in zip(sub, res)]
        if e1c and 'e1_split' in builds:
            res = run_e1(builds['e1_split'], 'shared', e1c, jobs=6, tag=PROP + tag + 'e1')
            out += [(classify_e1(r), c, r, 'E1') for c, r in zip(e1c, res)]
        return out

    results = run_all(e0_cases, e1_cases, '')
    kinds = {'pass': 0, 'monitor': 0, 'tie': 0}
    per_engine = {}
    for k, c, r, eng in results:
        kinds[k] += 1
        per_engine.setdefault(eng, {'pass': 0, 'monitor': 0, 'tie': 0})[k] += 1
    bad = [x for x in results if x[0] != 'pass']
    extra_run = 0
    if (not proof_ok or kinds['tie'] > 0) and kinds['monitor'] == 0 and not replay:
        xe0 = [gen_e0(rng, f'x{base_seed}n{i}', pool=(i % 4 == 3)) for i in range(6000)]
        xe0 += [gen_e0_static(rng, f'z{base_seed}n{i}', pool=(i % 8 == 7)) for i in range(3000)]
        xe1 = ([gen_e1(rng, f'y{base_seed}n{i}') for i in range(3000)] + [gen_e1w(rng, f'yw{base_seed}n{i}') for i in range(1500)] + [gen_e1x(rng, f'yx{base_seed}n{i}') for i in range(1500)]) if 'e1_split' in builds else []
        xres = run_all(xe0, xe1, 'x')
        extra_run = len(xres)
        for x in xres:
            if x[0] == 'monitor':
                bad.append(x)
                kinds['monitor'] += 1

    kf = known_findings(PROP)
    mon = [b for b in bad if b[0] == 'monitor']
    ties = [b for b in bad if b[0] == 'tie']
    reported = set()
    if mon:
        mon.sort(key=lambda b: len(b[1]))      # smallest case first: the replay is the shortest witness
        for k, c, r, eng in mon:
            msg = r['verdict'].split('monitors FAIL:')[-1].strip() if 'monitors FAIL' in r['verdict'] else 'crash: ' + r['raw'][-200:].replace('\n', ' ')
            sig = re.sub(r'-?\d+', 'N', msg)[:160]
            if sig in reported:
                continue
            reported.add(sig)
            hit = [f for f in kf if f['signature'] and f['signature'] in sig]
            if hit:
                known_lines.append(f"KNOWN-FINDING: property={PROP} {hit[0]['id']}: {msg[:200]}")
                continue
            p = write_replay(PROP, f'monitor-{base_seed}-{len(reported)}.json',
                             {'property': PROP, 'kind': 'monitor', 'engine': eng, 'what': msg, 'case': c,
                              'impl_history': r['raw'], 'model_verdict': r['verdict'],
                              'rerun_cmd': f'cd {HERE} && ./check {PROP} --replay <this file>'})
            violations.append(f'VIOLATION property={PROP} replay={p}')
    if not violations and (ties or not proof_ok):
        if not proof_ok:
            p = write_replay(PROP, f'proof-{base_seed}.json',
                             {'property': PROP, 'kind': 'proof', 'problems': audit['problems'], 'build_log': build_log[-3000:],
                              'theorems': audit['theorems'], 'searched_cases': len(results) + extra_run})
            violations.append(f'VIOLATION property={PROP} replay={p} no-failing-input-found')
        if ties:
            ties.sort(key=lambda b: len(b[1]))
            k, c, r, eng = ties[0]
            p = write_replay(PROP, f'tie-{base_seed}.json',
                             {'property': PROP, 'kind': 'tie', 'engine': eng,
                              'correspondence': 'E0 and E0-static: harness/e0/snd.cpp lines = Lean model Snd (exec and denotation; static cases of the SndRef fragment also = SndRef.run) / E1: hook-event log of harness/e1/split.cpp (protocol events and every reference-count change sh.ref/sh.unref/sh.free) accepted by Lean model SharedLife over Shared',
                              'first_divergence': r['verdict'], 'case': c, 'impl_history': r['raw'],
                              'diverging_cases': len(ties), 'searched_cases': len(results) + extra_run})
            violations.append(f'VIOLATION property={PROP} replay={p} no-failing-input-found')

    # 4. evidence
    nontriv = set()
    dist = {}
    pure_shapes = set()
    for k, c, r, eng in results:
        if k != 'pass':
            continue
        head = c.split('\n')[0]
        if eng.startswith('E0'):
            term = re.search(r'term=(\S+)', head).group(1)
            ops = re.findall(r'([a-z]+)\(', term)
            if len(ops) >= 3:
                nontriv.add(re.sub(r'^case \S+', 'case', head))
            for o in set(ops):
                dist['op_' + o] = dist.get('op_' + o, 0) + 1
            m = re.search(r'^sig (\w+)', r['raw'], flags=re.M)
            dist['sig_' + (m.group(1) if m else 'none')] = dist.get('sig_' + (m.group(1) if m else 'none'), 0) + 1
            if 'end crash' in r['raw']:
                dist['terminated_by_design'] = dist.get('terminated_by_design', 0) + 1
            # C03s coverage: how many cases ran statically typed, on which tier, with how many erased sub-terms
            m = re.search(r'^xl end tier=(\w+) shape=(-?\d+) holes=(\d+)', r['raw'], flags=re.M)
            if m and m.group(1) != 'erased' and 'asan' not in eng:
                key = 'static_pure' if m.group(1) == 'pure' else ('static_ref_no_hole' if m.group(3) == '0' else 'static_ref_with_holes')
                dist[key] = dist.get(key, 0) + 1
                if m.group(1) == 'pure':
                    pure_shapes.add(m.group(2))
            for w in ('alive', 'null', 'dead'):
                n = len(re.findall(r'^xl exc \S+ ' + w, r['raw'], flags=re.M))
                if n:
                    dist['exception_observations_' + w] = dist.get('exception_observations_' + w, 0) + n
        else:
            raw = r['raw']
            stored_cont = len(re.findall(r' sh\.seen2 \d+ 0 ', raw))
            if stored_cont or ' wa.fin ' in raw:
                nontriv.add(re.sub(r'^case \S+', 'case', c))
            dist['continuation_stored'] = dist.get('continuation_stored', 0) + stored_cont
            dist['flag_seen_under_lock'] = dist.get('flag_seen_under_lock', 0) + len(re.findall(r' sh\.seen2 \d+ 1 ', raw))
            dist['flag_seen_first_read'] = dist.get('flag_seen_first_read', 0) + len(re.findall(r' sh\.seen1 \d+ 1 ', raw))
            inline = 1 if re.search(r'^[1-9]\d* fire\.', raw, flags=re.M) and 'kind=when_all' not in c else 0
            dist['predecessor_completed_inline_in_consumer'] = dist.get('predecessor_completed_inline_in_consumer', 0) + inline
            for key in ('wa.fin', 'wa.latch', 'wa.store', 'wa.zero'):
                dist[key] = dist.get(key, 0) + raw.count(f' {key} ')
    dist['static_pure_distinct_shapes'] = len(pure_shapes)
    samples = (e0_cases[len([c for c in corpus if True]):][:2] + e1_cases[:1]) or (e0_cases + e1_cases)[:2]
    samples += [c for c in e0_cases if ' static=1' in c][:1] + [c for c in e0_cases if ' static=2' in c][:1]
    cov = {
        'obligations': audit['obligations'], 'discharged': audit['discharged'],
        'checker_cmd': audit['checker_cmd'],
        'trusted_base': TRUSTED_BASE + [
            'E0 harness harness/e0/snd.cpp: term parser, instrumented payload type (ledger), probe/glue adaptors, terminal receiver; the Lean-side term parser in lean/Driver/SndDrv.lean',
            'E0-static harness/e0/snd_static.hpp: the catalogue of statically typed shapes (PB<Shape>), the sum-of-senders alt / reference-preserving receiver handle rr of the REF tier, the static leaf, the exception ledger (reads the exception object address out of a libstdc++ exception_ptr), callable tokens',
            'the function language of user callables (add/rev/sum/dup/id/thr/throdd/const) and int-vector payloads stand for arbitrary callables and value types',
        ],
        'evaluations': len(results) + extra_run,
        'distinct_nontrivial': len(nontriv),
        'rule': 'E0-static (C03s): a third of the E0 cases are STATICALLY TYPED pipelines of the same term language with the same expected lines: static=1 = an instance of the pure catalogue (145 shapes: leaves; when_all of 1-3 / when_all_vector / split / ensure_started over leaves; each of then/let_value/let_error/continues_on/unpack/drop_value/require_started/drop_operation_state over a leaf, over just, over each storing predecessor and over each other; drop_operation_state over those; mixed storing shapes), one pika expression connected directly to the typed probe and terminal receiver, no erasure; static=2 = any term on the REF tier (sum types of senders to adaptor depth 3, receivers reached through a handle that forwards references, operation states nested in place; deeper sub-terms and st/bulk/when_all-of-4 are erased once = holes); leaves keep values / exception_ptr in their operation state and complete with references to them, let_value bodies read the predecessor values through the reference when started; error channel over-represented below drop_operation_state / let_error / continues_on; split optionally consumed once before the real consumer connects (spre=1); pool terms on the REF tier; all inline static cases again under ASan. E0: random pipeline terms (2-12 nodes over just/err/stop/arg/schedule/transfer_just/then/let_value/let_error/drop_value/unpack/continues_on/bulk(generic)/require_started/drop_operation_state/when_all/when_all_vector/split/ensure_started/split_tuple, all three channels at leaves and inline schedulers, throwing callables, consumers terminal receiver / start_detached / sync_wait); E0-pool: the same terms with schedule/continues_on/transfer_just on pika thread_pool_scheduler of a running 2-worker runtime (completion on worker threads, ensure_started racing with the consumer, when_all predecessors racing; at most one non-value predecessor per when_all so that the denotation is order independent), results compared modulo placement after the runtime is idle; non-trivial = at least 3 operators, distinct = distinct (term, consumer). E1: split / ensure_started / split_tuple shared state and when_all counter with 2-5 threads under PRNG schedules; non-trivial = a continuation was stored or the counter was decremented concurrently; C03x: schedule_from / let_value / let_error over a manual leaf (counted value type) and a manual scheduler / successor sender: start, completion of the predecessor and completion of the scheduler / successor on own threads, shared threads or one thread in any order (inline completions), all channels, throwing user function / throwing store (let kinds), two thirds with a self-deleting guarded operation state; every statement-level event (store, call, connect, start, reset, forward, destruction of the stored value and of the inner operation state) replayed through the Lean acceptors SchedFromLife / LetLife',
        'samples': samples,
        'traces_validated_against_impl': kinds['pass'],
        'disagreements_checked': kinds['tie'],
        'explanation': f"theorems: {[t[0] for t in audit['theorems']]}; correspondence per engine: {per_engine}; corpus cases {len(corpus)}; extra search cases {extra_run}; distribution {dist}",
    }
    write_evidence(PROP, tr, base_seed, cov, time.time() - t0, len(violations), assumptions=[
        'the Lean term semantics is sequential (completion inline in start); in the E0-pool cases the real completion happens on worker threads and only the observable outcome (signal, consumer result, count, ledger) is compared with it; exhaustive interleavings are covered by the E1 tier for the shared-state adaptors and when_all only',
        'every stage of an erased E0 pipeline is type-erased (unique_any_sender passes values and errors by value, one heap block per stage), so lifetime errors of references into a destroyed predecessor operation state cannot show there; they are the subject of the E0-static cases (C03s): no erasure on the pure catalogue, reference-preserving receiver handles on the REF tier (an adaptor there sees the same reference arguments and the same nesting of operation states as in a fully static pipeline, but not the static type of its receiver), checked by the exception ledger (alive / same object at every read), the payload ledger, callable tokens and ASan, and proved for the fragment leaf/then/require_started/drop_operation_state/when_all(2)/split in Props/C03s.lean',
        'values of the static pipelines are std::vector<P> (copyable, non-trivially destructible, every P in the ledger, moved-from P printed as such); a move-only value type is not used because drop_operation_state / split require copies of values received by reference',
        'sync_wait of a stopped pipeline and start_detached of a failing pipeline terminate the process by design; modelled as termination, not as a violation',
        'non-stdexec build: sends_done is false for every pika adaptor and for any_sender, so when_all_vector / split_tuple over such senders reach PIKA_UNREACHABLE on stopped; the harness puts a glue sender with sends_done=true below them (see notes/C03.md)',
    ])
    print(f"{PROP}: theorems {audit['discharged']}/{audit['obligations']} audited; cases {len(results)} (+{extra_run} extra): {per_engine}; nontrivial distinct {len(nontriv)}; {time.time()-t0:.1f}s")
    finish(PROP, violations, known_lines)


main()
