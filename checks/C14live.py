"""C14, live-runtime tier: harness/e2/stop_live.cpp runs real pika::stop_source / stop_callback objects on the
real scheduler in the two situations the controlled-schedule harness cannot produce (there every logical
thread has an OS thread of its own):
  A  two pika tasks SHARING one worker OS thread (--pika:threads=1): the callback suspends the task that called
     request_stop, another task on the same OS thread destroys that stop_callback -> the destructor has to wait;
  B  one pika task CHANGING its OS thread (--pika:threads=4): the task is stolen by another worker in the middle
     of the callback and destroys its own stop_callback from inside the callback -> the destructor must not wait.
Monitors are computed from observables only; the hang verdict of B is taken from the state (the destructor
decided to wait for a callback that its own pika thread is executing), never from elapsed time.  A run that
does not finish within the generous wall-clock budget, or in which no steal could be provoked, is reported as
inconclusive (a NOTE line), not as a violation."""
import os, sys, re, json, subprocess
from concurrent.futures import ThreadPoolExecutor
sys.path.insert(0, os.path.join(os.path.dirname(os.path.abspath(__file__)), '..', 'tools'))
from vlib import *

# ./check C14 --replay <file> goes through the E1 stage first: a replay file of this tier carries a trivial,
# always-accepted E1 case under 'case' so that only the live run named by 'argv' matters
TRIVIAL_E1_CASE = 'case live0 mode=os ncb=2 seed=1 strat=0\nthread 0: q ;\nthread 1: q ;\nendcase'
CRASH_SIGNALS = {-11: 'SIGSEGV', -6: 'SIGABRT', -7: 'SIGBUS', -8: 'SIGFPE', -4: 'SIGILL'}


def plan(rng, tr):
    """argv lists (without the binary): scenario, seed, max iterations, wanted exercised iterations, budget_s, pika options"""
    if tr == 'thorough':
        runs = [['A', rng.below(1 << 30), 8000, 8000, 900, f'--pika:threads={t}'] for t in (1, 1, 1, 2)]
        runs += [['B', rng.below(1 << 30), 20000, 4000, 900, f'--pika:threads={t}'] for t in (4, 4, 3, 2)]
    else:
        runs = [['A', rng.below(1 << 30), 1000, 1000, 240, '--pika:threads=1'],
                ['B', rng.below(1 << 30), 4000, 400, 240, '--pika:threads=4'],
                ['B', rng.below(1 << 30), 1000, 100, 240, '--pika:threads=2']]
    return runs


def run_one(hbin, argv):
    budget = float(argv[4])
    try:
        h = subprocess.run([hbin] + [str(a) for a in argv], capture_output=True, text=True, errors='replace', timeout=budget + 120)
        out, rc = h.stdout, h.returncode
    except subprocess.TimeoutExpired as e:
        out = (e.stdout or b'').decode(errors='replace') if isinstance(e.stdout, bytes) else (e.stdout or '')
        rc = -999
    summ = [l for l in out.split('\n') if l.startswith('summary ')]
    mons = [l[len('monitor '):] for l in out.split('\n') if l.startswith('monitor ')]
    notes = [l[len('note '):] for l in out.split('\n') if l.startswith('note ')]
    f = dict(kv.split('=', 1) for kv in summ[-1].split()[1:] if '=' in kv) if summ else {}
    status = f.get('status')
    if status is None:
        # no summary line: the process died.  A fatal signal after the runtime had started is a finding;
        # anything else (start-up failure, the check's own time limit) is not a verdict
        if rc in CRASH_SIGNALS and out.startswith('live '):
            status = 'violation'
            mons = [f'crash: {CRASH_SIGNALS[rc]} after: ' + ' | '.join(out.strip().split('\n')[-2:])[-300:]]
        else:
            status = 'inconclusive'
            notes = [f'no summary line (rc={rc}' + (', wall-clock limit of the check' if rc == -999 else '') + '): no verdict']
    return {'argv': argv, 'out': out, 'rc': rc, 'status': status, 'monitors': mons, 'notes': notes, 'fields': f}


def run(ctx):
    prop, tr, base_seed, rng = ctx['prop'], ctx['tier'], ctx['seed'], ctx['rng']
    ok_h, hbin, hlog = compile_harness('e2_stop_live', 'e2/stop_live.cpp')
    if not ok_h:
        p = write_replay(prop, f'build-failure-live-{base_seed}.txt', hlog)
        return {'violations': [f'VIOLATION property={prop} replay={p} no-failing-input-found'], 'explanation': 'live-runtime harness failed to build'}
    if ctx.get('replay'):
        try:
            rp = json.load(open(ctx['replay']))
        except Exception:
            rp = {}
        if not (isinstance(rp, dict) and rp.get('kind') == 'live'):
            return {'violations': [], 'explanation': 'live tier: replay is not a live run'}
        runs = [rp['argv']]
    else:
        runs = plan(rng, tr)
    with ThreadPoolExecutor(max_workers=2) as ex:
        res = list(ex.map(lambda a: run_one(hbin, a), runs))
    viol, reported = [], set()
    tot = {'A': [0, 0], 'B': [0, 0]}
    incon = []
    for r in res:
        f = r['fields']
        sc = r['argv'][0]
        tot[sc][0] += int(f.get('iterations', 0))
        tot[sc][1] += int(f.get('exercised', 0))
        if r['status'] == 'violation':
            what = '; '.join(r['monitors']) or 'monitor failure (no text)'
            sig = re.sub(r'\d+', 'N', what)[:160]
            if sig in reported:
                continue
            reported.add(sig)
            lines = r['out'].strip().split('\n')
            p = write_replay(prop, f'live-{base_seed}-{len(reported)}.json',
                             {'property': prop, 'kind': 'live', 'scenario': sc, 'seed': r['argv'][1], 'threads': r['argv'][5],
                              'what': what, 'argv': r['argv'], 'failing_iteration': next((l for l in reversed(lines) if l.startswith('iter ')), ''),
                              'output_tail': '\n'.join(lines[-12:]), 'case': TRIVIAL_E1_CASE,
                              'rerun_cmd': f'cd {HERE} && ./check {prop} --replay <this file>   (or: {hbin} ' + ' '.join(str(a) for a in r['argv']) + ')'})
            viol.append(f'VIOLATION property={prop} replay={p}')
        elif r['status'] == 'inconclusive':
            msg = f"live tier, scenario {sc} ({r['argv'][5]}): " + ('; '.join(r['notes']) or 'inconclusive')
            incon.append(msg)
            print(f'NOTE: property={prop} {msg}')
    print(f"{prop} live tier: scenario A (pika tasks sharing an OS thread) {tot['A'][1]}/{tot['A'][0]} iterations exercised, "
          f"scenario B (task stolen inside the callback) {tot['B'][1]}/{tot['B'][0]}; "
          f"{sum(1 for r in res if r['status'] == 'violation')} failing run(s), {len(incon)} inconclusive")
    ok_iters = sum(int(r['fields'].get('iterations', 0)) for r in res if r['status'] == 'ok')
    return {'violations': viol, 'evaluations': tot['A'][0] + tot['B'][0], 'validated': ok_iters, 'disagreements': 0,
            'explanation': 'live-runtime monitor runs of harness/e2/stop_live.cpp (real scheduler; 1-4 callbacks per stop state, PRNG-chosen '
                           'bodies/yields/destroyer tasks): scenario A destructor on another pika task of the SAME OS thread while the callback is '
                           f"suspended: {tot['A'][1]} exercised of {tot['A'][0]} iterations; scenario B own stop_callback destroyed inside the callback after the "
                           f"task was stolen to ANOTHER OS thread: {tot['B'][1]} exercised (steal verified by OS thread id) of {tot['B'][0]} iterations; "
                           f'inconclusive runs (no verdict): {incon}'}
