#!/usr/bin/env python3
"""C17 - concurrent queues (lock-free deque + queue back-end adapters): Lean model Deque + theorems
Props/C17.lean, tied by E1 (controlled schedules over the real deque.hpp with hooks)."""
import os, sys
sys.path.insert(0, os.path.join(os.path.dirname(os.path.abspath(__file__)), '..', 'tools'))
import e1check


def gen(rng, cid):
    kind = rng.weighted([('deque', 10), ('lifo', 2), ('abp_fifo', 2), ('abp_lifo', 2), ('fifo', 1)])
    k = rng.weighted([(1, 2), (2, 6), (3, 5), (4, 2)])
    # small value range and a tiny pre-allocated pool: nodes are recycled quickly
    pool = rng.weighted([(1, 2), (2, 3), (4, 2), (8, 1)])
    lines = [f'case {cid} kind={kind} pool={pool} seed={rng.below(1 << 30)} strat={rng.weighted([(0, 5), (1, 3), (2, 3)])}']
    val = 1
    # mostly: the deque holds 0-2 elements (the windows of the algorithm are the empty / one /
    # two element transitions)
    bias = rng.weighted([('mixed', 4), ('opposite', 3), ('same', 1)])
    for t in range(k):
        ops = []
        for _ in range(1 + rng.below(5)):
            push = rng.below(100) < 50
            if kind == 'deque':
                if bias == 'opposite':
                    right = (t % 2 == 1) if push else (t % 2 == 0)
                    if rng.below(5) == 0:
                        right = not right
                elif bias == 'same':
                    right = False
                else:
                    right = rng.below(2) == 1
                if push:
                    ops.append(f'push{"r" if right else "l"} {val}')
                    val += 1
                else:
                    ops.append(f'pop{"r" if right else "l"}')
            else:
                if push:
                    ops.append(f'bpush {val} {rng.below(2)}')
                    val += 1
                else:
                    ops.append(f'bpop {rng.below(2)}')
        lines.append(f'thread {t}: ' + ' ; '.join(ops) + ' ;')
    lines.append('endcase')
    return '\n'.join(lines)


def nontrivial(c, r):
    # non-trivial: some CAS failed (real contention) or a thread helped / ran a stabilisation
    raw = r['raw']
    return ' dq.cas 1 0 0' in raw or ' dq.lcas ' in raw


def stats(c, r):
    raw = r['raw']
    return {'anchor_cas_failed': raw.count(' dq.cas 1 0 0'), 'anchor_cas_ok': raw.count(' dq.cas 1 1 0'),
            'link_cas': raw.count(' dq.lcas '), 'link_cas_failed': raw.count(' dq.lcas 1 0 0'),
            'recheck_failed': raw.count(' dq.chk 1 0 0'), 'allocs': raw.count(' dq.alloc '),
            'stale_link_cas': 1 if 'stale=true' in r['verdict'] else 0,
            'single_thread_cases': 1 if '\nthread 1:' not in c else 0,
            'backend_cases': 0 if 'kind=deque' in c else 1,
            'fifo_spec_cases': 1 if 'kind=fifo' in c else 0}


e1check.run(dict(
    prop='C17', model='deque', harness='e1/deque.cpp', bin='e1_deque', gen=gen, nontrivial=nontrivial, stats=stats,
    findings=[dict(id='aba-link', case='findings/C17-aba-link.case', signature='(duplicate)')],
    quick=3000, thorough=250000, extra=20000, libs='-latomic',
    rule='random programs (1-4 threads, 1-5 ops each over push_left/right, pop_left/right on one deque, or push(v,other_end)/pop(v,steal) on a lifo/abp_fifo/abp_lifo/fifo back-end), freelist pre-allocation 1-8 nodes, PRNG schedules (uniform / priority / sticky) over the hook points before every anchor load/compare/CAS, link load/store/CAS, alloc and free; the container is drained at the end and compared with the model chain; non-trivial = an anchor CAS failed or a stabilisation link CAS ran; distinct = distinct (program, schedule seed) text',
    assumptions=['the contiguous index queue clauses of C17 are covered by Props/C17Index.lean (built with C11), not by this check',
                 'freelist (boost freelist_stack) modelled as an atomic allocate/deallocate of node identities; anchor and link tags modelled as unbounded naturals (16-bit in the code)',
                 'the FIFO back-end wraps the third-party moodycamel ConcurrentQueue: conformance to the bag/FIFO-per-producer specification is tested (monitors), not proved',
                 'C17_deque_conc is refuted for the pinned tree (machine-checked counterexample C17_deque_conc_refuted, replayed on the real code by corpus/C17/aba-link.case, listed in known_findings); the proved concurrent theorems carry the hypothesis that no stabilisation link-CAS succeeds on a recycled node (stale = false)'],
    trusted_extra=['hooks in deque.hpp compute the outcome of each CAS / comparison immediately before the real instruction inside one atomic block of the baton engine'],
))
