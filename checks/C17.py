#!/usr/bin/env python3
"""C17 - concurrent queues (lock-free deque + queue back-end adapters): Lean model Deque + theorems
Props/C17.lean, tied by E1 (controlled schedules over the real deque.hpp with hooks)."""
import json, os, re, subprocess, sys
sys.path.insert(0, os.path.join(os.path.dirname(os.path.abspath(__file__)), '..', 'tools'))
import e1check
from vlib import HERE, BIN, REPO, run_e1, classify, write_replay

# Which tagging discipline does the deque of this tree use?  (follow-up C17s)  The repaired
# alloc_node/push_* keep the link tags across recycling (recycle_tags / next_link, `fix:` commit);
# the model is Deque.stepG true for it, Deque.stepG false for the pinned tree.  The driver picks the
# model from the log itself (the repaired alloc_node logs a `dq.tags` line), this scan only decides
# what the directed ABA schedule is expected to do.
DEQUE_HPP = os.path.join(REPO, 'libs/pika/concurrency/include/pika/concurrency/deque.hpp')
try:
    _src = re.sub(r'//[^\n]*', '', open(DEQUE_HPP).read())
except OSError:
    _src = ''
REPAIRED = 'recycle_tags(chunk' in _src and 'next_link(n->right' in _src and 'next_link(n->left' in _src
ABA_CASE = 'findings/C17-aba-link.case'

# replays written by the FIFO sub-check (checks/C17F.py, real threads over the moodycamel back-end)
# are replayed by that sub-check
for _i, _a in enumerate(sys.argv):
    if _a == '--replay' and _i + 1 < len(sys.argv):
        _is_fifo = 'fifo-' in os.path.basename(sys.argv[_i + 1])
        try:
            _is_fifo = _is_fifo or 'FIFO' in json.load(open(sys.argv[_i + 1])).get('part', '')
        except Exception:
            pass
        if _is_fifo:
            os.execv(sys.executable, [sys.executable, os.path.join(HERE, 'checks', 'C17F.py')] + sys.argv[1:])


def gen(rng, cid):
    kind = rng.weighted([('deque', 10), ('lifo', 2), ('abp_fifo', 2), ('abp_lifo', 2), ('fifo', 1)])
    k = rng.weighted([(1, 2), (2, 6), (3, 5), (4, 2)])
    # small value range and a tiny pre-allocated pool: nodes are recycled quickly
    pool = rng.weighted([(1, 2), (2, 3), (4, 2), (8, 1)])
    lines = [f'case {cid} kind={kind} pool={pool} seed={rng.below(1 << 30)} strat={rng.weighted([(0, 5), (1, 3), (2, 3)])}']
    val = 1
    # mostly: the deque holds 0-2 elements (the windows of the algorithm are the empty / one /
    # two element transitions)
    bias = rng.weighted([('mixed', 4), ('opposite', 3), ('same', 1)])
    for t in range(k):
        ops = []
        for _ in range(1 + rng.below(5)):
            push = rng.below(100) < 50
            if kind == 'deque':
                if bias == 'opposite':
                    right = (t % 2 == 1) if push else (t % 2 == 0)
                    if rng.below(5) == 0:
                        right = not right
                elif bias == 'same':
                    right = False
                else:
                    right = rng.below(2) == 1
                if push:
                    ops.append(f'push{"r" if right else "l"} {val}')
                    val += 1
                else:
                    ops.append(f'pop{"r" if right else "l"}')
            else:
                if push:
                    ops.append(f'bpush {val} {rng.below(2)}')
                    val += 1
                else:
                    ops.append(f'bpop {rng.below(2)}')
        lines.append(f'thread {t}: ' + ' ; '.join(ops) + ' ;')
    lines.append('endcase')
    return '\n'.join(lines)


def nontrivial(c, r):
    # non-trivial: some CAS failed (real contention) or a thread helped / ran a stabilisation
    raw = r['raw']
    return ' dq.cas 1 0 0' in raw or ' dq.lcas ' in raw


def fifo_subcheck(ctx):
    """FIFO back-end (follow-up C17s part 3): real threads over lockfree_fifo_backend / the thread_queue
    counter protocol, judged against the Lean spec QSpec / wrapper model (checks/C17F.py)."""
    if ctx['replay']:
        return {}
    args = [a for a in sys.argv[1:]]
    r = subprocess.run([sys.executable, os.path.join(HERE, 'checks', 'C17F.py')] + args, capture_output=True, text=True, cwd=HERE)
    viol = [l for l in r.stdout.splitlines() if l.startswith('VIOLATION')]
    if r.returncode != 0 and not viol:
        viol = [f'VIOLATION property=C17 replay={HERE}/evidence/C17F.json no-failing-input-found']
        sys.stderr.write(r.stderr[-2000:])
    for l in r.stdout.splitlines():
        if not l.startswith('VIOLATION'):
            print(l)
    out = {'violations': viol, 'explanation': 'FIFO sub-check: ' + (r.stdout.strip().splitlines() or ['no output'])[0][:300]}
    try:
        cov = json.load(open(os.path.join(HERE, 'evidence', 'C17F.json')))['coverage']
        out.update(evaluations=cov.get('evaluations', 0), validated=cov.get('traces_validated_against_impl', 0),
                   disagreements=cov.get('disagreements_checked', 0))
    except Exception:
        pass
    return out


U32 = 1 << 32


def gen_ciq(rng, cid):
    """random pop_left / pop_right programs on one contiguous_index_queue (same grammar as checks/C11.py)"""
    k = rng.weighted([(1, 1), (2, 4), (3, 4), (4, 2)])
    size = rng.weighted([(0, 1), (1, 3), (2, 3), (3, 3), (5, 3), (8, 2), (13, 1)])
    first = rng.weighted([(0, 4), (rng.below(1000), 3), (U32 - 1 - size - rng.below(3), 2), (rng.below(U32 - 100), 1)])
    lines = [f'case {cid} first={first} last={first + size} seed={rng.below(1 << 30)} strat={rng.weighted([(0, 5), (1, 3), (2, 2)])}']
    for t in range(k):
        ops = [rng.weighted([('popl', 3), ('popr', 3)]) for _ in range(1 + rng.below(5))]
        if rng.below(3) == 0:
            ops = [ops[0]] * len(ops)
        lines.append(f'thread {t}: ' + ' ; '.join(ops) + ' ;')
    lines.append('endcase')
    return '\n'.join(lines)


def iq_subcheck(ctx):
    """contiguous index queue (the third container C17 names): E1 controlled schedules of the real
    contiguous_index_queue.hpp replayed through the Lean acceptor `iq` (theorems Props/C17Index.lean)."""
    from vlib import compile_harness
    ok, hbin, hlog = compile_harness('e1_ciq', 'e1/ciq.cpp', 'hooks', '-O1')
    if not ok:
        p = write_replay('C17', f"iq-build-failure-{ctx['seed']}.txt", hlog)
        return {'violations': [f'VIOLATION property=C17 replay={p} no-failing-input-found'], 'explanation': 'index queue harness failed to build'}
    if ctx['replay']:
        return {}
    n = 20000 if ctx['tier'] == 'thorough' else 1500
    cases = [gen_ciq(ctx['rng'], f"iq{ctx['seed']}n{i}") for i in range(n)]
    res = run_e1(hbin, 'iq', cases, tag='C17iq')
    bad = [(classify(r), c, r) for c, r in zip(cases, res) if classify(r) != 'pass']
    out = {'evaluations': n, 'validated': n - len(bad), 'disagreements': len([b for b in bad if b[0] == 'tie']),
           'explanation': f'index queue sub-check: {n} E1 cases, {len(bad)} not accepted; cases with a failed CAS: ' + str(sum(1 for r in res if ' ciq.cas ' in r['raw']))}
    viol = []
    mon = [b for b in bad if b[0] == 'monitor']
    pick = (mon or bad)[:1]
    for k, c, r in pick:
        what = r['verdict'].split('monitors FAIL:')[-1].strip() if 'monitors FAIL' in r['verdict'] else r['verdict']
        p = write_replay('C17', f"iq-{k}-{ctx['seed']}.json", {'property': 'C17', 'kind': k, 'part': 'index queue', 'what': what, 'case': c,
                         'impl_history': r['raw'], 'model_verdict': r['verdict'], 'not_accepted': len(bad),
                         'rerun_cmd': f'cd {HERE} && ./check C11 --replay <this file>'})
        viol.append(f'VIOLATION property=C17 replay={p}' + ('' if k == 'monitor' else ' no-failing-input-found'))
    out['violations'] = viol
    return out


def extras(ctx):
    a, f = aba_regression(ctx), fifo_subcheck(ctx)
    q = iq_subcheck(ctx)
    a = {'violations': a.get('violations', []) + q.get('violations', []), 'evaluations': a.get('evaluations', 0) + q.get('evaluations', 0),
         'validated': a.get('validated', 0) + q.get('validated', 0), 'disagreements': a.get('disagreements', 0) + q.get('disagreements', 0),
         'explanation': '; '.join(x for x in (a.get('explanation', ''), q.get('explanation', '')) if x)}
    return {'violations': a.get('violations', []) + f.get('violations', []),
            'evaluations': a.get('evaluations', 0) + f.get('evaluations', 0),
            'validated': a.get('validated', 0) + f.get('validated', 0),
            'disagreements': a.get('disagreements', 0) + f.get('disagreements', 0),
            'explanation': '; '.join(x for x in (a.get('explanation', ''), f.get('explanation', '')) if x)}


def aba_regression(ctx):
    """Repaired tree: the directed schedule of the ABA finding must be accepted by the repaired model,
    end with every value delivered exactly once, and thread 0's late link CAS must FAIL."""
    if ctx['replay'] or not REPAIRED:
        return {}
    case = open(os.path.join(HERE, ABA_CASE)).read().strip()
    r = run_e1(os.path.join(BIN, 'e1_deque'), 'deque', [case], tag='C17aba')[0]
    late = [l for l in r['raw'].split('\n') if ' dq.lcas ' in l and l.split()[0] == '0']
    ok = classify(r) == 'pass' and 'tags=keep' in r['verdict'] and late and all(' dq.lcas 1 0 0' in l for l in late)
    out = {'evaluations': 1, 'validated': 1 if ok else 0, 'disagreements': 0 if ok else 1,
           'explanation': f"directed ABA schedule {ABA_CASE} on the repaired tree: {r['verdict'][:160]}; late link CAS of thread 0: {late}"}
    if not ok:
        p = write_replay('C17', f"aba-regression-{ctx['seed']}.json",
                         {'property': 'C17', 'kind': 'monitor', 'what': 'the directed ABA schedule (link CAS on a recycled node) is not rejected by the code: ' + r['verdict'],
                          'case': case, 'impl_history': r['raw'], 'model_verdict': r['verdict'],
                          'rerun_cmd': f'cd {HERE} && ./check C17 --replay {ABA_CASE}'})
        out['violations'] = [f'VIOLATION property=C17 replay={p}' + ('' if classify(r) == 'monitor' else ' no-failing-input-found')]
    return out


def stats(c, r):
    raw = r['raw']
    # follow-up C17t: solo monitor (operations during which no other thread produced an event are
    # checked against Deque.soloBound and the answer of C17_deque_solo_bound)
    _m = re.search(r'solo=(\d+)/(\d+) solomax=(\d+)/(\d+)', r['verdict'])
    _solo = [int(x) for x in _m.groups()] if _m else [0, 0, 0, 0]
    return {'solo_ops_checked': _solo[0], 'solo_ops_with_a_stalled_thread': _solo[1],
            'solo_push_at_bound_19': 1 if _solo[2] == 19 else 0, 'solo_pop_at_bound_14': 1 if _solo[3] == 14 else 0,
            'tags_keep_cases': 1 if 'tags=keep' in r['verdict'] else 0,
            'tag_lines': raw.count(' dq.tags '),'anchor_cas_failed': raw.count(' dq.cas 1 0 0'), 'anchor_cas_ok': raw.count(' dq.cas 1 1 0'),
            'link_cas': raw.count(' dq.lcas '), 'link_cas_failed': raw.count(' dq.lcas 1 0 0'),
            'recheck_failed': raw.count(' dq.chk 1 0 0'), 'allocs': raw.count(' dq.alloc '),
            'stale_link_cas': 1 if 'stale=true' in r['verdict'] else 0,
            'single_thread_cases': 1 if '\nthread 1:' not in c else 0,
            'backend_cases': 0 if 'kind=deque' in c else 1,
            'fifo_spec_cases': 1 if 'kind=fifo' in c else 0}


e1check.run(dict(
    prop='C17', model='deque', harness='e1/deque.cpp', bin='e1_deque', gen=gen, nontrivial=nontrivial, stats=stats,
    # pinned tree: the documented finding is replayed and reported as KNOWN-FINDING; repaired tree:
    # the same directed schedule is a regression test (aba_regression)
    findings=([] if REPAIRED else [dict(id='aba-link', case=ABA_CASE, signature='(duplicate)')]),
    extra_check=extras,
    props=['C17', 'C17Fifo', 'C17Index', 'C17Solo', 'C17IndexSolo'],
    quick=3000, thorough=250000, extra=20000, libs='-latomic',
    rule='random programs (1-4 threads, 1-5 ops each over push_left/right, pop_left/right on one deque, or push(v,other_end)/pop(v,steal) on a lifo/abp_fifo/abp_lifo/fifo back-end), freelist pre-allocation 1-8 nodes, PRNG schedules (uniform / priority / sticky) over the hook points before every anchor load/compare/CAS, link load/store/CAS, alloc and free; the container is drained at the end and compared with the model chain; non-trivial = an anchor CAS failed or a stabilisation link CAS ran; distinct = distinct (program, schedule seed) text',
    assumptions=['the contiguous index queue clauses of C17 are covered by Props/C17Index.lean, audited here, and by an E1 sub-check of the real contiguous_index_queue.hpp against the acceptor `iq` (the same tie also runs in C11)',
                 'freelist (boost freelist_stack) modelled as an atomic allocate/deallocate of node identities; anchor and link tags modelled as unbounded naturals (16-bit in the code)',
                 'the FIFO back-end wraps the third-party moodycamel ConcurrentQueue: its algorithm is an assumption, stated as the Lean spec Fifo.QSpec (at-most-once pop per push, a pop that nothing overlaps succeeds on a non-empty queue, per-producer FIFO when no other dequeue is in flight) and tested on the real queue with real threads (checks/C17F.py); the wrapper (lockfree_fifo_backend, thread_queue counter protocol, move loop) is proved to preserve the spec (Props/C17Fifo.lean)',
                 ('this tree carries the repair of the link-tag ABA (alloc_node/push_* keep the link tags across recycling): the unrestricted theorems C17_deque_fixed_* apply (model Deque.stepG true); the directed schedule of the finding is replayed as a regression and thread 0\'s late link CAS must fail'
                  if REPAIRED else
                  'C17_deque_conc is refuted for the pinned tree (machine-checked counterexample C17_deque_conc_refuted, replayed on the real code by findings/C17-aba-link.case, listed in known_findings); the concurrent theorems for the pinned tree carry a hypothesis on the log: no stale link CAS on a live link (harmFreeB, weakest), implied by stale = false, implied by NoRecycledCas (no link CAS succeeds on a node freed under the snapshot)'),
                 'solo termination (Props/C17Solo.lean, Props/C17IndexSolo.lean) is proved as existence of the bounded solo run from every reachable state with the thread between operations; that the accepted solo run is unique (up to the identity of the allocated node) is not proved - the driver\'s solo monitor tests the bound Deque.soloBound and the answer on every operation of the real runs that no other thread interleaved with',
                 'the repaired model assumes of the freelist that a free node keeps the tag bits of its first word (boost freelist_stack: tagged_ptr::set_ptr) and that fresh memory is zero-filled; both are checked on every run by the acceptor (tags of every link load) and the dq.tags monitor'],
    trusted_extra=['hooks in deque.hpp compute the outcome of each CAS / comparison immediately before the real instruction inside one atomic block of the baton engine'],
))
