#!/usr/bin/env python3
"""C17F - C17, FIFO back-end: Lean spec QSpec of the third-party moodycamel queue + model of
lockfree_fifo_backend / thread_queue's counter protocol (Model/Fifo.lean, theorems Props/C17Fifo.lean),
tied to the real queue by harness/e0/fifo.cpp (REAL threads, no baton) and Driver/FifoDrv.lean.

Stand-alone: python3 checks/C17F.py [--tier quick|thorough] [--replay file]; also called by checks/C17.py.
Reports under property C17 (replays in replays/C17/fifo-*), evidence in evidence/C17F.json."""
import os, sys, time, json, re, glob, subprocess
sys.path.insert(0, os.path.join(os.path.dirname(os.path.abspath(__file__)), '..', 'tools'))
from vlib import *

PROP = 'C17'            # property reported
SUB = 'C17F'            # evidence / seed stream
PROPS_FILE = 'C17Fifo'  # lean/PikaVerif/Props/C17Fifo.lean
JOBS = 4

COUNTS = [1, 2, 5, 31, 32, 33, 63, 64, 65, 100, 257, 1000]

TRUSTED = [
    TRUSTED_BASE[0],
    "the algorithm of the third-party moodycamel::ConcurrentQueue is NOT modelled: its behaviour is an assumption written down as the Lean specification QSpec (Model/Fifo.lean: at-most-once, nothing invented, per-producer FIFO, a pop that no operation overlaps fails only on an empty queue) and only TESTED against the real queue by this check (finite, counts below)",
    "the counter protocol of thread_queue (schedule_thread / get_next_thread / move_work_items_from) is modelled by hand at the granularity of its atomic steps; harness mode 1 re-implements it verbatim around the real back-end (source lines quoted in harness/e0/fifo.cpp) - thread_queue.hpp itself is not executed by this check (it is by C01/C02's E2 engine)",
    "harness harness/e0/fifo.cpp (real OS threads; stamps from one global atomic counter before/after every inner operation; counter operations stamped under a lock), merge by stamp, parser and monitors in lean/Driver/FifoDrv.lean",
    "the real interleaving inside the queue is not observable: only the interval-order consequences of QSpec are checked; weak-memory effects are exercised only as far as this machine produces them",
]


def pick_count(rng, budget):
    c = [x for x in COUNTS if x <= budget] or [1]
    return rng.choice(c)


def gen_growth(rng, cid):
    """one producer whose index ring has already advanced (blocks consumed earlier) builds a backlog of more than
    1024 outstanding elements (32 blocks of 32): the producer's block index has to grow while it is wrapped"""
    k = rng.choice([32, 40, 64, 100, 333])
    n = rng.choice([1100, 1500, 2100, 3000])
    threads = [f'mixprod {k} {n}']
    for _ in range(rng.weighted([(0, 3), (1, 2), (3, 1)])):
        threads.append('cons')
    if rng.below(3) == 0:
        threads.append(f'prod {rng.choice([5, 33, 100])}')
    for i in range(len(threads) - 1, 0, -1):
        j = rng.below(i + 1)
        threads[i], threads[j] = threads[j], threads[i]
    hdr = f'case {cid} mode=0 init={rng.choice([0, 32, 128])} pre=0 lim=0 oe={rng.below(2)} jit={rng.below(1 << 30) if rng.below(2) else 0}'
    return hdr + '\n' + '\n'.join(f'thread {i}: {t} ;' for i, t in enumerate(threads)) + '\nendcase'


def gen(rng, cid, big=False):
    if rng.below(12) == 0:
        return gen_growth(rng, cid)
    mode = rng.below(2)
    nprod = 1 + rng.below(4)
    ncons = rng.weighted([(0, 1), (1, 3), (2, 3), (3, 2), (4, 1)])
    budget = (4000 if big else 420)
    threads = []
    for _ in range(nprod):
        n = pick_count(rng, max(1, budget))
        budget -= n
        kind = 'mix' if rng.below(4) == 0 else 'prod'
        threads.append(f'{kind} {n}')
    for _ in range(ncons):
        kind = 'ucons' if (mode == 1 and rng.below(3) == 0) else 'cons'
        k = rng.choice([0, 0, 0, 1, 7, 32, 40])
        threads.append(f'{kind} {k}' if k else kind)
    # shuffle thread order (thread ids decide the implicit-producer hash slot)
    for i in range(len(threads) - 1, 0, -1):
        j = rng.below(i + 1)
        threads[i], threads[j] = threads[j], threads[i]
    init = rng.choice([0, 0, 1, 31, 32, 33, 128, 1024])
    pre = rng.choice([0, 0, 0, 1, 31, 32, 33, 65])
    lim = rng.choice([0, 0, 0, 1, 3]) if mode == 1 else 0
    oe = rng.below(2)
    jit = rng.below(1 << 30) if rng.below(4) != 0 else 0
    hdr = f'case {cid} mode={mode} init={init} pre={pre} lim={lim} oe={oe} jit={jit}'
    return hdr + '\n' + '\n'.join(f'thread {i}: {t} ;' for i, t in enumerate(threads)) + '\nendcase'


def stat(r, key):
    m = re.search(r'\b' + key + r'=(\d+)', r['verdict'])
    return int(m.group(1)) if m else 0


def main():
    t0 = time.time()
    tr = tier()
    base_seed, seed = seed_for(SUB)
    rng = Rng(seed)
    replay = None
    for i, a in enumerate(sys.argv):
        if a == '--replay' and i + 1 < len(sys.argv):
            replay = sys.argv[i + 1]
    violations = []

    # 1. proof obligations ---------------------------------------------------------------
    ok_build, build_log = lean_build(PROPS_FILE)
    audit = {'obligations': 0, 'discharged': 0, 'problems': ['lake build failed'], 'theorems': [],
             'checker_cmd': f'cd {LEAN} && lake build PikaVerif.Props.{PROPS_FILE} driver'}
    if ok_build:
        audit = lean_audit(PROPS_FILE, [])
        if tr == 'thorough':
            for m, okc, out in leanchecker([f'PikaVerif.Props.{PROPS_FILE}']):
                if not okc:
                    audit['problems'].append(f'leanchecker {m}: {out}')
    proof_ok = ok_build and not audit['problems'] and audit['obligations'] == audit['discharged'] and audit['obligations'] > 0

    # 2. implementation side: the code under test is header-only (lockfree_queue_backends.hpp +
    #    concurrentqueue.hpp); the harness is recompiled against the current headers on every run.
    #    libpika is only needed for its generated configuration headers / to satisfy the link line.
    ok_p, plog = True, ''
    if not os.path.exists(os.path.join(BUILD, 'pika-hooks', 'lib', 'libpika.so')):
        ok_p, plog = pika_build('hooks')
    ok_h, hbin, hlog = (False, '', '')
    if ok_p:
        ok_h, hbin, hlog = compile_harness('e0_fifo', 'e0/fifo.cpp', 'hooks', extra='-O2 -pthread')
    if not (ok_p and ok_h):
        p = write_replay(PROP, f'fifo-build-failure-{base_seed}.txt', (plog if not ok_p else hlog))
        write_evidence(SUB, tr, base_seed, {'obligations': audit['obligations'], 'discharged': audit['discharged'],
                       'checker_cmd': audit['checker_cmd'], 'trusted_base': TRUSTED,
                       'explanation': 'implementation side failed to build; correspondence could not run'},
                       time.time() - t0, 1)
        finish(PROP, [f'VIOLATION property={PROP} replay={p} no-failing-input-found'], [])

    # 3. correspondence + monitors ---------------------------------------------------------
    driver = os.path.join(LEAN, '.lake', 'build', 'bin', 'driver')
    cases = []
    recorded = None
    corpus = sorted(glob.glob(os.path.join(HERE, 'corpus', SUB, '*.case')))
    if replay:
        txt = open(replay).read()
        try:
            js = json.loads(txt)
            txt = js.get('case', txt)
            recorded = js.get('impl_history')
        except ValueError:
            pass
        one = [m.strip() for m in re.findall(r'(case .*?endcase)', txt, flags=re.S)] or [txt]
        # real threads: a racy failure need not reproduce in one run - run every case 40 times
        for c in one:
            lines = c.split('\n')
            hd = lines[0].split()
            body = [l for l in lines[1:] if l.startswith('thread ')]
            for k in range(40):
                cases.append(' '.join([hd[0], f'{hd[1]}r{k}'] + hd[2:]) + '\n' + '\n'.join(body) + '\nendcase')
    else:
        for c in corpus:
            cases.append(open(c).read().strip())
        n = 20000 if tr == 'thorough' else 300
        for i in range(n):
            cases.append(gen(rng, f's{base_seed}n{i}', big=(tr == 'thorough' and i % 4 == 0)))
    results = run_e1(hbin, 'fifo', cases, jobs=JOBS, tag=SUB)
    if recorded:
        # deterministic part of a replay: the recorded history is judged again by the driver
        d = subprocess.run([driver, 'fifo'], input=recorded + '\n', capture_output=True, text=True)
        line = next((l for l in d.stdout.split('\n') if l.startswith('case ')), 'case recorded reject 0 [no-output]')
        # informational only: the verdict of --replay is what the CURRENT tree does in the 40 re-runs
        print(f'{SUB}: recorded history of the replay file (re-judged, informational): {line[:400]}')
    kinds = {'pass': 0, 'monitor': 0, 'tie': 0}
    bad = []
    for c, r in zip(cases, results):
        k = classify(r)
        kinds[k] += 1
        if k != 'pass':
            bad.append((k, c, r))
    extra_run = 0
    if (not proof_ok or kinds['tie'] > 0) and kinds['monitor'] == 0 and not replay:
        ecases = [gen(rng, f'x{base_seed}n{i}', big=(i % 4 == 0)) for i in range(1500)]
        eres = run_e1(hbin, 'fifo', ecases, jobs=JOBS, tag=SUB + 'x')
        extra_run = len(ecases)
        for c, r in zip(ecases, eres):
            if classify(r) == 'monitor':
                bad.append(('monitor', c, r))
                kinds['monitor'] += 1

    mon = [b for b in bad if b[0] == 'monitor']
    ties = [b for b in bad if b[0] == 'tie']
    reported = set()
    for k, c, r in mon:
        msg = r['verdict'].split('monitors FAIL:')[-1].strip() if 'monitors FAIL' in r['verdict'] else 'crash: ' + r['raw'][-200:].replace('\n', ' ')
        sig = re.sub(r'\[[^\]]*\]', '[..]', re.sub(r'-?\d+', 'N', msg.split(' | ')[0]))[:160]
        if sig in reported:
            continue
        reported.add(sig)
        if len(violations) >= 4:
            continue
        p = replay if replay else write_replay(PROP, f'fifo-monitor-{base_seed}-{len(reported)}.json',
                         {'property': PROP, 'part': 'FIFO back-end (C17F)', 'kind': 'monitor', 'what': msg, 'case': c,
                          'impl_history': r['raw'], 'model_verdict': r['verdict'],
                          'note': 'real threads: the recorded history is re-judged deterministically by --replay; the case itself is re-run 40 times',
                          'rerun_cmd': f'cd {HERE} && python3 checks/C17F.py --replay <this file>'})
        violations.append(f'VIOLATION property={PROP} replay={p}')
    if not violations and (ties or not proof_ok):
        if not proof_ok:
            p = write_replay(PROP, f'fifo-proof-{base_seed}.json',
                             {'property': PROP, 'kind': 'proof', 'problems': audit['problems'], 'build_log': build_log[-3000:],
                              'theorems': audit['theorems'], 'searched_cases': len(cases) + extra_run})
            violations.append(f'VIOLATION property={PROP} replay={p} no-failing-input-found')
        if ties:
            k, c, r = ties[0]
            p = replay if replay else write_replay(PROP, f'fifo-tie-{base_seed}.json',
                             {'property': PROP, 'kind': 'tie',
                              'correspondence': 'stamp-ordered log of harness/e0/fifo.cpp accepted by the Lean acceptor (QSpec / wrapper model Fifo.step)',
                              'first_divergence': r['verdict'], 'case': c, 'impl_history': r['raw'],
                              'diverging_cases': len(ties), 'searched_cases': len(cases) + extra_run})
            violations.append(f'VIOLATION property={PROP} replay={p} no-failing-input-found')

    # 3b. monitor-only tier: producer-thread churn on the real back-end (threads that produced exit, new threads produce
    # concurrently while older producers are still alive); verdict from the drained values only
    churn_info = 'not run'
    if not replay:
        ok_c, cbin, clog = compile_harness('e0_fifo_churn', 'e0/fifo_churn.cpp', 'hooks')
        if not ok_c:
            p = write_replay(PROP, f'fifo-churn-build-{base_seed}.txt', clog)
            violations.append(f'VIOLATION property={PROP} replay={p} no-failing-input-found')
        else:
            runs_c = [(24, 16, 4000), (16, 8, 20000), (28, 24, 1500)] * (6 if tr == 'thorough' else 2)
            # batch consumers on the raw queue: (rounds, consumers, items, producers)
            runs_c += [('bulk', 4, 6, 100000, 1), ('bulk', 3, 8, 60000, 2), ('bulk', 3, 5, 80000, 3)] * (4 if tr == 'thorough' else 1)
            # producer-token sub-queues: (rounds, items)
            runs_c += [('token', 4, 20000), ('token', 3, 50000)] * (4 if tr == 'thorough' else 1)
            outs = []
            for a in runs_c:
                try:
                    r = subprocess.run([cbin] + [str(x) for x in a], capture_output=True, text=True, timeout=600)
                    outs.append((a, r.stdout.strip().split('\n')[-1] if r.stdout.strip() else f'no output rc={r.returncode}'))
                except subprocess.TimeoutExpired:
                    outs.append((a, 'no verdict (wall-clock limit of the check)'))
            bad_c = [(a, o) for a, o in outs if o.startswith('churn FAIL') or o.startswith('no output')]
            churn_info = f"{len(outs)} runs, {len(bad_c)} failing; last: {outs[-1][1]}"
            if bad_c:
                p = write_replay(PROP, f'fifo-churn-{base_seed}.json', {'property': PROP, 'kind': 'monitor', 'part': 'FIFO churn',
                                 'what': 'producer-thread churn on lockfree_fifo_backend: ' + bad_c[0][1], 'argv': list(bad_c[0][0]),
                                 'all_failing': [o for _, o in bad_c], 'rerun_cmd': f'{cbin} ' + ' '.join(str(x) for x in bad_c[0][0])})
                violations.append(f'VIOLATION property={PROP} replay={p}')

    # 4. evidence ----------------------------------------------------------------------------
    dist = {'ops': 0, 'pushed': 0, 'failedpops': 0, 'overlapped': 0, 'drained': 0}
    nontriv = 0
    modes = {'backend': 0, 'counter_protocol': 0}
    for c, r in zip(cases, results):
        for key in dist:
            dist[key] += stat(r, key)
        if classify(r) == 'pass' and stat(r, 'overlapped') > 0:
            nontriv += 1
        modes['counter_protocol' if ' mode=1 ' in c.split('\n')[0] + ' ' else 'backend'] += 1
    cov = {
        'obligations': audit['obligations'], 'discharged': audit['discharged'],
        'checker_cmd': audit['checker_cmd'], 'trusted_base': TRUSTED,
        'evaluations': len(cases) + extra_run,
        'distinct_nontrivial': nontriv,
        'rule': 'random cases: mode (back-end alone / counter protocol around it), 1-4 producers (prod or mix = push+pop alternating) x 0-4 consumers (cons, ucons = unguarded pop of the move loop, optionally stopping after K pops), per-producer counts from {1,2,5,31,32,33,63,64,65,100,257,1000} (moodycamel BLOCK_SIZE 32, index sizes 32/64), initial_size from {0,1,31,32,33,128,1024}, single-threaded prefill from {0,1,31,32,33,65}, steal threshold, other_end/steal flag, timing jitter seed; non-trivial = accepted run in which at least one operation began while another was in flight',
        'samples': cases[len(corpus):len(corpus) + 2] or cases[:2],
        'traces_validated_against_impl': kinds['pass'],
        'disagreements_checked': kinds['tie'],
        'explanation': f"theorems: {[t[0] for t in audit['theorems']]}; correspondence: {kinds}; modes {modes}; totals {dist}; corpus cases {len(corpus)}; extra search cases {extra_run}; churn tier (monitor only): {churn_info}",
    }
    write_evidence(SUB, tr, base_seed, cov, time.time() - t0, len(violations),
                   assumptions=['moodycamel::ConcurrentQueue satisfies QSpec (tested, not proved)',
                                'enqueue never fails (it returns false only when memory allocation fails; pika ignores the result)',
                                'sequentially consistent interleavings of the wrapper\'s atomic steps (the counter is a std::atomic; its relaxed load only matters for the value read, which the model leaves to the interleaving)'])
    print(f"{SUB}: theorems {audit['discharged']}/{audit['obligations']} audited; real-thread histories {len(cases)} (+{extra_run} extra): {kinds}; with overlapping operations {nontriv}; totals {dist}; {time.time()-t0:.1f}s")
    finish(PROP, violations, [])


if __name__ == '__main__':
    main()
