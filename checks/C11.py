#!/usr/bin/env python3
"""C11 - bulk calls f once per index, then completes once.

Proof obligations: Props/C11.lean (generated arithmetic: partition theorems, counterexamples),
Props/C17Index.lean (index queue, all interleavings), Props/C11Proto.lean (worker / join-counter
protocol), Props/C11c.lean (follow-up C11c: the COMPOSED model - plan from the generated arithmetic,
index-queue load/CAS steps, index loop with the value pack, exception slot, completion; end-to-end
theorems under Safe), Props/C11Progress.lean (follow-up C11p: no stuck state, termination measure and
explicit length bound, exactly one completion at the end of every maximal run, n = 0 immediate; also for the
protocol model) - all over models whose arithmetic is REGENERATED from the C++ source by
tools/translate/bulk_arith.py on every run.
Ties: (a) T-gen; (b) E1 controlled schedules of the real contiguous_index_queue replayed through
the Lean acceptor `iq`; (c) E0 differential execution of the real get_chunk_size / init_queue /
do_work_chunk against the generated functions; (d) live runs of the real bulk (two thread pools):
plan + chunk events compared with the model, trace replayed through the protocol acceptor and
(C11c) through the composed acceptor BulkC (every call of f with index and value token, every load /
compare-exchange of the index queues, throws, the completion with its token),
independent monitors on per-index counters and the receiver's signals.
"""
import os, sys, time, json, re, glob
sys.path.insert(0, os.path.join(os.path.dirname(os.path.abspath(__file__)), '..', 'tools'))
from vlib import *

PROP = 'C11'
PROPS = ['C11', 'C17Index', 'C11Proto', 'C11c', 'C11Progress']
JOBS = 6
U32, U64 = 1 << 32, 1 << 64
SH = {0: (32, True), 1: (32, False), 2: (64, True), 3: (64, False)}


def s64(x):
    x &= U64 - 1
    return x - U64 if x >= 1 << 63 else x


def shape_max(code):
    b, sg = SH[code]
    return (1 << (b - 1)) - 1 if sg else (1 << b) - 1


def predicts_hang(w, n):
    """Budgeting only (never used for a verdict): does the pinned 32-bit loop spin for ever?"""
    c, n32, w = 1, n % U32, w % U32
    for _ in range(40):
        if (c * w * 8) % U32 < n32:
            c = (c * 2) % U32
        else:
            return False
    return True


# ----------------------------------------------------------------------------- generators
def gen_ciq(rng, cid):
    k = rng.weighted([(1, 1), (2, 4), (3, 4), (4, 2)])
    size = rng.weighted([(0, 1), (1, 2), (2, 3), (3, 3), (5, 3), (8, 2), (13, 1)])
    first = rng.weighted([(0, 4), (rng.below(1000), 3), (U32 - 1 - size - rng.below(3), 2), (rng.below(U32 - 100), 1)])
    lines = [f'case {cid} first={first} last={first + size} seed={rng.below(1 << 30)} strat={rng.weighted([(0, 5), (1, 3), (2, 2)])}']
    for t in range(k):
        ops = [rng.weighted([('popl', 3), ('popr', 3)]) for _ in range(1 + rng.below(5))]
        if rng.below(3) == 0:
            ops = [ops[0]] * len(ops)
        lines.append(f'thread {t}: ' + ' ; '.join(ops) + ' ;')
    lines.append('endcase')
    return '\n'.join(lines)


def boundary_n(rng, w, code):
    mx = shape_max(code)
    cands = [0, 1, 2, w - 1, w, w + 1, 8 * w - 1, 8 * w, 8 * w + 1,
             (1 << 31) - 1, 1 << 31, (1 << 31) + 1, U32 - 1, U32, U32 + 1, U32 + 5, mx, mx - 1]
    k = rng.below(24)
    cands += [w * 8 * (1 << k) - 1, w * 8 * (1 << k), w * 8 * (1 << k) + 1]
    cands += [rng.below(1000), rng.below(1 << 20), rng.below(1 << 31), rng.below(U32), rng.below(1 << 40), rng.below(mx + 1)]
    n = rng.choice(cands)
    return max(0, min(n, mx))


def gen_arith(rng, cid, budget):
    """One case = ~50 direct calls of the real functions. budget = [hang inputs still allowed]."""
    ops = []
    while len(ops) < 50:
        kind = rng.weighted([('gcs', 4), ('iq', 3), ('chunk', 4)])
        code = rng.below(4)
        w = rng.weighted([(1 + rng.below(16), 6), (rng.choice([32, 64, 128, 1000, 4096, 16384, 65536]), 2),
                          (rng.below(U32) + 1, 1)])
        if kind == 'gcs':
            n = boundary_n(rng, w, code)
            if predicts_hang(w, n):
                if budget[0] <= 0:
                    continue
                budget[0] -= 1
            ops.append(f'gcs {code} {w} {s64(n)}')
        elif kind == 'iq':
            wk = rng.weighted([(w, 6), (1 + rng.below(70000), 2)])
            k = rng.weighted([(rng.below(min(wk, 70000)), 6), (min(wk, 70000) - 1, 2)])
            nc = rng.weighted([(rng.below(8 * min(wk, 1 << 20) + 2), 6), (rng.below(U32), 2), (U32 - 1, 1), (0, 1)])
            ops.append(f'iq {wk} {k} {nc}')
        else:
            n = boundary_n(rng, w, code)
            c = rng.weighted([(1 << rng.below(31), 5), (1 + rng.below(1000), 2), (1, 2), (rng.below(U32 - 1) + 1, 1)])
            nc = (n + c - 1) // c
            j = rng.weighted([(max(0, nc - 1), 4), (rng.below(nc + 1), 4), (0, 1), (rng.below(U32), 1)])
            ops.append(f'chunk {code} {j} {c} {s64(n)}')
    return f'case {cid} kind=arith threads=2\nthread 0: ' + ' ; '.join(ops) + ' ;\nendcase'


def gen_live(rng, cid, big):
    threads = rng.weighted([(2, 3), (3, 3), (4, 6), (6, 4), (8, 3), (12, 1), (16, 1)])
    pool = rng.weighted([(0, 1), (1, 1)])
    w = threads // 2 if pool == 1 else threads - threads // 2
    code = rng.below(4)
    n = rng.weighted([(0, 1), (1, 2), (w - 1, 1), (w, 2), (w + 1, 2), (8 * w - 1, 2), (8 * w, 2), (8 * w + 1, 3),
                      (16 * w + 3, 2), (rng.below(300), 6), (rng.below(5000), 4), (rng.below(big), 3)])
    n = max(0, n)
    nthrow = rng.weighted([(0, 6), (1, 2), (2, 1), (5, 1)]) if n > 0 else 0
    slow = 1 if n <= 400 and rng.below(2) == 0 else 0
    return (f'case {cid} kind=live threads={threads} pool={pool} S={code} n={n} nthrow={nthrow} '
            f'seed={rng.below(1 << 30)} slow={slow}\nthread 0: run ;\nendcase')


def gen_live_throw(rng, cid):
    """C11c: several throwing calls on several workers (exception slot: the first exchange wins, the
    others decrement without storing; the error token must be the stored one)."""
    threads = rng.weighted([(4, 3), (6, 4), (8, 3), (12, 1)])
    pool = rng.weighted([(0, 1), (1, 1)])
    w = threads // 2 if pool == 1 else threads - threads // 2
    code = rng.below(4)
    n = rng.weighted([(8 * w + 1, 2), (16 * w + 3, 2), (64 + rng.below(300), 4), (rng.below(5000) + 1, 3)])
    nthrow = 3 + rng.below(10)
    slow = 1 if n <= 400 and rng.below(2) == 0 else 0
    return (f'case {cid} kind=live threads={threads} pool={pool} S={code} n={n} nthrow={nthrow} '
            f'seed={rng.below(1 << 30)} slow={slow}\nthread 0: run ;\nendcase')


def gen_stall_cases(rng, base_seed, rounds=1):
    """C11c directed program: 2..2W chunks of one index on W >= 2 workers (mostly W: every worker owns one
    chunk), exactly one index throws; every participant that did not throw waits at the point `bulk.dec`
    (between anything finish() did before the decrement and `--tasks_remaining`) until the thrower has
    decremented, the thrower waits before its exchange until the others are there (bounded waits): the
    thrower stores its exception and decrements while the others sit in that window; the completion
    must be set_error with the thrown exception.  Default pool and second pool."""
    out = []
    i = 0
    for _ in range(rounds):
      for pool in (0, 1):
        for threads in (4, 6, 8, 12):
            w = threads // 2 if pool == 1 else threads - threads // 2
            for n in [w, w, max(2, w - 1)]:
                out.append(f'case s{base_seed}n{i} kind=live threads={threads} pool={pool} S={rng.below(4)} n={n} '
                           f'nthrow=1 seed={rng.below(1 << 30)} slow=0 stall=1\nthread 0: run ;\nendcase')
                i += 1
    return out


DEFECT_CASES = [
    # Shape = uint64, n = 2^32 + 5 on the real bulk: 5 calls (finding C11-arith-wrap)
    'case known-trunc kind=live threads=4 pool=0 S=3 n=4294967301 nthrow=0 seed=1 slow=0\nthread 0: run ;\nendcase',
    # Shape = uint32, 4 workers, n = 3*10^9: get_chunk_size never returns; Shape = int, n = 2^31 - 1: signed overflow
    'case known-hang kind=arith threads=2\nthread 0: gcs 1 4 3000000000 ; gcs 0 4 2147483647 ; chunk 0 31 67108864 2147483647 ;\nendcase',
]


def local_findings():
    out = []
    for p in sorted(glob.glob(os.path.join(HERE, 'findings', PROP + '-*.json'))):
        try:
            j = json.load(open(p))
            if j.get('signature'):
                out.append({'id': j.get('id', os.path.basename(p)), 'signature': j['signature'], 'line': p})
        except Exception:
            pass
    return out


def main():
    t0 = time.time()
    tr = tier()
    base_seed, seed = seed_for(PROP)
    rng = Rng(seed)
    replay = None
    for i, a in enumerate(sys.argv):
        if a == '--replay' and i + 1 < len(sys.argv):
            replay = sys.argv[i + 1]
    violations, known_lines, problems = [], [], []

    # 1. regenerate the model fragments from the source, build, audit --------------------------
    g = sh([sys.executable, os.path.join(HERE, 'tools', 'translate', 'bulk_arith.py'), REPO,
            os.path.join(LEAN, 'PikaVerif', 'Gen')])
    gen_ok = g.returncode == 0
    if not gen_ok:
        problems.append('translator (T-gen) failed closed: ' + (g.stderr or g.stdout)[-600:])
    ok_build, build_log = lean_build(PROPS)
    audit = {'obligations': 0, 'discharged': 0, 'theorems': [], 'checker_cmd': f'cd {LEAN} && lake build'}
    if ok_build:
        cmds = []
        for p in PROPS:
            if not os.path.exists(os.path.join(LEAN, 'PikaVerif', 'Props', p + '.lean')):
                continue
            a = lean_audit(p, [])
            audit['obligations'] += a['obligations']
            audit['discharged'] += a['discharged']
            audit['theorems'] += a['theorems']
            problems += a['problems']
            cmds.append(a['checker_cmd'])
        audit['checker_cmd'] = ' ; '.join(cmds)
        if tr == 'thorough':
            for m, okc, out in leanchecker([f'PikaVerif.Props.{p}' for p in PROPS
                                            if os.path.exists(os.path.join(LEAN, 'PikaVerif', 'Props', p + '.lean'))]):
                if not okc:
                    problems.append(f'leanchecker {m}: {out}')
    else:
        problems.append('lake build failed (generated model no longer satisfies the theorems?): ' + build_log[-1500:])
    proof_ok = gen_ok and ok_build and not problems and audit['obligations'] == audit['discharged'] > 0

    # 2. implementation side ----------------------------------------------------------------------
    ok_p, plog = pika_build('hooks')
    bins, blog = {}, plog
    if ok_p:
        for name, src, extra in (('e1_ciq', 'e1/ciq.cpp', '-O1'),
                                 ('e0_bulk', 'e0/bulk.cpp', '-O1 -fsanitize=signed-integer-overflow')):
            okh, hbin, hlog = compile_harness(name, src, 'hooks', extra)
            if not okh:
                ok_p, blog = False, hlog
                break
            bins[name] = hbin
    if not ok_p:
        p = write_replay(PROP, f'build-failure-{base_seed}.txt', blog)
        write_evidence(PROP, tr, base_seed, {'obligations': audit['obligations'], 'discharged': audit['discharged'],
                       'checker_cmd': audit['checker_cmd'], 'trusted_base': TRUSTED_BASE,
                       'explanation': 'implementation side failed to build; correspondence could not run'},
                       time.time() - t0, 1)
        finish(PROP, [f'VIOLATION property={PROP} replay={p} no-failing-input-found'], [])

    # 3. cases ------------------------------------------------------------------------------------
    thorough = tr == 'thorough'
    groups = {'iq': [], 'bulk': []}
    driver_ok = os.path.exists(os.path.join(LEAN, '.lake', 'build', 'bin', 'driver'))
    if replay:
        txt = open(replay).read()
        try:
            txt = json.load(open(replay)).get('case', txt)
        except Exception:
            pass
        m = re.search(r'(case .*?endcase)', txt, flags=re.S)
        case = m.group(1) if m else txt
        groups['bulk' if ' kind=' in case.split('\n')[0] else 'iq'].append(case)
    else:
        for c in sorted(glob.glob(os.path.join(HERE, 'corpus', PROP, '*.case'))):
            txt = open(c).read().strip()
            groups['bulk' if ' kind=' in txt.split('\n')[0] else 'iq'].append(txt)
        groups['bulk'] += DEFECT_CASES
        budget = [8 if thorough else 2]
        scale = float(os.environ.get('VERIF_SCALE', '1'))
        for i in range(int((6000 if thorough else 800) * scale)):
            groups['iq'].append(gen_ciq(rng, f'q{base_seed}n{i}'))
        for i in range(int((100 if thorough else 16) * scale)):
            groups['bulk'].append(gen_arith(rng, f'a{base_seed}n{i}', budget))
        for i in range(int((1200 if thorough else 90) * scale)):
            groups['bulk'].append(gen_live(rng, f'l{base_seed}n{i}', 2000000 if thorough else 200000))
        groups['bulk'] += gen_stall_cases(rng, base_seed, 4 if thorough else 1)
        for i in range(int((200 if thorough else 12) * scale)):
            groups['bulk'].append(gen_live_throw(rng, f't{base_seed}n{i}'))

    def run_groups(gr, tag):
        res = []
        if gr['iq']:
            res += list(zip(gr['iq'], run_e1(bins['e1_ciq'], 'iq', gr['iq'], jobs=JOBS, tag=PROP + tag + 'q')))
        if gr['bulk']:
            res += list(zip(gr['bulk'], run_e1(bins['e0_bulk'], 'bulk', gr['bulk'], jobs=JOBS, tag=PROP + tag + 'b')))
        return res

    tq = time.time()
    results = run_groups(groups, '') if driver_ok else []
    t_cases = time.time() - tq
    kinds = {'pass': 0, 'monitor': 0, 'tie': 0}
    bad = []
    for c, r in results:
        k = classify(r)
        kinds[k] += 1
        if k != 'pass':
            bad.append((k, c, r))
    if os.environ.get('VERIF_DEBUG'):
        for k, c, r in bad:
            print('DEBUG', k, r['verdict'][:600], '|', c.split('\n')[0])
    kf = known_findings(PROP) + local_findings()

    def is_known(msg):
        sig = re.sub(r'\d+', 'N', msg)
        return [f for f in kf if f['signature'] and f['signature'] in sig]

    def unknown_monitor(b):
        msgs = b[2]['verdict'].split('monitors FAIL:')[-1].split(' | ') if 'monitors FAIL' in b[2]['verdict'] else ['crash']
        return any(not is_known(m) for m in msgs)

    extra_run = 0
    if (not proof_ok or kinds['tie'] > 0) and not any(b[0] == 'monitor' and unknown_monitor(b) for b in bad) and not replay and driver_ok:
        # a proof obligation or a correspondence is broken: search harder for a concrete failure
        # (in batches; stop at the first batch that produces a failing history)
        for batch in range(10):
            eg = {'iq': [gen_ciq(rng, f'xq{base_seed}b{batch}n{i}') for i in range(150)],
                  'bulk': [gen_live(rng, f'xl{base_seed}b{batch}n{i}', 200000) for i in range(18)] +
                          [gen_arith(rng, f'xa{base_seed}b{batch}n{i}', [1]) for i in range(2)]}
            found = False
            for c, r in run_groups(eg, 'x'):
                extra_run += 1
                if classify(r) == 'monitor':
                    bad.append(('monitor', c, r))
                    kinds['monitor'] += 1
                    found = found or unknown_monitor(('monitor', c, r))
            if found:
                break

    reported = set()
    mon = [b for b in bad if b[0] == 'monitor']
    ties = [b for b in bad if b[0] == 'tie']
    for k, c, r in mon:
        if 'monitors FAIL' in r['verdict']:
            msgs = r['verdict'].split('monitors FAIL:')[-1].strip().split(' | ')
        else:
            msgs = ['crash: ' + r['raw'][-200:].replace('\n', ' ')]
        for msg in msgs:
            sig = re.sub(r'\d+', 'N', msg)[:160]
            if sig in reported:
                continue
            reported.add(sig)
            hit = is_known(msg)
            if hit:
                known_lines.append(f"KNOWN-FINDING: property={PROP} {hit[0]['id']}: {msg[:260]}")
                continue
            p = write_replay(PROP, f'monitor-{base_seed}-{len(reported)}.json',
                             {'property': PROP, 'kind': 'monitor', 'what': msg, 'case': c, 'impl_history': r['raw'][-20000:],
                              'model_verdict': r['verdict'], 'rerun_cmd': f'cd {HERE} && ./check {PROP} --replay <this file>'})
            violations.append(f'VIOLATION property={PROP} replay={p}')
    if not violations:
        if not proof_ok:
            p = write_replay(PROP, f'proof-{base_seed}.json',
                             {'property': PROP, 'kind': 'proof', 'problems': problems, 'build_log': build_log[-3000:],
                              'theorems': audit['theorems'], 'searched_cases': len(results) + extra_run})
            violations.append(f'VIOLATION property={PROP} replay={p} no-failing-input-found')
        if ties:
            k, c, r = ties[0]
            p = write_replay(PROP, f'tie-{base_seed}.json',
                             {'property': PROP, 'kind': 'tie',
                              'correspondence': 'implementation results / event logs reproduced by the Lean model (driver iq / bulk)',
                              'first_divergence': r['verdict'], 'case': c, 'impl_history': r['raw'][-20000:],
                              'diverging_cases': len(ties), 'searched_cases': len(results) + extra_run})
            violations.append(f'VIOLATION property={PROP} replay={p} no-failing-input-found')

    # 4. evidence ----------------------------------------------------------------------------------
    nontriv, dist = set(), {'ciq_cas_failures': 0, 'ciq_cases': 0, 'arith_ops': 0, 'live_cases': 0,
                            'live_second_pool': 0, 'live_throwing': 0, 'live_calls': 0, 'chunks_stolen_or_popped': 0}
    for c, r in results:
        raw = r['raw']
        if classify(r) != 'pass' and not ('monitors FAIL' in r['verdict'] and ' accept ' in r['verdict']):
            continue
        head = c.split('\n')[0]
        if ' kind=arith' in head:
            m = re.search(r' accept (\d+)', r['verdict'])
            dist['arith_ops'] += int(m.group(1)) if m else 0
            nontriv.add(re.sub(r'^case \S+', 'case', c))
        elif ' kind=live' in head:
            dist['live_cases'] += 1
            dist['live_second_pool'] += 1 if ' pool=1 ' in head else 0
            dist['live_throwing'] += 0 if ' nthrow=0 ' in head else 1
            m = re.search(r' live\.calls \d+ (-?\d+) ', raw)
            dist['live_calls'] += int(m.group(1)) if m else 0
            dist['chunks_stolen_or_popped'] += raw.count(' bulk.chunk ')
            if raw.count(' bulk.chunk ') >= 2:
                nontriv.add(re.sub(r'^case \S+', 'case', c))
        else:
            dist['ciq_cases'] += 1
            fails = sum(1 for a, b in zip(raw.split('\n'), raw.split('\n')[1:])
                        if ' ciq.cas ' in a and ' ciq.iter ' in b and a.split()[0] == b.split()[0])
            dist['ciq_cas_failures'] += fails
            if fails > 0 or raw.count(' ciq.ok ') >= 2:
                nontriv.add(re.sub(r'^case \S+', 'case', c))
    samples = [groups['iq'][0] if groups['iq'] else None] + groups['bulk'][len(DEFECT_CASES):len(DEFECT_CASES) + 1] + groups['bulk'][-1:]
    cov = {
        'obligations': audit['obligations'], 'discharged': audit['discharged'], 'checker_cmd': audit['checker_cmd'],
        'trusted_base': TRUSTED_BASE + [
            'tools/translate/bulk_arith.py + cxx_expr.py (C++ integer expressions -> Lean with C++ types; fails closed; itself checked by the E0 differential run against the real functions on every run)',
            'harness/e0/bulk.cpp (calls the real get_chunk_size / init_queue / do_work_chunk, runs the real bulk on two pools; hook sink serialises instrumented atomics so the live log is a linearisation)',
            'compare_exchange_weak is modelled without spurious failures (x86)'],
        'evaluations': len(results) + extra_run,
        'distinct_nontrivial': len(nontriv),
        'rule': 'ciq: random programs of pop_left/pop_right (1-4 threads) on ranges incl. near 2^32, PRNG schedules; non-trivial = a CAS failed or >= 2 pops succeeded. arith: batches of 50 direct calls on boundary values (0, 1, w*8*2^k+-1, 2^31+-1, 2^32+-1, type max, random) for int/unsigned/long/unsigned long; each batch distinct by text. live: real bulk on 2-16 workers, default and second pool, n incl. chunk/worker boundaries, 0-5 throwing indices; non-trivial = >= 2 chunks processed. distinct = distinct case text',
        'samples': [s for s in samples if s],
        'traces_validated_against_impl': kinds['pass'],
        'disagreements_checked': kinds['tie'],
        'explanation': f"theorems: {[t[0] for t in audit['theorems']]}; correspondence: {kinds}; extra search cases {extra_run}; distribution {dist}; known findings reproduced this run: {len(known_lines)}; problems: {problems[:3]}",
    }
    write_evidence(PROP, tr, base_seed, cov, time.time() - t0, len(violations),
                   assumptions=['theorems about the index-coverage arithmetic hold under the explicit guard Safe / SafeC (n <= 2^31, <= 2^14 workers, n + n/4 representable in the shape type); outside it the property is false of the pinned tree (finding C11-arith-wrap, counterexamples proved in Props/C11.lean and replayed on the real code every run)',
                                'f does not suspend or migrate between workers; values are observed through an int token'])
    print(f"{PROP}: theorems {audit['discharged']}/{audit['obligations']} audited; cases {len(results)} (+{extra_run} extra): {kinds}; nontrivial distinct {len(nontriv)}; {dist}; cases {t_cases:.1f}s, total {time.time()-t0:.1f}s")
    finish(PROP, violations, known_lines)


main()
