#!/usr/bin/env python3
"""C09 (barrier part) - pika::barrier: Lean model Barrier + theorems Props/C09Barrier.lean, tied by E1."""
import os, re, sys
sys.path.insert(0, os.path.join(os.path.dirname(os.path.abspath(__file__)), '..', 'tools'))
import e1check
from vlib import tier


def gen(rng, cid, timed=False):
    """A well-formed barrier program: thread i stands for w_i participants (sum = expected); in
    every phase each live thread arrives with all its units (arrive_and_wait, arrive(w) + wait, or
    arrive_and_drop for one unit + arrive(w-1) + wait) and waits before its next arrival."""
    shape = rng.weighted([('small', 6), ('wide', 3), ('long', 1 if tier() != 'thorough' else 2)])
    if shape == 'small':
        k = 1 + rng.below(5)
        phases = 1 + rng.below(6)
    elif shape == 'wide':
        k = 4 + rng.below(9)
        phases = 1 + rng.below(3)
    else:
        k = 1 + rng.below(3)
        phases = 120 + rng.below(30) if tier() != 'thorough' else rng.choice([129, 140, 257, 300])
    w = [rng.weighted([(1, 7), (2, 2), (3, 1)]) for _ in range(k)]
    if shape == 'wide' and rng.below(3) == 0:
        w = [x + rng.below(3) for x in w]
    n = sum(w)
    progs = [[] for _ in range(k)]
    live = list(range(k))
    pdrop = rng.choice([0, 0, 10, 25]) if shape != 'long' else rng.choice([0, 1])
    for ph in range(phases):
        if not live:
            break
        for t in list(live):
            # keep at least one participant so that later phases exist
            total = sum(w[x] for x in live)
            if total > 1 and rng.below(100) < pdrop:
                progs[t].append('drop')
                w[t] -= 1
                if w[t] == 0:
                    live.remove(t)
                    continue
                progs[t].append(f'arrive {w[t]}')
                progs[t].append('wait')
            elif w[t] == 1 and rng.below(3) != 0:
                progs[t].append('aw')
            else:
                # arrive(w) or w separate arrive(1) calls, then wait on the last token
                if w[t] > 1 and rng.below(3) == 0:
                    for _ in range(w[t]):
                        progs[t].append('arrive 1')
                else:
                    progs[t].append(f'arrive {w[t]}')
                progs[t].append('wait')
    if timed:
        # follow-up C09t: most waits get a busy_wait_timeout (1 = fires at once, 2 = never fires,
        # m >= 3 = fires after m-2 unsuccessful polls of the busy-wait phase)
        for t in range(k):
            for j, op in enumerate(progs[t]):
                if op in ('wait', 'aw') and rng.below(10) < 7:
                    m = rng.weighted([(1, 2), (2, 2), (3, 3), (4, 2), (5, 1), (8, 1)])
                    if shape == 'long' and m >= 3 and rng.below(20) != 0:
                        m = 1 + rng.below(2)    # few real-time sleeps in the 120+ phase cases
                    progs[t][j] = ('waitT' if op == 'wait' else 'awT') + f' {m}'
    steps = 4000 + 60 * n * phases * 6
    lines = [f'case {cid} n={n} seed={rng.below(1 << 30)} strat={rng.weighted([(0, 5), (1, 3), (2, 2)])} '
             f'tasks={1 if rng.below(8) == 0 else 0} maxsteps={steps}']
    for t in range(k):
        lines.append(f'thread {t}: ' + ' ; '.join(progs[t]) + (' ;' if progs[t] else ''))
    lines.append('endcase')
    return '\n'.join(lines)


def gen_timed(rng, cid):
    return gen(rng, cid, True)


def nontrivial(c, r):
    # non-trivial: at least two rounds of the tree were used or a CAS lost a race
    raw = r['raw']
    return ' bar.miss ' in raw or ' bar.seen ' in raw


def stats(c, r):
    raw = r['raw']
    return {'phases': raw.count(' bar.phase '), 'cas_miss': raw.count(' bar.miss '), 'half': raw.count(' bar.half '),
            'up': raw.count(' bar.up '), 'drops': raw.count(' bar.adj '), 'polls': raw.count(' bar.polled '),
            'wrapped': 1 if raw.count(' bar.phase ') > 128 else 0, 'pika_tasks': 1 if ' tasks=1 ' in c else 0,
            'spin_ok': raw.count(' bar.spinok '), 'timeouts': len(re.findall(r' bar\.block \d+ \d+ 1$', raw, flags=re.M)),
            'timed_waits': raw.count(' inv.waitT ') + raw.count(' inv.awT ')}


e1check.run(dict(
    prop='C09B', props=['C09Barrier', 'C09uBarrier'], model='barriert', harness='e1/barrier.cpp', bin='e1_barrier',
    nontrivial=nontrivial, stats=stats,
    # the driver `barriert` runs the fine acceptor (timed busy-wait phase, completion step in three
    # steps), the coarse acceptor of the first round on the projected log, and the monitors of both
    batches=[dict(model='barriert', gen=gen, quick=1000, thorough=28000, extra=3000),
             dict(model='barriert', gen=gen_timed, quick=600, thorough=12000, extra=1500)],
    rule='batch 0: random well-formed barrier programs (1-12 threads standing for 1-24 participants, 1-300 phases, arrive(n)/wait/arrive_and_wait/arrive_and_drop, callers on OS threads and on pika tasks) on one pika::barrier with a completion function, PRNG schedules (uniform / priority / sticky); non-trivial = some ticket CAS failed or observed a half-taken ticket; distinct = distinct (program, schedule seed) text; batch 1: the same programs with a busy_wait_timeout on most wait / arrive_and_wait calls (time-out firing at once / never / after a chosen number of unsuccessful polls)',
    assumptions=['the wall clock of yield_while_timeout is not modelled: the model lets the time-out fire at any iteration of the busy-wait loop',
                 'client preconditions of arrive/arrive_and_drop (update <= expected count of the current phase) are part of the acceptor'],
))
