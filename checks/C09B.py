#!/usr/bin/env python3
"""C09 (barrier part) - pika::barrier: Lean model Barrier + theorems Props/C09Barrier.lean, tied by E1."""
import os, sys
sys.path.insert(0, os.path.join(os.path.dirname(os.path.abspath(__file__)), '..', 'tools'))
import e1check
from vlib import tier


def gen(rng, cid):
    """A well-formed barrier program: thread i stands for w_i participants (sum = expected); in
    every phase each live thread arrives with all its units (arrive_and_wait, arrive(w) + wait, or
    arrive_and_drop for one unit + arrive(w-1) + wait) and waits before its next arrival."""
    shape = rng.weighted([('small', 6), ('wide', 3), ('long', 1 if tier() != 'thorough' else 2)])
    if shape == 'small':
        k = 1 + rng.below(5)
        phases = 1 + rng.below(6)
    elif shape == 'wide':
        k = 4 + rng.below(9)
        phases = 1 + rng.below(3)
    else:
        k = 1 + rng.below(3)
        phases = 120 + rng.below(30) if tier() != 'thorough' else rng.choice([129, 140, 257, 300])
    w = [rng.weighted([(1, 7), (2, 2), (3, 1)]) for _ in range(k)]
    if shape == 'wide' and rng.below(3) == 0:
        w = [x + rng.below(3) for x in w]
    n = sum(w)
    progs = [[] for _ in range(k)]
    live = list(range(k))
    pdrop = rng.choice([0, 0, 10, 25]) if shape != 'long' else rng.choice([0, 1])
    for ph in range(phases):
        if not live:
            break
        for t in list(live):
            # keep at least one participant so that later phases exist
            total = sum(w[x] for x in live)
            if total > 1 and rng.below(100) < pdrop:
                progs[t].append('drop')
                w[t] -= 1
                if w[t] == 0:
                    live.remove(t)
                    continue
                progs[t].append(f'arrive {w[t]}')
                progs[t].append('wait')
            elif w[t] == 1 and rng.below(3) != 0:
                progs[t].append('aw')
            else:
                # arrive(w) or w separate arrive(1) calls, then wait on the last token
                if w[t] > 1 and rng.below(3) == 0:
                    for _ in range(w[t]):
                        progs[t].append('arrive 1')
                else:
                    progs[t].append(f'arrive {w[t]}')
                progs[t].append('wait')
    steps = 4000 + 60 * n * phases * 6
    lines = [f'case {cid} n={n} seed={rng.below(1 << 30)} strat={rng.weighted([(0, 5), (1, 3), (2, 2)])} '
             f'tasks={1 if rng.below(8) == 0 else 0} maxsteps={steps}']
    for t in range(k):
        lines.append(f'thread {t}: ' + ' ; '.join(progs[t]) + (' ;' if progs[t] else ''))
    lines.append('endcase')
    return '\n'.join(lines)


def nontrivial(c, r):
    # non-trivial: at least two rounds of the tree were used or a CAS lost a race
    raw = r['raw']
    return ' bar.miss ' in raw or ' bar.seen ' in raw


def stats(c, r):
    raw = r['raw']
    return {'phases': raw.count(' bar.phase '), 'cas_miss': raw.count(' bar.miss '), 'half': raw.count(' bar.half '),
            'up': raw.count(' bar.up '), 'drops': raw.count(' bar.adj '), 'polls': raw.count(' bar.polled '),
            'wrapped': 1 if raw.count(' bar.phase ') > 128 else 0, 'pika_tasks': 1 if ' tasks=1 ' in c else 0}


e1check.run(dict(
    prop='C09B', props='C09Barrier', model='barrier', harness='e1/barrier.cpp', bin='e1_barrier',
    gen=gen, nontrivial=nontrivial, stats=stats,
    quick=1500, thorough=40000, extra=4000,
    rule='random well-formed barrier programs (1-12 threads standing for 1-24 participants, 1-300 phases, arrive(n)/wait/arrive_and_wait/arrive_and_drop, callers on OS threads and on pika tasks) on one pika::barrier with a completion function, PRNG schedules (uniform / priority / sticky); non-trivial = some ticket CAS failed or observed a half-taken ticket; distinct = distinct (program, schedule seed) text',
    assumptions=['barrier::wait with a non-zero busy_wait_timeout (wall-clock bounded spinning before the same polling loop) is not exercised',
                 'client preconditions of arrive/arrive_and_drop (update <= expected count of the current phase) are part of the acceptor'],
))
