#!/usr/bin/env python3
"""C12 - a task's context survives suspension, migration and recycling.

Proof obligations (Props/C12.lean) over text regenerated from /repo on every run:
  Gen/SwapAsm.lean  (tools/translate/swapasm.py)  asm of swapcontext_stack + context layout constants
  Gen/Rebind.lean   (tools/translate/rebind.py)   data members / constructor / rebind / reset tables
  Gen/Heaps.lean    (tools/translate/heaps.py)    heap-by-stack-size chains
Correspondence and search on the implementation (harness/e2/ctx.cpp | driver ctx):
  swapdiff  the real swapcontext_stack vs the compiled Lean x86 machine, register for register
  canary    live runtime: stack/register/identity/task-data canaries across yields, suspensions,
            migration and recycling, all four stack classes, guard pages on/off, several size configs
  fpprobe   the FP-control-state probe (declared finding fp-control-leak)
"""
import json, os, re, subprocess, sys, time
from concurrent.futures import ThreadPoolExecutor
sys.path.insert(0, os.path.join(os.path.dirname(os.path.abspath(__file__)), '..', 'tools'))
from vlib import *

PROP = 'C12'
TRANSLATORS = ['swapasm.py', 'rebind.py', 'heaps.py', 'stateword.py']
POLICIES = ['local', 'local-priority-fifo', 'local-priority-lifo', 'static', 'static-priority',
            'abp-priority-fifo', 'abp-priority-lifo', 'shared-priority']
SIZE_CONFIGS = [
    [],
    ['--pika:ini=pika.stacks.small_size=0x8000', '--pika:ini=pika.stacks.medium_size=0x10000',
     '--pika:ini=pika.stacks.large_size=0x40000', '--pika:ini=pika.stacks.huge_size=0x400000'],
    # two classes configured with the same size (they share the first heap of the chain)
    ['--pika:ini=pika.stacks.small_size=0x20000', '--pika:ini=pika.stacks.medium_size=0x20000'],
    ['--pika:ini=pika.stacks.small_size=0xc000', '--pika:ini=pika.stacks.large_size=0x100000'],
    # sizes that are NOT increasing with the class: small above medium, large below medium (a recycled object of a smaller
    # stack must never be handed to a class that was configured larger)
    ['--pika:ini=pika.stacks.small_size=0x40000'],
    ['--pika:ini=pika.stacks.small_size=0x30000', '--pika:ini=pika.stacks.large_size=0x18000'],
]
# Findings this check knows about although /verif/known_findings.txt may not list them yet (the text for
# known_findings.txt is in notes/C12.md); matched by signature exactly like entries of that file.
BUILTIN_FINDINGS = []    # moved to /verif/known_findings.txt
TRUSTED = [
    "Lean 4.33.0 kernel (lake build); axioms admitted: propext, Classical.choice, Quot.sound only (audited with #print axioms on every theorem of Props/C12.lean each run)",
    "translators tools/translate/{swapasm,rebind,heaps}.py (anchored regular expressions over the C++/asm text, fail closed); the instruction semantics of lean/PikaVerif/Model/X86.lean (16 opcodes, aligned quad-word memory) - both are exercised on every run by the swapdiff correspondence (real routine vs compiled model, every register and written memory word compared)",
    "the model covers the swap routine, the initial frame, the reset tables and the heap chains - not the compiler-generated code around them; the System V ABI (caller-saved registers are dead across the call) is assumed",
    "stack disjointness is an mmap/kernel fact: monitored on the live runs (address ranges of simultaneously live tasks), not proved",
    "live runs exercise real schedules with PRNG perturbation but do not enumerate interleavings; x86-64 Linux only",
]


def canary_runs(rng, tier):
    out = []
    if tier == 'thorough':
        for pol in POLICIES:
            for th in (1, 2, 4, 8):
                for guard in (0, 1):
                    for k in range(4):
                        cfg = SIZE_CONFIGS[rng.below(len(SIZE_CONFIGS))]
                        out.append(([rng.below(1 << 30), 'canary', 10 + rng.below(10), 60 + rng.below(60), f'--pika:threads={th}',
                                     f'--pika:scheduler={pol}', f'--pika:ini=pika.stacks.use_guard_pages={guard}'] + cfg +
                                    ([f'--pika:ini=pika.thread_queue.max_terminated_threads={rng.choice([1, 10, 100])}'] if rng.below(2) else []),
                                    rng.choice([0, 0, 60, 200])))
    else:
        i = 0
        for pol in POLICIES:
            for th in ((2, 4) if i % 2 == 0 else (1, 8)):
                guard = (i + th) % 2
                cfg = SIZE_CONFIGS[(i + th) % len(SIZE_CONFIGS)]
                out.append(([rng.below(1 << 30), 'canary', 8, 80, f'--pika:threads={th}', f'--pika:scheduler={pol}',
                             f'--pika:ini=pika.stacks.use_guard_pages={guard}'] + cfg +
                            ([f'--pika:ini=pika.thread_queue.max_terminated_threads=1'] if i % 3 == 0 else []),
                            rng.choice([0, 100])))
            i += 1
    return out


def run_one(hbin, driver, argv, perturb, timeout_s):
    t0 = time.time()
    env = dict(os.environ, VERIF_PERTURB=str(perturb))
    try:
        h = subprocess.run([hbin] + [str(a) for a in argv], capture_output=True, text=True, timeout=timeout_s, env=env)
        raw, rc, err = h.stdout, h.returncode, ' '.join(l for l in h.stderr.split('\n') if l.startswith('monitor ') or 'terminate' in l or 'what()' in l)[-900:]
    except subprocess.TimeoutExpired as e:
        raw = (e.stdout or b'').decode(errors='replace') if isinstance(e.stdout, bytes) else (e.stdout or '')
        rc, err = -999, 'wall-clock limit of the check reached (not a verdict)'
    if 'endcase' not in raw:
        status = 'stall' if rc == -999 else f'crash rc={rc}'
        raw = (raw if raw.startswith('case ') else 'case ctx incomplete\n' + raw) + f'\nend {status}\nendcase\n'
    d = subprocess.run([driver, 'ctx'], input=raw, capture_output=True, text=True)
    verdict = d.stdout.strip().split('\n')[0] if d.stdout.strip() else 'case ctx reject 0 [no-driver-output]'
    cm = config_monitor(argv, raw)
    if cm:
        verdict = verdict.replace('monitors ok', 'monitors FAIL: ' + cm) if 'monitors ok' in verdict else verdict + ' | ' + cm
    return {'argv': argv, 'perturb': perturb, 'raw': raw, 'verdict': verdict, 'rc': rc, 'err': err, 'wall': time.time() - t0}


def config_monitor(argv, raw):
    """the sizes given on the command line must be the sizes the runtime reports as configured (the
    harness then compares every task's actual stack size with these)"""
    m = re.search(r' conf=(\d+),(\d+),(\d+),(\d+) guard=(\d)', raw)
    if not m:
        return None
    conf = dict(zip(('small', 'medium', 'large', 'huge'), (int(m.group(i)) for i in range(1, 5))))
    for a in argv:
        mm = re.fullmatch(r'--pika:ini=pika\.stacks\.(small|medium|large|huge)_size=(0x[0-9a-fA-F]+|\d+)', str(a))
        if mm and conf[mm.group(1)] != int(mm.group(2), 0):
            return f'configured {mm.group(1)} stack size {int(mm.group(2), 0)} is not honoured: runtime reports {conf[mm.group(1)]}'
        mm = re.fullmatch(r'--pika:ini=pika\.stacks\.use_guard_pages=(\d)', str(a))
        if mm and int(m.group(5)) != int(mm.group(1)):
            return f'use_guard_pages={mm.group(1)} is not honoured: runtime reports {m.group(5)}'
    return None


def classify(r):
    if r['rc'] == -999:
        return 'stall'
    if 'monitors FAIL' in r['verdict'] or 'end crash' in r['raw'][-200:]:
        return 'monitor'
    if ' accept ' in r['verdict']:
        return 'pass'
    return 'tie'


def stat_of(raw):
    m = re.search(r'^stat (tasks=.*)$', raw, flags=re.M)
    d = {}
    if m:
        for kv in m.group(1).split():
            k, _, v = kv.partition('=')
            if v.lstrip('-').isdigit():
                d[k] = int(v)
    return d


def main():
    t0 = time.time()
    tr = tier()
    base_seed, seed = seed_for(PROP)
    rng = Rng(seed)
    replay = None
    for i, a in enumerate(sys.argv):
        if a == '--replay' and i + 1 < len(sys.argv):
            replay = sys.argv[i + 1]
    violations, known_lines = [], []

    # 0. regenerate the generated model text from the source
    problems, gen_facts = [], {}
    for g in TRANSLATORS:
        r = sh(['python3', os.path.join(HERE, 'tools', 'translate', g)] + (['--json'] if g != 'stateword.py' else []))
        if r.returncode != 0:
            problems.append(f'translator {g} failed (source shape outside the modelled subset): {r.stderr.strip()[-300:]}')
        elif g != 'stateword.py':
            try:
                gen_facts[g] = json.loads(r.stdout)
            except Exception:
                pass

    # 1. proof obligations
    ok_build, build_log = lean_build('C12')
    audit = None
    if ok_build and not problems:
        audit = lean_audit(PROP, [])
        problems += audit['problems']
        if tr == 'thorough':
            for m, okc, out in leanchecker([f'PikaVerif.Props.{PROP}']):
                if not okc:
                    problems.append(f'leanchecker {m}: {out}')
    elif not ok_build:
        problems.append('lake build failed: ' + ' / '.join(l for l in build_log.split('\n') if 'error' in l and '.lean' in l)[:900])
        with Lock('lake'):
            sh('lake build driver 2>&1', cwd=LEAN)      # the driver does not depend on the theorems
    obligations = audit['obligations'] if audit else 0
    discharged = audit['discharged'] if audit else 0
    theorems = audit['theorems'] if audit else []
    proof_ok = ok_build and not problems and obligations == discharged and obligations > 0
    checker_cmd = audit['checker_cmd'] if audit else f'cd {LEAN} && lake build'

    # 2. implementation side
    ok_p, plog = pika_build('hooks')
    ok_h, hbin, hlog = (False, '', '')
    if ok_p:
        ok_h, hbin, hlog = compile_harness('e2_ctx', 'e2/ctx.cpp', 'hooks')
    driver = os.path.join(LEAN, '.lake', 'build', 'bin', 'driver')
    if not (ok_p and ok_h and os.path.exists(driver)):
        p = write_replay(PROP, f'build-failure-{base_seed}.txt', (plog if not ok_p else hlog) + '\n' + '\n'.join(problems))
        write_evidence(PROP, tr, base_seed, {'obligations': max(obligations, 1), 'discharged': discharged, 'checker_cmd': checker_cmd,
                       'trusted_base': TRUSTED, 'explanation': 'implementation side failed to build; correspondence could not run'},
                       time.time() - t0, 1)
        finish(PROP, [f'VIOLATION property={PROP} replay={p} no-failing-input-found'], [])

    # 3. runs
    if replay:
        rp = json.load(open(replay))
        plan = [(rp['argv'], rp.get('perturb', 0))]
    else:
        nswap = 50000 if tr == 'thorough' else 10000
        plan = [([rng.below(1 << 30), 'swapdiff', nswap, 0], 0),
                ([rng.below(1 << 30), 'fpprobe', 0, 0, '--pika:threads=1'], 0)] + canary_runs(rng, tr)
    tmo = 900 if tr == 'thorough' else 300
    with ThreadPoolExecutor(max_workers=3) as ex:
        results = list(ex.map(lambda a: run_one(hbin, driver, a[0], a[1], tmo), plan))
    kinds = {'pass': 0, 'monitor': 0, 'tie': 0, 'stall': 0}
    for r in results:
        kinds[classify(r)] += 1
    extra = 0
    if (not proof_ok or kinds['tie'] > 0) and kinds['monitor'] == 0 and not replay:
        # extra search for a concrete failing input before reporting a broken obligation / correspondence
        eplan = [([rng.below(1 << 30), 'canary', 12, 100, f'--pika:threads={th}', f'--pika:scheduler={pol}',
                   f'--pika:ini=pika.stacks.use_guard_pages={g}', '--pika:ini=pika.thread_queue.max_terminated_threads=1'], 100)
                 for pol, th, g in (('local-priority-fifo', 4, 0), ('local-priority-fifo', 1, 1), ('shared-priority', 4, 0),
                                    ('static', 2, 1), ('abp-priority-lifo', 8, 0), ('local', 3, 1))]
        with ThreadPoolExecutor(max_workers=3) as ex:
            eres = list(ex.map(lambda a: run_one(hbin, driver, a[0], a[1], tmo), eplan))
        extra = len(eplan)
        for r in eres:
            if classify(r) == 'monitor':
                results.append(r)
                kinds['monitor'] += 1

    kf = known_findings(PROP) + BUILTIN_FINDINGS
    mon = [r for r in results if classify(r) == 'monitor']
    ties = [r for r in results if classify(r) == 'tie']
    reported = set()

    def trim(raw, n=60):
        lines = [l for l in raw.split('\n') if not l.startswith('stack ') and not l.startswith('swap ')]
        return '\n'.join(lines[-n:])

    # declared findings (finding lines of the harness)
    findings_seen = 0
    for r in results:
        for line in r['raw'].split('\n'):
            if line.startswith('finding '):
                findings_seen += 1
                hit = [f for f in kf if f['signature'] and f['signature'] in line]
                if hit:
                    l = f"KNOWN-FINDING: property={PROP} {hit[0]['id']}: {line[len('finding '):][:260]}"
                    if l not in known_lines:
                        known_lines.append(l)
                else:
                    p = write_replay(PROP, f'finding-{base_seed}.json', {'property': PROP, 'kind': 'monitor', 'what': line, 'argv': r['argv'],
                                     'rerun_cmd': f'{hbin} ' + ' '.join(str(a) for a in r['argv'])})
                    violations.append(f'VIOLATION property={PROP} replay={p}')
    if mon:
        for r in mon:
            msg = r['verdict'].split('monitors FAIL:')[-1].strip() if 'monitors FAIL' in r['verdict'] else 'crash: ' + r['raw'][-200:].replace('\n', ' ') + ' ' + r['err'][-200:].replace('\n', ' ')
            sig = re.sub(r'\d+', 'N', msg.split(' | ')[0])[:160]
            if sig in reported:
                continue
            reported.add(sig)
            p = write_replay(PROP, f'monitor-{base_seed}-{len(reported)}.json',
                             {'property': PROP, 'kind': 'monitor', 'what': msg, 'argv': r['argv'], 'perturb': r['perturb'],
                              'impl_history_tail': trim(r['raw']), 'model_verdict': r['verdict'],
                              'proof_problems': problems,
                              'rerun_cmd': f'cd {HERE} && ./check {PROP} --replay <this file>   (or: VERIF_PERTURB={r["perturb"]} {hbin} ' + ' '.join(str(a) for a in r['argv']) + ')'})
            violations.append(f'VIOLATION property={PROP} replay={p}')
    elif ties or not proof_ok:
        if not proof_ok:
            p = write_replay(PROP, f'proof-{base_seed}.json', {'property': PROP, 'kind': 'proof', 'problems': problems,
                             'build_log': build_log[-3000:], 'theorems': theorems, 'searched_runs': len(results) + extra})
            violations.append(f'VIOLATION property={PROP} replay={p} no-failing-input-found')
        if ties:
            r = ties[0]
            p = write_replay(PROP, f'tie-{base_seed}.json', {'property': PROP, 'kind': 'tie',
                             'correspondence': 'harness/e2/ctx.cpp records accepted by the Lean driver `ctx` (swapdiff: real swapcontext_stack vs X86.run Gen.SwapAsm.prog)',
                             'first_divergence': r['verdict'], 'argv': r['argv'], 'impl_history_tail': trim(r['raw']),
                             'diverging_runs': len(ties), 'searched_runs': len(results) + extra})
            violations.append(f'VIOLATION property={PROP} replay={p} no-failing-input-found')

    # 4. evidence
    agg = {}
    nontriv = set()
    swaps_ok = 0
    stacks_ok = 0
    for r in results:
        st = stat_of(r['raw'])
        for k, v in st.items():
            if k not in ('workers', 'guard'):
                agg[k] = agg.get(k, 0) + v
        if classify(r) == 'pass':
            m = re.search(r'swaps (\d+) stacks (\d+)', r['verdict'])
            if m:
                swaps_ok += int(m.group(1))
                stacks_ok += int(m.group(2))
            if st.get('reused', 0) > 0 and st.get('migrations', 0) > 0 and st.get('suspends', 0) > 0 and \
                    all(st.get(c, 0) > 0 for c in ('small', 'medium', 'large', 'huge')):
                nontriv.add(' '.join(str(a) for a in r['argv']) + f' perturb={r["perturb"]}')
    cov = {
        'obligations': max(obligations, 1), 'discharged': discharged, 'checker_cmd': checker_cmd, 'trusted_base': TRUSTED,
        'evaluations': len(results), 'distinct_nontrivial': len(nontriv),
        'rule': 'one swapdiff run (PRNG register files / target frames through the real swapcontext_stack, away and back, compared with the compiled Lean machine), one fpprobe run, and canary runs on the live runtime: every scheduling policy, 1-8 workers, guard pages on/off, six stack-size configurations (default, small, two classes equal, mixed, two non-monotone ones), optional max_terminated_threads=1 and PRNG timing perturbation at the instrumented sites; a canary run is non-trivial when it contains tasks of all four stack classes, at least one recycled thread object, one migration between workers and one real suspension; distinct = distinct argv',
        'samples': [' '.join(str(a) for a in r['argv']) for r in results[:5]],
        'traces_validated_against_impl': swaps_ok, 'transitions': 2 * swaps_ok,
        'programs': sum(1 for r in results if r['argv'][1] == 'canary'),
        'disagreements_checked': kinds['tie'],
        'generated': {'asm': gen_facts.get('swapasm.py', {}).get('instrs'),
                      'context_layout': {k: gen_facts.get('swapasm.py', {}).get(k) for k in ('context_size', 'cb_idx', 'funp_idx')},
                      'thread_data_members': len(gen_facts.get('rebind.py', {}).get('td_members', [])),
                      'coroutine_members': len(gen_facts.get('rebind.py', {}).get('co_members', [])),
                      'heap_chains': {k: gen_facts.get('heaps.py', {}).get(k) for k in ('tqCreate', 'tqRecycle', 'qhCreate', 'qhRecycle')}},
        'explanation': f"theorems: {[t[0] for t in theorems]}; runs: {kinds}; swap records accepted {swaps_ok} (2 switches each), stack records checked by the driver {stacks_ok}; canary totals {agg}; declared findings reproduced {findings_seen}; extra search runs {extra}; proof problems {problems}; runs that hit the check's own wall-clock limit (no verdict): {kinds['stall']}",
    }
    write_evidence(PROP, tr, base_seed, cov, time.time() - t0, len(violations), assumptions=[
        'FP control state (MXCSR, x87 control word) is not part of the saved context in the pinned tree: theorem C12_fp_control_not_preserved, reproduced live by the fpprobe run and reported as KNOWN-FINDING fp-control-leak',
        'stackless tasks (nostack class) have no context to preserve and are not exercised',
    ])
    print(f"{PROP}: theorems {discharged}/{obligations} audited; runs {len(results)} (+{extra} extra): {kinds}; swap records {swaps_ok}; canary tasks {agg.get('tasks', 0)} (reused objects {agg.get('reused', 0)}, migrations {agg.get('migrations', 0)}, suspensions {agg.get('suspends', 0)}); {time.time()-t0:.1f}s")
    finish(PROP, violations, known_lines)


main()
