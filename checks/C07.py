#!/usr/bin/env python3
"""C07 - condition variables: Lean model CV + theorems Props/C07.lean, tied by E1 (controlled schedules);
plus (follow-up C07h) the Lean model Agent of pika's default_agent hand-shake + theorems Props/C07Agent.lean,
tied by a live tier (checks/C07live.py: real OS threads blocking on pika condition variables through the real
default_agent, exact E2 logs replayed through the acceptor)."""
import os, sys
sys.path.insert(0, os.path.join(os.path.dirname(os.path.abspath(__file__)), '..', 'tools'))
import e1check


def probe(rng, cid, lock):
    """Preemption-bounded probe for the stop-token wait: 1-2 waiters run a chosen number of steps
    each, then request_stop runs to completion, then the PRNG takes over.  Sweeps the position of
    the stop request relative to the waiter's stop_requested() checks, its registration and its
    enqueue (windows a uniform schedule hits with probability ~2^-15)."""
    nw = rng.weighted([(1, 3), (2, 2)])
    sc = []
    for w in range(nw):
        sc += [str(w)] * (1 + rng.below(13))
    sc += [str(nw)] * 24
    lines = [f'case {cid} cv=any lock={lock} flag=0 seed={rng.below(1 << 30)} strat={rng.weighted([(0, 3), (2, 1)])} script=' + ','.join(sc)]
    for w in range(nw):
        lines.append(f'thread {w}: lock ; ' + rng.weighted([('swaitp', 4), ('stwaitp', 1)]) + ' ; unlock ;')
    lines.append(f'thread {nw}: ' + rng.weighted([('stop ;', 3), ('lock ; set 1 ; unlock ; stop ;', 1), ('lock ; stop ; unlock ;', 1)]))
    lines.append('endcase')
    return '\n'.join(lines)


def gen(rng, cid):
    k = rng.weighted([(2, 4), (3, 5), (4, 3), (5, 1), (6, 1)])
    cv = rng.weighted([('plain', 1), ('any', 1)])
    lock = rng.weighted([('user', 3), ('spin', 2)] + ([('userraw', 2)] if cv == 'any' else []))
    flag = rng.weighted([(0, 4), (1, 1)])
    # stop-token waits (condition_variable_any only): about 40 % of the cv=any cases use
    # wait(lock, stop_token, pred) / request_stop on one shared stop_source; a few of them run the
    # logical threads as pika tasks (a runtime start per case is slow, so the share is small)
    stopcase = cv == 'any' and rng.below(5) < 2
    if stopcase and rng.below(8) == 0:
        return probe(rng, cid, lock)
    mode = 'pika' if stopcase and rng.below(12) == 0 else 'os'
    hdr = f'case {cid} cv={cv} lock={lock} flag={flag} seed={rng.below(1 << 30)} strat={rng.weighted([(0, 5), (1, 3), (2, 2)])}'
    if mode != 'os':
        hdr += f' mode={mode}'
    if stopcase and rng.below(3) == 0:
        # a few long runs of single threads before the PRNG takes over: reaches the narrow windows
        # (e.g. a complete request_stop between a waiter's stop_requested() check and its enqueue)
        # that uniform choices hit with probability ~2^-15
        sc = []
        for _ in range(2 + rng.below(3)):
            sc += [str(rng.below(k))] * (1 + rng.below(14))
        hdr += ' script=' + ','.join(sc)
    lines = [hdr]
    stoppers = 0
    for t in range(k):
        ops = []
        for _ in range(1 + rng.below(3)):
            b = rng.weighted([('waiter', 7), ('notifier', 6), ('bare', 2)] + ([('stopper', 4)] if stopcase else []))
            if b == 'stopper' or (stopcase and t == k - 1 and stoppers == 0 and rng.below(4) != 0):
                stoppers += 1
                # filler so that the request tends to arrive when waiters are already parked / in flight
                for _ in range(rng.weighted([(0, 2), (1, 2), (2, 2), (4, 1)])):
                    ops.append('lock')
                    ops.append('unlock')
                style = rng.below(3)
                if style == 0:
                    ops.append('stop')
                else:
                    ops.append('lock')
                    if style == 2:
                        ops.append(f'set {rng.weighted([(1, 1), (0, 2)])}')
                    if rng.below(2) == 0:
                        ops.append('stop')
                        ops.append('unlock')
                    else:
                        ops.append('unlock')
                        ops.append('stop')
            elif b == 'waiter':
                ops.append('lock')
                for _ in range(rng.weighted([(1, 6), (2, 1)])):
                    if stopcase and rng.below(3) != 0:
                        ops.append(rng.weighted([('swaitp', 3), ('stwaitp', 1)]))
                    else:
                        ops.append(rng.weighted([('wait', 4), ('waitp', 3), ('twait', 3), ('twaitp', 3)]))
                    if rng.below(4) == 0:
                        ops.append('set 0')
                ops.append('unlock')
            elif b == 'notifier':
                n = rng.weighted([('n1', 3), ('nall', 2)])
                inside = rng.below(2) == 0
                ops.append('lock')
                if rng.below(5) != 0:
                    ops.append(f'set {rng.weighted([(1, 4), (0, 1)])}')
                if inside:
                    ops.append(n)
                ops.append('unlock')
                if not inside and rng.below(6) != 0:
                    ops.append(n)
            else:
                ops.append(rng.weighted([('n1', 1), ('nall', 1)]))
        lines.append(f'thread {t}: ' + ' ; '.join(ops) + ' ;')
    lines.append('endcase')
    return '\n'.join(lines)


def gen_abort(rng, cid):
    """Follow-up C07d: one detail::condition_variable used directly with its spinlock; waiters (untimed and
    timed, 1-3 waits each: a woken / aborted waiter waits again), notifiers, and ONE thread that calls
    abort_all (once or twice).  Model: Model/CVAbort.lean (driver `cvabort`)."""
    k = rng.weighted([(2, 3), (3, 5), (4, 4), (5, 2), (6, 1)])
    ab = rng.below(k)
    lines = []
    waiters = []
    for t in range(k):
        ops = []
        if t == ab:
            for _ in range(rng.weighted([(1, 4), (2, 1)])):
                if rng.below(5) == 0:
                    ops.append(rng.weighted([('dn1', 1), ('dnall', 1)]))
                ops.append('abortall')
        else:
            kind = rng.weighted([('waiter', 8), ('notifier', 2), ('mixed', 2)])
            if kind == 'notifier':
                for _ in range(1 + rng.below(2)):
                    ops.append(rng.weighted([('dn1', 3), ('dnall', 2)]))
            else:
                waiters.append(t)
                for _ in range(rng.weighted([(1, 4), (2, 3), (3, 1)])):
                    ops.append(rng.weighted([('dwait', 5), ('dtwait', 2)]))
                    if kind == 'mixed' and rng.below(2) == 0:
                        ops.append(rng.weighted([('dn1', 3), ('dnall', 1)]))
        lines.append(f'thread {t}: ' + ' ; '.join(ops) + ' ;')
    hdr = f'case {cid} cv=detail model=cvabort seed={rng.below(1 << 30)} strat={rng.weighted([(0, 5), (1, 3), (2, 2)])}'
    if waiters and rng.below(2) == 0:
        # let some waiters park first, then (sometimes) run the aborter up to its first unlock
        sc = []
        for w in waiters:
            if rng.below(4) != 0:
                sc += [str(w)] * (3 + rng.below(3))
        if rng.below(2) == 0:
            sc += [str(ab)] * (2 + rng.below(5))
        hdr += ' script=' + ','.join(sc)
    return '\n'.join([hdr] + lines + ['endcase'])


def nontrivial(c, r):
    # a case is non-trivial when some thread really enqueued on the condition variable
    return ' cv.enq ' in r['raw']


def stats(c, r):
    raw = r['raw']
    return {'enqueued_waits': raw.count(' cv.enq '), 'timeouts_fired': raw.count(' ag.timeout '),
            'notify_one_pops': raw.count(' cv.pop '), 'notify_all_pops': raw.count(' cv.popall '),
            'notify_none': raw.count(' cv.none '), 'resume_dropped': raw.count(' ag.resume.dropped '),
            'timed_wait_signalled': raw.count(' cv.woke 5 0 1'), 'timed_wait_timed_out': raw.count(' cv.woke 5 1 1'),
            'untimed_spurious_wake': raw.count(' cv.woke 5 1 0'),
            'stop_token_waits': raw.count(' inv.swaitp '), 'timed_stop_token_waits': raw.count(' inv.stwaitp '),
            'timed_stop_wait_should_stop': raw.count(' cva.stop2 2 1 '), 'request_stop_calls': raw.count(' inv.stop '),
            'stop_callbacks_dequeued': raw.count(' stop.deq '), 'stop_callbacks_inline': raw.count(' stop.infin '),
            'stop_seen_at_S0': raw.count(' cva.stop0 2 1 '), 'stop_seen_at_S1': raw.count(' cva.stop1 2 1 '),
            'stop_unlinked_by_waiter': sum(1 for l in raw.split('\n') if ' stop.unlink ' in l and l.split()[3] == '1'),
            'stop_dtor_waited_for_requester': raw.count(' stop.waited '),
            'pika_task_cases': 1 if ' mode=pika' in c.split('\n')[0] else 0,
            'abort_all_calls': raw.count(' inv.abortall '), 'abort_all_swaps': raw.count(' cv.ab.swap '),
            'abort_all_pops': raw.count(' cv.ab.pop '), 'waits_that_threw': raw.count(' cv.threw '),
            'abort_all_extra_swaps_after_concurrent_enqueue': max(0, raw.count(' cv.ab.swap ') - raw.count(' inv.abortall ')),
            'abort_calls_after_target_left_its_wait': int(r['verdict'].split('late-abort=')[1].split()[0]) if 'late-abort=' in r.get('verdict', '') else 0,
            'pred_evals': raw.count(' pred '), 'lock_spins': raw.count(' ag.yield ') + raw.count(' ul.spin '),
            'deadlock_end': 1 if 'end deadlock' in raw else 0}


ORIG_REPLAY = [None]


def _unwrap_replay():
    """A replay written by this check is JSON with the case text under 'case'; hand e1check a plain
    case file (build/ is scratch space)."""
    import json
    for i, a in enumerate(sys.argv):
        if a == '--replay' and i + 1 < len(sys.argv):
            try:
                d = json.load(open(sys.argv[i + 1]))
            except Exception:
                return
            if isinstance(d, dict) and 'case' in d:
                ORIG_REPLAY[0] = sys.argv[i + 1]    # the live tier wants the JSON itself
                out = os.path.join(e1check.BUILD, 'replay_C07.case')
                os.makedirs(e1check.BUILD, exist_ok=True)
                with open(out, 'w') as f:
                    f.write(d['case'] + '\n')
                sys.argv[i + 1] = out


def live_tier(ctx):
    sys.path.insert(0, os.path.dirname(os.path.abspath(__file__)))
    import C07live
    if ORIG_REPLAY[0]:
        ctx = dict(ctx, replay=ORIG_REPLAY[0])
    return C07live.run(ctx)


def agent_source_obligations():
    sys.path.insert(0, os.path.dirname(os.path.abspath(__file__)))
    import C07live
    return C07live.source_obligations()


_unwrap_replay()
e1check.run(dict(
    prop='C07', props=['C07', 'C07Agent', 'C07d', 'C07t'], extra_check=live_tier, extra_obligations=agent_source_obligations, model='cv', harness='e1/cv.cpp', bin='e1_cv', gen=gen, nontrivial=nontrivial, stats=stats,
    quick=6000, thorough=150000, extra=12000,
    batches=[dict(model='cv', gen=gen, quick=6000, thorough=150000, extra=12000),
             dict(model='cvabort', gen=gen_abort, quick=1500, thorough=40000, extra=4000)],
    rule='random programs (2-6 threads, 1-3 blocks each: waiter blocks lock;wait|wait(pred)|wait_for|wait_for(pred)|wait(stop_token,pred)|wait_for(stop_token,d,pred);unlock, notifier blocks with set/notify_one/notify_all inside or after the critical section, bare notifies, request_stop inside/after/without a critical section) on one pika::condition_variable or condition_variable_any with a user-defined lock (via std::unique_lock or directly) or std::unique_lock<spinlock>, one shared stop_source in about 40 % of the condition_variable_any cases (a few of them on pika tasks instead of OS threads), PRNG schedules (uniform / priority / sticky; a third of the stop-token cases with a directed prefix of 2-4 long single-thread runs, and 1 in 8 of them a preemption-bounded probe: 1-2 stop-token waiters run a chosen number of steps, then request_stop runs to completion), virtual deadlines; non-trivial = at least one thread enqueued on the condition variable; distinct = distinct (program, schedule seed) text; second batch (follow-up C07d, model cvabort): 2-6 threads on one detail::condition_variable + its spinlock, waiters (wait / wait_for, 1-3 times each, catching the abort exception), notifiers, one thread calling abort_all once or twice, half of the cases with a directed prefix that parks waiters first',
    assumptions=['the stop state of the stop-token waits is modelled through the interface events of Model/CV.lean (its lock loops are the subject of C14; the stop.* lines of every log are also replayed through C14\'s acceptor); one shared stop_source',
                 'the user lock is modelled as an abstract mutual-exclusion lock; pika::mutex as the user lock (needs pika task identity) is not exercised by the harness',
                 'predicate state is changed only while holding the user lock (operation set)',
                 'default_agent (the execution agent of plain OS threads): modelled per agent object (Model/Agent.lean: std::mutex, two std::condition_variables with notification flags and spurious wake-ups, running_/aborted_), tied by the live tier; the OS-level wake-ups of std::condition_variable::wait are not logged (the log has the entry and the exit of each wait), yield_k/spin_k carry no hook (a source scan checks that they, yield and the sleeps mention none of the hand-shake members)',
                 'live tier: timed waits are exercised through the real default_agent only where nobody notifies them (a timed waiter on an OS thread that is notified before its deadline deadlocks on the pinned tree: finding timed-wait-os-thread-notified-deadlocks, reproduced by a directed run on every check); a run that uses up its wall-clock budget gives no verdict'],
))
