#!/usr/bin/env python3
"""C07 - condition variables: Lean model CV + theorems Props/C07.lean, tied by E1 (controlled schedules)."""
import os, sys
sys.path.insert(0, os.path.join(os.path.dirname(os.path.abspath(__file__)), '..', 'tools'))
import e1check


def gen(rng, cid):
    k = rng.weighted([(2, 4), (3, 5), (4, 3), (5, 1), (6, 1)])
    cv = rng.weighted([('plain', 1), ('any', 1)])
    lock = rng.weighted([('user', 3), ('spin', 2)] + ([('userraw', 2)] if cv == 'any' else []))
    flag = rng.weighted([(0, 4), (1, 1)])
    lines = [f'case {cid} cv={cv} lock={lock} flag={flag} seed={rng.below(1 << 30)} strat={rng.weighted([(0, 5), (1, 3), (2, 2)])}']
    for t in range(k):
        ops = []
        for _ in range(1 + rng.below(3)):
            b = rng.weighted([('waiter', 7), ('notifier', 6), ('bare', 2)])
            if b == 'waiter':
                ops.append('lock')
                for _ in range(rng.weighted([(1, 6), (2, 1)])):
                    ops.append(rng.weighted([('wait', 4), ('waitp', 3), ('twait', 3), ('twaitp', 3)]))
                    if rng.below(4) == 0:
                        ops.append('set 0')
                ops.append('unlock')
            elif b == 'notifier':
                n = rng.weighted([('n1', 3), ('nall', 2)])
                inside = rng.below(2) == 0
                ops.append('lock')
                if rng.below(5) != 0:
                    ops.append(f'set {rng.weighted([(1, 4), (0, 1)])}')
                if inside:
                    ops.append(n)
                ops.append('unlock')
                if not inside and rng.below(6) != 0:
                    ops.append(n)
            else:
                ops.append(rng.weighted([('n1', 1), ('nall', 1)]))
        lines.append(f'thread {t}: ' + ' ; '.join(ops) + ' ;')
    lines.append('endcase')
    return '\n'.join(lines)


def nontrivial(c, r):
    # a case is non-trivial when some thread really enqueued on the condition variable
    return ' cv.enq ' in r['raw']


def stats(c, r):
    raw = r['raw']
    return {'enqueued_waits': raw.count(' cv.enq '), 'timeouts_fired': raw.count(' ag.timeout '),
            'notify_one_pops': raw.count(' cv.pop '), 'notify_all_pops': raw.count(' cv.popall '),
            'notify_none': raw.count(' cv.none '), 'resume_dropped': raw.count(' ag.resume.dropped '),
            'timed_wait_signalled': raw.count(' cv.woke 5 0 1'), 'timed_wait_timed_out': raw.count(' cv.woke 5 1 1'),
            'untimed_spurious_wake': raw.count(' cv.woke 5 1 0'),
            'pred_evals': raw.count(' pred '), 'lock_spins': raw.count(' ag.yield ') + raw.count(' ul.spin '),
            'deadlock_end': 1 if 'end deadlock' in raw else 0}


def _unwrap_replay():
    """A replay written by this check is JSON with the case text under 'case'; hand e1check a plain
    case file (build/ is scratch space)."""
    import json
    for i, a in enumerate(sys.argv):
        if a == '--replay' and i + 1 < len(sys.argv):
            try:
                d = json.load(open(sys.argv[i + 1]))
            except Exception:
                return
            if isinstance(d, dict) and 'case' in d:
                out = os.path.join(e1check.BUILD, 'replay_C07.case')
                os.makedirs(e1check.BUILD, exist_ok=True)
                with open(out, 'w') as f:
                    f.write(d['case'] + '\n')
                sys.argv[i + 1] = out


_unwrap_replay()
e1check.run(dict(
    prop='C07', model='cv', harness='e1/cv.cpp', bin='e1_cv', gen=gen, nontrivial=nontrivial, stats=stats,
    quick=6000, thorough=150000, extra=12000,
    rule='random programs (2-6 threads, 1-3 blocks each: waiter blocks lock;wait|wait(pred)|wait_for|wait_for(pred);unlock, notifier blocks with set/notify_one/notify_all inside or after the critical section, bare notifies) on one pika::condition_variable or condition_variable_any with a user-defined lock (via std::unique_lock or directly) or std::unique_lock<spinlock>, PRNG schedules (uniform / priority / sticky), virtual deadlines; non-trivial = at least one thread enqueued on the condition variable; distinct = distinct (program, schedule seed) text',
    assumptions=['stop_token waits (condition_variable_any::wait(lock, stop_token, pred)) are not yet in the Lean model',
                 'the user lock is modelled as an abstract mutual-exclusion lock; pika::mutex as the user lock (needs pika task identity) is not exercised by the harness',
                 'predicate state is changed only while holding the user lock (operation set)'],
))
