#!/usr/bin/env python3
"""C08 - semaphores: Lean model Sem + theorems Props/C08.lean, tied by E1 (controlled schedules)."""
import os, sys
sys.path.insert(0, os.path.join(os.path.dirname(os.path.abspath(__file__)), '..', 'tools'))
import e1check


def gen_bulk_release(rng, cid):
    # directed family: several acquirers blocked on an empty semaphore, ONE release(n) with n >= the number of acquirers
    # as the last operation of the program; whatever the schedule, every acquirer must have returned at the end
    na = rng.weighted([(2, 4), (3, 3), (4, 2)])
    n = na + rng.weighted([(0, 6), (1, 2)])
    lines = [f'case {cid} kind=counting init=0 seed={rng.below(1 << 30)} strat={rng.weighted([(0, 4), (1, 3), (2, 3)])}']
    for t in range(na):
        lines.append(f'thread {t}: acq ;')
    lines.append(f'thread {na}: rel {n} ;')
    lines.append('endcase')
    return '\n'.join(lines)


def gen(rng, cid):
    if rng.below(8) == 0:
        return gen_bulk_release(rng, cid)
    k = rng.weighted([(2, 4), (3, 4), (4, 2), (5, 1)])
    kind = rng.weighted([('counting', 3), ('binary', 1)])
    init = rng.weighted([(0, 5), (1, 3), (2, 1), (3, 1)])
    if kind == 'binary':
        init = min(init, 1)
    lines = [f'case {cid} kind={kind} init={init} seed={rng.below(1 << 30)} strat={rng.weighted([(0, 5), (1, 3), (2, 2)])}']
    for t in range(k):
        ops = []
        for _ in range(1 + rng.below(4)):
            o = rng.weighted([('acq', 5), ('rel', 6), ('tryacq', 2), ('timed', 3), ('timed0', 1), ('timedneg', 1)])
            if o == 'rel':
                ops.append(f'rel {rng.weighted([(1, 6), (2, 2), (3, 1), (0, 1)])}' if kind == 'counting' else 'rel 1')
            else:
                ops.append(o)
        lines.append(f'thread {t}: ' + ' ; '.join(ops) + ' ;')
    lines.append('endcase')
    return '\n'.join(lines)


def gen_sliding(rng, cid):
    k = rng.weighted([(2, 4), (3, 4), (4, 2)])
    maxdiff = rng.weighted([(1, 4), (2, 3), (4, 1)])
    lower = rng.choice([0, 1, 2, 5])
    lines = [f'case {cid} model=ssem kind=sliding maxdiff={maxdiff} lower={lower} viaset={rng.below(2)} seed={rng.below(1 << 30)} strat={rng.weighted([(0, 5), (1, 3), (2, 2)])}']
    for t in range(k):
        ops = []
        for _ in range(1 + rng.below(4)):
            o = rng.weighted([('swait', 5), ('ssignal', 6), ('strywait', 2)])
            ops.append(f'{o} {rng.below(9)}')
        lines.append(f'thread {t}: ' + ' ; '.join(ops) + ' ;')
    lines.append('endcase')
    return '\n'.join(lines)


def nontrivial(c, r):
    # a case is non-trivial when some thread really blocked or slept (cv.enq in the log)
    return ' cv.enq ' in r['raw']


def stats(c, r):
    raw = r['raw']
    return {'blocked_waits': raw.count(' cv.enq '), 'timeouts': raw.count(' ag.timeout '),
            'notifies': raw.count(' cv.pop '), 'spins': raw.count(' ag.yield '),
            'deadlock_end': 1 if 'end deadlock' in raw else 0}


e1check.run(dict(
    prop='C08', props=['C08', 'C08t'], model='sem', harness='e1/sem.cpp', bin='e1_sem', nontrivial=nontrivial, stats=stats,
    batches=[dict(model='sem', gen=gen, quick=1500, thorough=40000, extra=6000),
             dict(model='ssem', gen=gen_sliding, quick=1000, thorough=25000, extra=4000)],
    rule='random programs (2-5 threads, 1-4 ops each over acquire/release(n)/try_acquire/try_acquire_for) on one counting or binary semaphore (random initial count; one case in eight is the directed family `k blocked acquirers, then one release(n >= k)`) and, second batch, wait/try_wait/signal programs on one sliding_semaphore (random max_difference / lower_limit), PRNG schedules (uniform / priority / sticky); non-trivial = at least one thread enqueued on the condition variable; distinct = distinct (program, schedule seed) text',
    assumptions=['sliding_semaphore::set_max_difference is not modelled (it changes the distance without notifying anybody)',
                 'the wake-up token of the verification agent stands for the suspend/resume of the real task agent (C02)'],
))
