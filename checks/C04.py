#!/usr/bin/env python3
"""C04 - async_rw_mutex: Lean model Rw + theorems Props/C04.lean, tied by E1 (controlled schedules).

Programs are random *sequential* histories that are legal under the specification (request order,
exclusive writers, grouped readers), cut into per-thread programs: thread 0 owns the mutex
(requests, destruction), every other operation goes to a random thread.  Each thread keeps the
order of the history, so the program cannot deadlock unless the implementation loses a grant."""
import os, sys
sys.path.insert(0, os.path.join(os.path.dirname(os.path.abspath(__file__)), '..', 'tools'))
import e1check


def gen(rng, cid):
    k = rng.weighted([(1, 1), (2, 4), (3, 4), (4, 3)])
    void = rng.weighted([(0, 3), (1, 1)])
    nmax = rng.weighted([(2, 2), (3, 3), (4, 3), (6, 3), (9, 2), (14, 1), (40, 1 if (os.environ.get('VERIF_LONG') or e1check.tier() == 'thorough') else 0)])
    pw = rng.weighted([(2, 1), (4, 2), (6, 1)])          # readwrite probability (tenths)
    pdrop = rng.weighted([(0, 1), (2, 3), (5, 1)])       # dropped-unstarted probability (tenths)
    eager = rng.below(3)                                 # 0: lazy starts, 1: mixed, 2: start early
    acc = []      # dicts: w, g, started, det, copies, seq
    ng, last_w, destroyed = 0, True, False
    ops = []      # (thread or None, text)
    moves = 0

    def complete(b):
        return (b['det'] and b['started']) or (b['started'] and b['copies'] == 0 and b['got'])

    def enabled(a):
        return all(complete(b) for b in acc if b['g'] < a['g'])

    steps = 0
    while True:
        steps += 1
        # a started, non-detached access whose group is enabled has been granted (sequentially)
        for a in acc:
            if a['started'] and not a['det'] and not a['got'] and enabled(a):
                a['got'] = True
                a['copies'] = 1
        cand = []
        if not destroyed and len(acc) < nmax:
            cand.append(('req', 5))
        if not destroyed and (len(acc) >= nmax or steps > 3):
            cand.append(('destroy', 1))
        if not destroyed and acc and moves < 2:
            cand.append(('mvmtx', 1))                    # the owner moves the mutex; the moved-from object stays alive
        uns = [i for i, a in enumerate(acc) if not a['started']]
        if uns:
            cand.append(('start', 3 + 3 * eager))
        live = [i for i, a in enumerate(acc) if a['got'] and a['copies'] > 0]
        if live:
            cand.append(('use', 3))
            cand.append(('rel', 4))
        if not cand:
            break
        if all(c[0] in ('destroy', 'mvmtx') for c in cand) and rng.below(10) < 3:
            break                                        # leave the mutex alive at the end
        o = rng.weighted(cand)
        if o == 'req':
            w = rng.below(10) < pw
            if w or last_w:
                ng += 1
            last_w = w
            acc.append(dict(w=w, g=ng - 1, started=False, det=False, copies=0, seq=0, got=False))
            ops.append((0, 'w' if w else 'r'))
        elif o == 'mvmtx':
            moves += 1
            ops.append((0, 'mvmtx'))
        elif o == 'destroy':
            destroyed = True
            ops.append((0, 'destroy'))
        elif o == 'start':
            i = uns[0] if rng.below(3) == 0 else rng.choice(uns)
            a = acc[i]
            a['started'] = True
            a['det'] = rng.below(10) < pdrop
            ops.append((None, f"{'drop' if a['det'] else 'start'} {i}"))
        elif o == 'use':
            i = rng.choice(live)
            a = acc[i]
            if a['w']:
                what = rng.weighted([('write', 3), ('readv', 1)])
            else:
                what = rng.weighted([('copy', 2 if a['copies'] < 3 else 0), ('readv', 2)])
            if what == 'copy':
                a['copies'] += 1
            ops.append((None, f"{what} {i} {a['seq']}"))
            a['seq'] += 1
        elif o == 'rel':
            i = rng.choice(live)
            a = acc[i]
            a['copies'] -= 1
            ops.append((None, f"rel {i} {a['seq']}"))
            a['seq'] += 1
    progs = [[] for _ in range(k)]
    home = {}
    for t, text in ops:
        if t is None:
            i = text.split()[1]
            if i in home and rng.below(3) != 0:
                t = home[i]
            else:
                t = rng.below(k)
                home[i] = t
        progs[t].append(text)
    lines = [f'case {cid} void={void} seed={rng.below(1 << 30)} strat={rng.weighted([(0, 5), (1, 3), (2, 2)])}']
    for t in range(k):
        lines.append(f'thread {t}: ' + ' ; '.join(progs[t]) + (' ;' if progs[t] else ''))
    lines.append('endcase')
    return '\n'.join(lines)


def nontrivial(c, r):
    # non-trivial: at least one operation state was really queued (successful CAS push) and later
    # handed its access by done(), i.e. the lock-free hand-off was exercised
    return ' arw.cont ' in r['raw']


def stats(c, r):
    raw = r['raw']
    lines = raw.split('\n')
    return {'queued': sum(1 for l in lines if ' arw.casd ' in l and l.split()[3] == '1'),
            'cas_failed': sum(1 for l in lines if ' arw.casd ' in l and l.split()[3] == '0'),
            'cas_failed_sentinel': sum(1 for l in lines if ' arw.casd ' in l and l.split()[3] == '0' and l.split()[4] == '2'),
            'inline_grants': sum(1 for l in lines if ' arw.loaded ' in l and l.split()[3] == '2'),
            'drained': raw.count(' arw.cont '), 'shared_states_destroyed': raw.count(' arw.dtor '),
            'detached': sum(1 for l in lines if ' start ' in l and l.split()[1] == 'start' and l.split()[4] == '1'),
            'value_destroyed': raw.count(' vfree '), 'not_ok_end': 0 if '\nend ok' in raw else 1}


e1check.run(dict(
    prop='C04', props=['C04', 'C04r'], model='rw', harness='e1/rw.cpp', bin='e1_rw', gen=gen, nontrivial=nontrivial, stats=stats,
    quick=6000, thorough=150000, extra=20000,
    corr_name='E1 log of harness/e1/rw.cpp (instrumented op_state_head + arw.dtor/arw.cont hooks) accepted by Lean model PikaVerif.Rw',
    rule='random sequential histories legal under the specification (2-14 requests over {read, readwrite}; senders started or dropped unstarted; read wrappers copied; values written/read; wrappers released; mutex destroyed at a random point or kept), cut into programs for 1-4 threads (thread 0 owns the mutex), run under PRNG schedules (uniform / priority / sticky) with a preemption point before every access to op_state_head and before every continuation; void and non-void mutexes; non-trivial = at least one queued operation state was granted by done() (arw.cont); distinct = distinct (program, schedule seed) text',
    trusted_extra=['harness/e1/rw.cpp compiles async_rw_mutex.hpp with std::atomic replaced by an instrumented wrapper (same operations on a real std::atomic inside; compare_exchange_weak is executed as compare_exchange_strong) and with a non-freeing allocator; shared_ptr control blocks are not instrumented, their count is modelled as one atomic counter whose decrement-to-zero runs the destructor in the same atomic block'],
    assumptions=['read senders are not copied (one access per sender); operation states are started right after connect; no exception leaves a receiver'],
))
