#!/usr/bin/env python3
"""C02 - no lost wake-up. Lean model Sched + Props/C02.lean (+ C01's token theorems);
tie: E2 logs with emphasis on hand-shakes (wake-ups racing with suspension) under heavy perturbation."""
import os, sys
sys.path.insert(0, os.path.join(os.path.dirname(os.path.abspath(__file__)), '..', 'tools'))
import e2check

POLICIES = ['local', 'local-priority-fifo', 'local-priority-lifo', 'static', 'static-priority',
            'abp-priority-fifo', 'abp-priority-lifo', 'shared-priority']


def runs(rng, tier):
    out = []
    if tier == 'thorough':
        for pol in POLICIES:
            for th in (2, 3, 4, 8, 16):
                for k in range(4):
                    out.append([rng.below(1 << 30), rng.choice([200, 400, 700]), 'pingpong', rng.choice([20, 40, 80]),
                                f'--pika:threads={th}', f'--pika:scheduler={pol}'])
    else:
        for i, pol in enumerate(POLICIES):
            for th in ((2, 8) if i % 2 == 0 else (4, 16)):
                out.append([rng.below(1 << 30), rng.choice([300, 600]), 'pingpong', rng.choice([20, 40]),
                            f'--pika:threads={th}', f'--pika:scheduler={pol}'])
    # "zoo": wake-ups of every kind in one task's life (latch, mutex + condition variable, join, semaphore released by
    # an OS thread, and an interrupt that ends a condition-variable wait after which the same task blocks again)
    for i, pol in enumerate(POLICIES):
        for th in ((2, 4, 8) if tier == 'thorough' else ((4,) if i % 2 == 0 else (3,))):
            for k in range(3 if tier == 'thorough' else 1):
                out.append([rng.below(1 << 30), rng.choice([0, 100, 300]), 'zoo', rng.choice([8, 12]),
                            f'--pika:threads={th}', f'--pika:scheduler={pol}'])
    return out


def extra_runs(rng, tier):
    return [[rng.below(1 << 30), 700, 'pingpong', 80, f'--pika:threads={th}', f'--pika:scheduler={pol}']
            for pol in POLICIES for th in (4, 8)]


def nontrivial(raw):
    return ' sw.restore2 ' in raw


def stats(raw):
    return {k: raw.count(' ' + k + ' ') for k in ('sts.enter', 'sw.restore2', 'sts.noop', 'sts.helper', 'sas.abort', 'sas.retry', 'sw.set')}


e2check.run(dict(
    prop='C02', model='sched', harness='e2/sched.cpp', bin='e2_sched', props=['C02', 'C02x'], translators=['stateword.py'],
    runs=runs, extra_runs=extra_runs, nontrivial=nontrivial, stats=stats, par=3, timeout_s=900,
    rule='hand-shake programs: a task blocks on a counting_semaphore (condition_variable + suspend) that a child task or an external OS thread releases, possibly before the waiter has finished switching off its worker; boosted spin-waits; "zoo" programs (latch, mutex + condition variable, join, an interrupt that ends a condition-variable wait after which the interrupted task blocks again and is released); all scheduling policies, 2-16 workers, PRNG timing perturbation at the instrumented sites (state-word loads/exchanges, queue insertions); non-trivial = at least one suspended->pending wake-up in the log; distinct = distinct argv',
    assumptions=['the end-to-end theorem C02_no_lost_wakeup assumes that a helper task which logged sas.retry re-enters set_thread_state (straight-line code after the hook; hypothesis `owing [] post = []`)',
                 'timed suspension does not exist in this tree (this_thread::sleep_for throws), so no timer wakes are exercised'],
))
