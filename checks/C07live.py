"""C07, live tier (follow-up C07h): harness/e2/agent_live.cpp lets REAL OS threads block on
pika::condition_variable / condition_variable_any (plain, predicate, timed, stop-token waits, and a
detail::condition_variable destroyed under a waiter) through the REAL pika default_agent
(libs/pika/execution_base/src/this_thread.cpp) while other OS threads and pika tasks notify - the E1 tie of
C07 replaces that agent by the baton's.  Every iteration's exact log (engine E2: hook notes under one log lock)
is replayed through the Lean acceptor of Model/Agent.lean (`driver agent`, theorems Props/C07Agent.lean) and
through the log monitors; the harness adds observable monitors and a state-based lost-wake-up verdict (a waiter
blocked in suspend() with running_ == false at quiescence after 3 further notify_all calls changed nothing).
Every 4th iteration is a directed schedule that holds the waiter between releasing the condition variable's
internal lock and suspend() until the notifier that popped it is inside resume().
No verdict depends on elapsed time: a run that uses up its wall-clock budget is reported as a NOTE."""
import os, sys, re, json, subprocess
from concurrent.futures import ThreadPoolExecutor
sys.path.insert(0, os.path.join(os.path.dirname(os.path.abspath(__file__)), '..', 'tools'))
from vlib import *

# ./check C07 --replay <file> goes through the E1 stage first: a replay file of this tier carries a trivial,
# always-accepted E1 case under 'case' so that only the live run named by 'argv' matters
TRIVIAL_E1_CASE = 'case live0 cv=plain lock=user flag=0 seed=1 strat=0\nthread 0: lock ; set 1 ; unlock ; nall ;\nendcase'
FINDING_ID = 'timed-wait-os-thread-notified-deadlocks'
FINDING_SIG = 'timed-wait-deadlock'
SOURCE = 'libs/pika/execution_base/src/this_thread.cpp'


def source_obligations():
    """The model's claim that yield / yield_k / spin_k / sleep_for / sleep_until take no part in the hand-shake is
    tied to the source text: running_, aborted_, mtx_, suspend_cv_, resume_cv_ may only be mentioned in the
    constructor, suspend, resume, abort (and the member declarations).  Returns a list of problems."""
    repo = os.environ.get('VERIF_REPO', '/repo')
    try:
        src = open(os.path.join(repo, SOURCE)).read()
    except OSError as e:
        return [f'cannot read {SOURCE}: {e}']
    m = re.search(r'struct default_agent : detail::agent_base(.*?)\n    \}\}    // namespace detail', src, flags=re.S)
    if not m:
        return [f'{SOURCE}: default_agent not found (source layout changed: re-check Model/Agent.lean)']
    body = m.group(1)
    probs = []
    parts = re.split(r'\n        (?:void )?default_agent::', body)
    seen = set()
    for p in parts[1:]:
        name = re.match(r'(\w+)', p).group(1)
        seen.add(name)
        uses = set(re.findall(r'\b(running_|aborted_|mtx_|suspend_cv_|resume_cv_)\b', p))
        if name in ('default_agent', 'suspend', 'resume', 'abort'):
            continue
        if uses:
            probs.append(f'{SOURCE}: default_agent::{name} mentions {sorted(uses)} (the model treats it as taking no part in the hand-shake)')
    for need in ('suspend', 'resume', 'abort', 'yield', 'yield_k', 'spin_k', 'sleep_for', 'sleep_until'):
        if need not in seen:
            probs.append(f'{SOURCE}: default_agent::{need} not found')
    return probs


def plan(rng, tr):
    """argv lists (without the binary): seed, iterations, budget_s, mode, pika options"""
    if tr == 'thorough':
        runs = [[rng.below(1 << 30), 20000, 900, 'mix', f'--pika:threads={t}'] for t in (1, 2, 2, 3, 4, 2)]
        runs += [[rng.below(1 << 30), 3000, 600, 'directed', '--pika:threads=2']]
    else:
        runs = [[rng.below(1 << 30), 1500, 120, 'mix', f'--pika:threads={t}'] for t in (1, 2, 3)]
        runs += [[rng.below(1 << 30), 200, 60, 'directed', '--pika:threads=2']]
    return runs


def split_cases(out):
    cases, cur = [], None
    for l in out.split('\n'):
        if l.startswith('case '):
            cur = [l]
        elif cur is not None:
            cur.append(l)
            if l == 'endcase':
                cases.append('\n'.join(cur))
                cur = None
    return cases


def run_one(hbin, argv):
    driver = os.path.join(LEAN, '.lake', 'build', 'bin', 'driver')
    budget = float(argv[2])
    try:
        h = subprocess.run([hbin] + [str(a) for a in argv], capture_output=True, text=True, errors='replace', timeout=budget + 120)
        out, rc = h.stdout, h.returncode
    except subprocess.TimeoutExpired as e:
        out = (e.stdout or b'').decode(errors='replace') if isinstance(e.stdout, bytes) else (e.stdout or '')
        rc = -999
    cases = split_cases(out)
    d = subprocess.run([driver, 'agent'], input='\n'.join(cases) + '\n', capture_output=True, text=True)
    verdicts = [l for l in d.stdout.split('\n') if l.startswith('case ')]
    res = []
    for i, c in enumerate(cases):
        v = verdicts[i] if i < len(verdicts) else 'case ? reject 0 [no-driver-output]'
        end = next((l for l in reversed(c.split('\n')) if l.startswith('end ')), 'end ?')[4:]
        if end == 'inconclusive':
            k = 'inconclusive'
        elif 'monitors FAIL' in v:
            k = 'monitor'
        elif ' accept ' in v and 'MISMATCH' not in v:
            k = 'pass'
        else:
            k = 'tie'
        res.append({'case': c, 'verdict': v, 'kind': k, 'end': end})
    summary = any(l.startswith('summary ') for l in out.split('\n'))
    crashed = not summary and rc not in (0, 3, -999)
    return {'argv': argv, 'cases': res, 'rc': rc, 'summary': summary, 'crashed': crashed, 'tail': out[-1500:]}


def run(ctx):
    prop, tr, base_seed, rng = ctx['prop'], ctx['tier'], ctx['seed'], ctx['rng']
    ok_h, hbin, hlog = compile_harness('e2_agent_live', 'e2/agent_live.cpp', libs='-ldl -rdynamic')
    if not ok_h:
        p = write_replay(prop, f'build-failure-live-{base_seed}.txt', hlog)
        return {'violations': [f'VIOLATION property={prop} replay={p} no-failing-input-found'], 'explanation': 'live harness (default_agent) failed to build'}
    finding_runs = []
    if ctx.get('replay'):
        try:
            rp = json.load(open(ctx['replay']))
        except Exception:
            rp = {}
        if not (isinstance(rp, dict) and rp.get('kind') == 'agent-live'):
            return {'violations': [], 'explanation': 'live tier: replay is not a live run'}
        runs = [rp['argv']]
    else:
        runs = plan(rng, tr)
        finding_runs = [[rng.below(1 << 30), 1, 60, 'finding', '--pika:threads=1']]
    with ThreadPoolExecutor(max_workers=2) as ex:
        res = list(ex.map(lambda a: run_one(hbin, a), runs + finding_runs))
    fres, res = res[len(runs):], res[:len(runs)]

    viol, reported, notes = [], set(), []
    kinds = {'pass': 0, 'monitor': 0, 'tie': 0, 'inconclusive': 0}
    stats = {'directed': 0, 'random': 0, 'abort': 0, 'timeout': 0, 'suspensions': 0, 'resumer_waited_for_suspend': 0,
             'pika_task_notifiers': 0, 'stop_token_waits': 0, 'rescued': 0, 'events': 0}
    ties = []
    for r in res:
        if r['crashed']:
            p = write_replay(prop, f'live-crash-{base_seed}.json', {'property': prop, 'kind': 'agent-live', 'argv': r['argv'], 'what': f"harness died (rc={r['rc']})",
                             'output_tail': r['tail'], 'case': TRIVIAL_E1_CASE})
            viol.append(f'VIOLATION property={prop} replay={p}')
        if r['rc'] == -999:
            notes.append(f"live run {r['argv']}: wall-clock limit of the check reached (no verdict)")
        for c in r['cases']:
            kinds[c['kind']] += 1
            hdr = c['case'].split('\n')[0]
            for k in ('directed', 'random', 'abort', 'timeout'):
                if f' kind={k} ' in hdr:
                    stats[k] += 1
            raw = c['case']
            stats['suspensions'] += raw.count(' dag.s.park ')
            stats['resumer_waited_for_suspend'] += len(re.findall(r' dag\.[ra]\.acq \d+ 1 ', raw))
            stats['pika_task_notifiers'] += hdr.count('T:')
            stats['stop_token_waits'] += hdr.count('swaitp')
            stats['rescued'] += 1 if ' x.rescue ' in raw else 0
            m = re.search(r' accept (\d+)', c['verdict'])
            stats['events'] += int(m.group(1)) if m else 0
            if c['kind'] == 'inconclusive':
                notes.append(f"live iteration {hdr.split()[1]}: wall-clock budget used up (no verdict)")
            elif c['kind'] == 'monitor':
                what = c['verdict'].split('monitors FAIL:')[-1].strip()
                sig = re.sub(r'\d+', 'N', what)[:160]
                if sig in reported:
                    continue
                reported.add(sig)
                p = write_replay(prop, f'live-{base_seed}-{len(reported)}.json',
                                 {'property': prop, 'kind': 'agent-live', 'what': what, 'argv': r['argv'], 'failing_iteration': hdr,
                                  'impl_history': raw, 'model_verdict': c['verdict'], 'case': TRIVIAL_E1_CASE,
                                  'rerun_cmd': f'cd {HERE} && ./check {prop} --replay <this file>   (or: {hbin} ' + ' '.join(str(a) for a in r['argv']) + ' | lean/.lake/build/bin/driver agent)'})
                viol.append(f'VIOLATION property={prop} replay={p}')
            elif c['kind'] == 'tie':
                ties.append((r, c))
    if ties and not viol:
        r, c = ties[0]
        p = write_replay(prop, f'live-tie-{base_seed}.json',
                         {'property': prop, 'kind': 'agent-live', 'correspondence': 'E2 log of harness/e2/agent_live.cpp accepted by Lean model Agent',
                          'first_divergence': c['verdict'], 'argv': r['argv'], 'impl_history': c['case'], 'diverging_cases': len(ties), 'case': TRIVIAL_E1_CASE})
        viol.append(f'VIOLATION property={prop} replay={p} no-failing-input-found')

    # directed reproduction of the genuine finding (timed wait on an OS thread notified before its deadline):
    # never a VIOLATION by itself; reported as KNOWN-FINDING when listed in known_findings.txt, as a NOTE otherwise
    kf = known_findings(prop)
    for r in fres:
        hit = [c for c in r['cases'] if FINDING_SIG in c['case']]
        if hit:
            msg = next(l for l in hit[0]['case'].split('\n') if l.startswith('monitor '))[8:]
            if any(f['signature'] and f['signature'] in msg for f in kf):
                print(f'KNOWN-FINDING: property={prop} {FINDING_ID}: {msg[:200]}')
            else:
                print(f'NOTE: property={prop} finding {FINDING_ID} reproduced by its directed run (not listed in known_findings.txt; see notes/C07.md, Follow-up C07h): {msg[:160]}')
        else:
            print(f'NOTE: property={prop} finding {FINDING_ID} did not reproduce in its directed run on this tree')
    for n in notes[:5]:
        print(f'NOTE: property={prop} {n}')
    total = sum(kinds.values())
    print(f"{prop} live tier (real default_agent): {total} iterations: {kinds}; directed-window schedules {stats['directed']}, "
          f"suspensions {stats['suspensions']}, resumers that had to wait for the suspension {stats['resumer_waited_for_suspend']}, "
          f"abort scenarios {stats['abort']}")
    return {'violations': viol, 'evaluations': total, 'validated': kinds['pass'], 'disagreements': kinds['tie'],
            'explanation': 'live tier harness/e2/agent_live.cpp (real OS threads blocking on pika condition variables through the real default_agent, '
                           'OS-thread and pika-task notifiers; exact E2 log replayed through Lean model Agent + log monitors + observable monitors; '
                           f'state-based lost-wake-up verdict): iterations {kinds}; distribution {stats}; notes (no verdict): {notes[:5]}'}
