#!/usr/bin/env python3
"""C09 (latch / event / call_once part) - Lean models Latch and Once + theorems Props/C09.lean,
tied by E1 (controlled schedules of the real pika::latch, pika::experimental::event, pika::call_once)."""
import os, sys
sys.path.insert(0, os.path.join(os.path.dirname(os.path.abspath(__file__)), '..', 'tools'))
import e1check


# share (out of 10) of the cases that run with agent=task: a live runtime per case costs about 15-40 ms
# of CPU against < 1 ms for an OS-thread case, so the thorough tier (400000 cases) uses a smaller share
TASK_SHARE = 1 if e1check.tier() == 'thorough' else 3

# (the call_once rethrow-after-yield defect found by this mode is repaired in /repo: `fixed:` line in known_findings.txt;
# its case findings/C09-call-once-rethrow-after-yield.case runs with the corpus on every run and must pass)


def split_updates(rng, total):
    """split `total` into a list of updates (some of them 0 or > 1: count_down(n))"""
    ups = []
    while total > 0:
        u = min(total, rng.weighted([(1, 6), (2, 3), (3, 1)]))
        ups.append(u)
        total -= u
    if rng.below(5) == 0:
        ups.append(0)
    return ups


def gen_latch(rng, cid):
    k = rng.weighted([(2, 3), (3, 4), (4, 3), (5, 2), (6, 1)])
    init = rng.weighted([(0, 1), (1, 3), (2, 4), (3, 3), (4, 2), (6, 1)])
    mode = rng.weighted([('exact', 7), ('short', 2), ('over', 1)])
    total = init if mode == 'exact' else (rng.below(init) if init > 0 else 0) if mode == 'short' else init + 1 + rng.below(2)
    ops = [[] for _ in range(k)]
    for u in split_updates(rng, total):
        ops[rng.below(k)].append(('aw %d' if rng.below(3) == 0 else 'cd %d') % u)
    for t in range(k):
        for _ in range(rng.weighted([(0, 2), (1, 4), (2, 2)])):
            o = rng.weighted([('wait', 5), ('try', 2)])
            ops[t].insert(rng.below(len(ops[t]) + 1), o)
    lines = [f'case {cid} kind=latch init={init} mode={mode} seed={rng.below(1 << 30)} strat={rng.weighted([(0, 5), (1, 3), (2, 2)])}']
    for t in range(k):
        lines.append(f'thread {t}: ' + ''.join(o + ' ; ' for o in ops[t]))
    lines.append('endcase')
    return '\n'.join(lines)


def gen_event(rng, cid):
    k = rng.weighted([(2, 3), (3, 4), (4, 3), (5, 1)])
    with_reset = rng.below(3) == 0
    lines = [f'case {cid} kind=event seed={rng.below(1 << 30)} strat={rng.weighted([(0, 5), (1, 3), (2, 2)])}']
    for t in range(k):
        ops = []
        for _ in range(1 + rng.below(3)):
            ops.append(rng.weighted([('ewait', 6), ('eset', 4), ('eocc', 1), ('ereset', 3 if with_reset else 0)]))
        lines.append(f'thread {t}: ' + ''.join(o + ' ; ' for o in ops))
    lines.append('endcase')
    return '\n'.join(lines)


def gen_once(rng, cid):
    k = rng.weighted([(2, 2), (3, 4), (4, 3), (5, 2), (6, 1)])
    pthrow = rng.weighted([(0, 3), (1, 3), (2, 2), (4, 1)])      # out of 4
    # no priority schedules (strat=1) here: after a failed attempt a loser of the CAS can busy-spin
    # through status load / CAS / event fast path without ever suspending until the new winner has
    # reset the event; an unfair schedule that never runs the winner makes that spin endless
    # (see notes/C09L.md, finding "call_once spin window")
    lines = [f'case {cid} kind=once seed={rng.below(1 << 30)} strat={rng.weighted([(0, 6), (2, 3)])}']
    for t in range(k):
        ops = []
        for _ in range(1 + rng.below(2)):
            ops.append('call %d' % (1 if rng.below(4) < pthrow else 0))
        lines.append(f'thread {t}: ' + ''.join(o + ' ; ' for o in ops))
    lines.append('endcase')
    return '\n'.join(lines)


def gen(rng, cid):
    kind = rng.weighted([('latch', 5), ('event', 2), ('once', 3)])
    txt = {'latch': gen_latch, 'event': gen_event, 'once': gen_once}[kind](rng, cid)
    if rng.below(10) < TASK_SHARE:
        # follow-up C09p: every model thread is a pika task of a live runtime (n + 1 workers); blocking
        # goes through pika's own task agent (real suspension / set_thread_state wake-up)
        head, rest = txt.split('\n', 1)
        extra = ' agent=task'
        if rng.below(2) == 0:
            # lean variant: also the wait for the baton is a real suspension, so no task ever blocks a worker
            # and the n tasks run on W = 1..3 workers (mostly fewer workers than participants)
            extra += ' workers=%d' % (1 + rng.below(3))
        txt = head + extra + '\n' + rest
    return txt


def nontrivial(c, r):
    # some thread really blocked on the condition variable, or (call_once) lost the CAS
    return ' cv.enq ' in r['raw'] or ' once.lost ' in r['raw']


def task_stats(c, raw):
    if ' agent=task' not in c.split('\n')[0]:
        return {}
    import re
    m = re.search(r'^\d+ tk\.stat \d+ (\d+) (\d+)$', raw, flags=re.M)
    return {'cases_task_agent': 1, 'task_real_suspensions': int(m.group(1)) if m else 0,
            'task_resumes_of_active_task': int(m.group(2)) if m else 0,      # wake-up carried by pika's set_active_state helper
            'task_fallback_to_os_agent': raw.count(' tk.fallback '),
            'cases_task_fewer_workers_than_tasks': 1 if (re.search(r' workers=(\d+)', c.split('\n')[0]) and int(re.search(r' workers=(\d+)', c.split('\n')[0]).group(1)) < c.count('\nthread ')) else 0}         # inconclusive live runs (expected 0)


def stats(c, r):
    raw = r['raw']
    kind = 'latch' if 'kind=latch' in c else 'event' if 'kind=event' in c else 'once'
    return {'cases_' + kind: 1, 'blocked_waits': raw.count(' cv.enq '), 'notify_one': raw.count(' cv.pop '),
            'notify_all_resumes': raw.count(' cv.popall '),
            'latch_window_waits': raw.count(' latch.mustwait 1 0 0'),   # counter already 0, notified_ not yet set
            'once_lost': raw.count(' once.lost '), 'once_failed_runs': raw.count(' once.stored 1 0 '),
            'spins': raw.count(' ag.yield '), 'deadlock_end': 1 if 'end deadlock' in raw else 0, **task_stats(c, raw)}


e1check.run(dict(
    prop='C09L', props=['C09', 'C09uLatch', 'C09uOnce'], model='c09l', harness='e1/c09l.cpp', bin='e1_c09l', gen=gen, nontrivial=nontrivial, stats=stats,
    quick=8000, thorough=400000, extra=20000,
    rule='random programs on one object under the baton, callers on OS threads (agent=os) or - 30 % of the quick cases, 10 % of the thorough cases - on pika tasks of a live runtime with n + 1 workers whose blocking goes through pika\'s own task agent (agent=task: real suspension of the task, wake-up by set_thread_state, lost real wake-up declared from runtime state): latch (2-6 threads, initial count 0-6, count_down(n)/arrive_and_wait(n) updates summing to exactly / less than / more than the count, wait, try_wait), event (2-5 threads, wait/set/occurred, a third of the cases with reset), call_once (2-6 threads, 1-2 calls each, callable throwing with probability 0..1); PRNG schedules (uniform / priority / sticky); non-trivial = at least one thread enqueued on the condition variable or lost the call_once CAS; distinct = distinct (program, schedule seed) text',
    corr_name='E1 log of harness/e1/c09l.cpp (real pika::latch / event / call_once, callers on OS threads or on pika tasks) accepted by the Lean acceptors Latch.step / Once.step',
    trusted_extra=['log parser of lean/Driver/LatchDrv.lean / OnceDrv.lean: grant lines of preemption points that carry no state change are dropped as stutter (latch.count_down, latch.inlock, event.wait, event.set, event.inlock, once.cas, once.reset, once.done, once.fail) and cv.pop / cv.all are merged with the agent resume lines that follow them inside the same atomic block',
                   'try_wait / reset / occurred are one-line functions that cannot take an add-only hook: the harness invocation point is the preemption point in front of their single atomic access'],
    assumptions=['barrier part of C09 is checked separately (Props/C09Barrier.lean)',
                 'the execution agent resumes a suspended thread only after a resume call (no spurious wake-ups): latch::wait calls cond_.wait once without re-checking'],
))
