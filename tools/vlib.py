#!/usr/bin/env python3
"""Shared machinery of the /verif checks: builds, Lean audit, E1 runner, evidence, verdicts."""
import json, os, re, subprocess, sys, time, hashlib, shutil, fcntl
from concurrent.futures import ThreadPoolExecutor

HERE = os.path.dirname(os.path.dirname(os.path.abspath(__file__)))
REPO = os.environ.get('VERIF_REPO', '/repo')
LEAN = os.path.join(HERE, 'lean')
BUILD = os.path.join(HERE, 'build')
BIN = os.path.join(BUILD, 'bin')
REPLAYS = os.path.join(HERE, 'replays')
ALLOWED_AXIOMS = {'propext', 'Classical.choice', 'Quot.sound'}
FORBIDDEN = re.compile(r'\bsorry\b|\badmit\b|^\s*axiom\s|native_decide|bv_decide|implemented_by|\bunsafe\s|maxHeartbeats\s+0')
TRUSTED_BASE = [
    "Lean 4.33.0 kernel (lake build); axioms admitted: propext, Classical.choice, Quot.sound only (audited with #print axioms on every property theorem each run); no native_decide/bv_decide/sorry/own axioms",
    "the hand-written Lean model follows the C++ at hook-event granularity; it is tied to /repo's working tree only by the correspondence run of this check (finite, counts below), not by a proof about the C++ text",
    "harness: baton controller + verification agent (harness/baton.hpp), hook sink, log parser in lean/Driver (events dropped as stutter: sl.lock, ag.yield)",
    "sequentially consistent interleavings only (one logical thread runs at a time); weak-memory effects are outside the engine",
]


class Rng:
    """splitmix64; every random choice of a check derives from VERIF_SEED through this."""
    M = (1 << 64) - 1

    def __init__(self, seed):
        self.s = seed & self.M

    def next(self):
        self.s = (self.s + 0x9e3779b97f4a7c15) & self.M
        z = self.s
        z = ((z ^ (z >> 30)) * 0xbf58476d1ce4e5b9) & self.M
        z = ((z ^ (z >> 27)) * 0x94d049bb133111eb) & self.M
        return z ^ (z >> 31)

    def below(self, n):
        return self.next() % n if n > 0 else 0

    def choice(self, xs):
        return xs[self.below(len(xs))]

    def weighted(self, pairs):
        tot = sum(w for _, w in pairs)
        r = self.below(tot)
        for x, w in pairs:
            if r < w:
                return x
            r -= w
        return pairs[-1][0]


def seed_for(prop):
    base = int(os.environ.get('VERIF_SEED', '1'))
    h = int(hashlib.sha256(prop.encode()).hexdigest()[:12], 16)
    return base, (base * 0x9e3779b97f4a7c15 ^ h) & ((1 << 64) - 1)


def tier():
    t = os.environ.get('VERIF_TIER', 'quick')
    for i, a in enumerate(sys.argv):
        if a == '--tier' and i + 1 < len(sys.argv):
            t = sys.argv[i + 1]
    return t


def sh(cmd, **kw):
    return subprocess.run(cmd, shell=isinstance(cmd, str), capture_output=True, text=True, **kw)


class Lock:
    def __init__(self, name):
        os.makedirs(BUILD, exist_ok=True)
        self.f = open(os.path.join(BUILD, name + '.lock'), 'w')

    def __enter__(self):
        fcntl.flock(self.f, fcntl.LOCK_EX)

    def __exit__(self, *a):
        fcntl.flock(self.f, fcntl.LOCK_UN)


# ----------------------------------------------------------------------------- Lean side
def lean_build(props=None):
    """lake build (incremental) of what ONE check needs: the Props module(s) of its property and the
    driver executable - not the whole library, so that a proof broken by a change that concerns another
    property does not break this check.  All translators are re-run first so that no generated file is
    left over from an earlier run on a different tree (a failing translator keeps its old output; the
    owning check reports that itself).  Returns (ok, log)."""
    tdir = os.path.join(HERE, 'tools', 'translate')
    if os.path.isdir(tdir):
        for t in sorted(os.listdir(tdir)):
            if t.endswith('.py') and t != 'cxx_expr.py':    # cxx_expr.py is a library module
                sh(['python3', os.path.join(tdir, t)])
    if props is None:
        targets = ''
    else:
        pfs = [props] if isinstance(props, str) else list(props)
        targets = ' '.join(f'PikaVerif.Props.{p}' for p in pfs) + ' driver'
    with Lock('lake'):
        r = sh(f'lake build {targets} 2>&1', cwd=LEAN)
    return r.returncode == 0, r.stdout[-6000:]


def strip_comments(src):
    src = re.sub(r'/-.*?-/', '', src, flags=re.S)
    src = re.sub(r'--.*', '', src)
    return src


def lean_audit(prop, modules):
    """Audit the property theorems of Props/<prop>.lean.
    Returns dict(obligations, discharged, theorems=[(name, axioms, ok)], problems=[...])."""
    problems = []
    props_file = os.path.join(LEAN, 'PikaVerif', 'Props', prop + '.lean')
    src = open(props_file).read()
    names = re.findall(r'^theorem\s+([A-Za-z0-9_\.]+)', strip_comments(src), flags=re.M)
    ns = re.search(r'^namespace\s+(\S+)', src, flags=re.M).group(1)
    # forbidden tokens anywhere in the library or driver
    for root in ('PikaVerif', 'Driver'):
        for dp, _, fs in os.walk(os.path.join(LEAN, root)):
            for f in fs:
                if f.endswith('.lean'):
                    body = strip_comments(open(os.path.join(dp, f)).read())
                    for i, line in enumerate(body.split('\n')):
                        if FORBIDDEN.search(line):
                            problems.append(f'forbidden token in {os.path.relpath(os.path.join(dp, f), LEAN)}: {line.strip()[:80]}')
    audit = os.path.join(BUILD, f'Audit_{prop}.lean')
    os.makedirs(BUILD, exist_ok=True)
    with open(audit, 'w') as f:
        f.write(f'import PikaVerif.Props.{prop}\n')
        for n in names:
            f.write(f'#print axioms {ns}.{n}\n')
    with Lock('lake'):
        r = sh(f'lake env lean {audit} 2>&1', cwd=LEAN)
    out = r.stdout
    thms = []
    for n in names:
        full = f'{ns}.{n}'
        m = re.search(r"'" + re.escape(full) + r"' depends on axioms: \[(.*?)\]", out, flags=re.S)
        if m:
            ax = [a.strip() for a in m.group(1).replace('\n', ' ').split(',') if a.strip()]
        elif re.search(r"'" + re.escape(full) + r"' does not depend on any axioms", out):
            ax = []
        else:
            ax = None
        ok = ax is not None and set(ax) <= ALLOWED_AXIOMS
        if not ok:
            problems.append(f'theorem {full}: axioms {ax}')
        thms.append((full, ax, ok))
    if r.returncode != 0:
        problems.append('audit failed: ' + out[-400:])
    return {'obligations': len(names), 'discharged': sum(1 for t in thms if t[2]) if r.returncode == 0 else 0,
            'theorems': thms, 'problems': problems,
            'checker_cmd': f'cd {LEAN} && lake build && lake env lean {audit}  # #print axioms for each theorem of Props/{prop}.lean'}


def leanchecker(mods):
    res = []
    for m in mods:
        with Lock('lake'):
            r = sh(f'lake env leanchecker {m} 2>&1', cwd=LEAN)
        res.append((m, r.returncode == 0, r.stdout[-300:]))
    return res


# ----------------------------------------------------------------------------- C++ side
def pika_build(variant='hooks'):
    r = sh([os.path.join(HERE, 'tools', 'build_pika.sh'), variant])
    return r.returncode == 0, (r.stdout + r.stderr)[-3000:]


def pika_flags(variant='hooks'):
    return sh([os.path.join(HERE, 'tools', 'pika_flags.sh'), variant]).stdout.strip()


def compile_harness(name, src, variant='hooks', extra='-O1', libs=''):
    """Compile harness/<src> against /repo's current headers + the hooks build; always recompiles
    (pika headers may have changed)."""
    os.makedirs(BIN, exist_ok=True)
    out = os.path.join(BIN, name)
    with Lock('cc_' + name):
        r = sh(f'g++ {extra} {os.path.join(HERE, "harness", src)} {pika_flags(variant)} {libs} -o {out}.tmp && mv {out}.tmp {out}')
    return r.returncode == 0, out, (r.stdout + r.stderr)[-3000:]


def run_e1(harness, model, case_texts, jobs=16, tag='e1'):
    """Run cases (list of case-file texts, one case each) through harness | driver.
    Returns list of dicts {id, verdict line, raw (harness output of that case)}."""
    work = os.path.join(BUILD, 'work', f'{tag}_{os.getpid()}')
    os.makedirs(work, exist_ok=True)
    nchunks = max(1, min(jobs, len(case_texts)))
    chunks = [[] for _ in range(nchunks)]
    for i, c in enumerate(case_texts):
        chunks[i % nchunks].append(c)
    driver = os.path.join(LEAN, '.lake', 'build', 'bin', 'driver')

    def one(i):
        cf = os.path.join(work, f'c{i}.case')
        with open(cf, 'w') as f:
            f.write('\n'.join(chunks[i]) + '\n')
        try:
            h = sh(f'{harness} {cf}', timeout=5400)
            raw = h.stdout
        except subprocess.TimeoutExpired as e:
            # a harness that never finishes its chunk (seen once on a mutant: an endless loop inside the code under test):
            # the cases it did not report come out as `no-output` = ties (VIOLATION ... no-failing-input-found), never as passes
            out = e.stdout or ''
            raw = out.decode(errors='replace') if isinstance(out, bytes) else out

            class _H:
                stderr = 'harness did not finish its chunk within the wall-clock limit of the check'
            h = _H()
        try:
            d = subprocess.run([driver, model], input=raw, capture_output=True, text=True, timeout=3600)
            return raw, d.stdout, h.stderr[-500:] + d.stderr[-500:]
        except subprocess.TimeoutExpired:
            # no verdict lines: every case of the chunk is reported as `no-output` (a tie), never as a pass
            return raw, '', h.stderr[-500:] + ' model driver did not finish within the wall-clock limit of the check'

    with ThreadPoolExecutor(max_workers=nchunks) as ex:
        outs = list(ex.map(one, range(nchunks)))
    results = {}
    for raw, verdicts, err in outs:
        raws = {}
        cur = None
        buf = []
        for line in raw.split('\n'):
            if line.startswith('case '):
                cur = line.split()[1]
                buf = [line]
            elif cur is not None:
                buf.append(line)
                if line == 'endcase':
                    raws[cur] = '\n'.join(buf)
                    cur = None
        for line in verdicts.split('\n'):
            if line.startswith('case '):
                cid = line.split()[1]
                results[cid] = {'id': cid, 'verdict': line, 'raw': raws.get(cid, ''), 'err': err}
    shutil.rmtree(work, ignore_errors=True)
    out = []
    for c in case_texts:
        cid = c.split('\n')[0].split()[1]
        out.append(results.get(cid, {'id': cid, 'verdict': f'case {cid} reject 0 [no-output]', 'raw': '', 'err': ''}))
    return out


def classify(v):
    """-> 'pass' | 'monitor' | 'tie'"""
    line = v['verdict']
    if 'monitors FAIL' in line or ' end crash' in v['raw'] or '\nend crash' in v['raw']:
        return 'monitor'
    if ' accept ' in line and 'MISMATCH' not in line and 'final status' not in line:
        return 'pass'
    return 'tie'


# ----------------------------------------------------------------------------- verdicts
def known_findings(prop):
    path = os.path.join(HERE, 'known_findings.txt')
    out = []
    if os.path.exists(path):
        for l in open(path):
            l = l.strip()
            if l.startswith('finding:') and f'property={prop} ' in l + ' ':
                m = re.search(r'id=(\S+)', l)
                # the signature ends at a trailing `  # comment` or ` case=<file>` annotation
                sig = re.search(r'signature=(.*)$', l)
                sg = sig.group(1) if sig else ''
                sg = re.split(r'\s+#\s', sg)[0]
                sg = re.split(r'\s+case=', sg)[0]
                out.append({'id': m.group(1) if m else '?', 'signature': sg.strip(), 'line': l})
    return out


def write_replay(prop, name, payload):
    d = os.path.join(REPLAYS, prop)
    os.makedirs(d, exist_ok=True)
    p = os.path.join(d, name)
    with open(p, 'w') as f:
        if isinstance(payload, str):
            f.write(payload)
        else:
            json.dump(payload, f, indent=1)
    return p


def write_evidence(prop, tier_, seed, coverage, wall, violations, assumptions=None, level='proof'):
    os.makedirs(os.path.join(HERE, 'evidence'), exist_ok=True)
    ev = {'property_id': prop, 'tier': tier_, 'seed': seed, 'level': level, 'coverage': coverage,
          'assumptions': assumptions or [], 'wall_s': round(wall, 2), 'violations': violations}
    with open(os.path.join(HERE, 'evidence', prop + '.json'), 'w') as f:
        json.dump(ev, f, indent=1)


def finish(prop, violations_lines, known_lines):
    for k in known_lines:
        print(k)
    for v in violations_lines:
        print(v)
    sys.stdout.flush()
    sys.exit(1 if violations_lines else 0)
