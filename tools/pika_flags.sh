#!/bin/bash
# Print compile/link flags for a program using libpika built by build_pika.sh <variant>
VARIANT=${1:-hooks}
HERE=$(cd "$(dirname "$0")/.." && pwd)
REPO=${VERIF_REPO:-/repo}
B=$HERE/build/pika-$VARIANT
INC=""
for d in $REPO/libs/pika/*/include $B/libs/pika/*/include; do INC="$INC -I$d"; done
echo "-std=c++20 -DPIKA_VERIF_HOOKS -DFMT_SHARED -DSPDLOG_COMPILED_LIB -DSPDLOG_FMT_EXTERNAL -DSPDLOG_SHARED_LIB -D_GNU_SOURCE -DNDEBUG -Wno-error $INC -I$B -L$B/lib -lpika -lfmt -lspdlog -lhwloc -pthread -Wl,-rpath,$B/lib"
