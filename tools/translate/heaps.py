#!/usr/bin/env python3
"""T-gen: regenerate lean/PikaVerif/Gen/Heaps.lean — how a thread object is filed by stack size.

  scheduler_base.hpp       get_stack_size(enum): stack-size class -> parameter holding the configured size
  thread_queue.hpp         create_thread_object: `if (stacksize == parameters_.X) heap = &H` chain
                           recycle_thread:       `if (stacksize == parameters_.X) H.push_back(thrd)` chain
  queue_holder_thread.hpp  the same two functions (shared-priority scheduler)
  thread_data.hpp          get_stack_size() returns stacksize_ (set once by the constructor, Gen/Rebind)

Fails closed (exit 3) on any other shape."""
import json, os, re, sys
HERE = os.path.dirname(os.path.dirname(os.path.dirname(os.path.abspath(__file__))))
REPO = os.environ.get('VERIF_REPO', '/repo')
SB = 'libs/pika/threading_base/include/pika/threading_base/scheduler_base.hpp'
TQ = 'libs/pika/schedulers/include/pika/schedulers/thread_queue.hpp'
QH = 'libs/pika/schedulers/include/pika/schedulers/queue_holder_thread.hpp'
TD = 'libs/pika/threading_base/include/pika/threading_base/thread_data.hpp'
SF = 'libs/pika/threading_base/include/pika/threading_base/thread_data_stackful.hpp'


def die(msg):
    sys.stderr.write('heaps.py: ' + msg + '\n')
    sys.exit(3)


def read(rel):
    src = open(os.path.join(REPO, rel)).read()
    src = re.sub(r'/\*.*?\*/', '', src, flags=re.S)
    src = re.sub(r'^[ \t]*PIKA_VERIF_[A-Z]+\(.*?\);[ \t]*\n', '', src, flags=re.M)   # verification hooks are not code
    return re.sub(r'//[^\n]*', '', src)


def body_of(text, sig_re, what):
    m = re.search(sig_re, text)
    if not m:
        die(f'{what}: not found')
    i = text.index('{', m.end() - 1)
    depth, j = 0, i
    while True:
        if text[j] == '{':
            depth += 1
        elif text[j] == '}':
            depth -= 1
            if depth == 0:
                break
        j += 1
    return text[i + 1:j]


def chain(body, action_re, what):
    """`if (stacksize == parameters_.P) { <action H> } else if ...` -> [(P, H)]; the chain must be one
    contiguous if/else-if sequence over the variable `stacksize`."""
    pat = r'(?:else\s+)?if\s*\(stacksize == parameters_\.(\w+)\)\s*\{\s*' + action_re + r'\s*\}'
    ms = list(re.finditer(pat, body))
    if not ms:
        die(f'{what}: no heap-selection chain found')
    out = []
    for k, m in enumerate(ms):
        if k == 0 and m.group(0).startswith('else'):
            die(f'{what}: chain starts with else')
        if k > 0:
            if not m.group(0).startswith('else'):
                die(f'{what}: more than one chain')
            if body[ms[k - 1].end():m.start()].strip():
                die(f'{what}: unexpected text inside the chain')
        out.append((m.group(1), m.group(2)))
    return out, ms[0].start(), ms[-1].end()


def one_queue(text, name, pop_re, push_op):
    cb = body_of(text, r'void create_thread_object\(', f'{name}::create_thread_object')
    if not re.search(r'std::ptrdiff_t const stacksize = data\.scheduler_base->get_stack_size\(data\.stacksize\);', cb):
        die(f'{name}::create_thread_object: stacksize is not get_stack_size(data.stacksize)')
    create, _, end = chain(cb, r'heap = &(\w+);', f'{name}::create_thread_object')
    rest = cb[end:]
    if not re.match(r'\s*PIKA_ASSERT\(heap\);', rest):
        die(f'{name}::create_thread_object: PIKA_ASSERT(heap) does not follow the chain')
    if len(re.findall(r'\bheap\b\s*=[^=]', cb)) != len(create) + 1:   # + the nullptr initialisation
        die(f'{name}::create_thread_object: heap is assigned outside the chain')
    if not re.search(r'if \(!heap->empty\(\)\)\s*\{\s*(\w+) = ' + pop_re + r'\s*threads::detail::get_thread_id_data\(\1\)->rebind\(data\);', cb):
        die(f'{name}::create_thread_object: the take-from-heap-and-rebind block has an unexpected shape')
    if len(re.findall(r'->rebind\(', text)) != 1:
        die(f'{name}: rebind is called from more than one place')
    if not re.search(r'thread_data_stackful::create\(data, this, stacksize\)', cb):
        die(f'{name}::create_thread_object: a new stackful object is not created with `stacksize`')
    rb = body_of(text, r'void recycle_thread\(threads::detail::thread_id_type (\w+)\)', f'{name}::recycle_thread')
    if not re.search(r'std::ptrdiff_t stacksize = threads::detail::get_thread_id_data\(\w+\)->get_stack_size\(\);', rb):
        die(f'{name}::recycle_thread: stacksize is not the object\'s get_stack_size()')
    recycle, _, end = chain(rb, r'(\w+)\.' + push_op + r'\(\w+\);', f'{name}::recycle_thread')
    if not re.fullmatch(r'\s*else\s*\{\s*PIKA_ASSERT_MSG\(false, fmt::format\("Invalid stack size \{\}", stacksize\)\);\s*\}\s*', rb[end:]):
        die(f'{name}::recycle_thread: unexpected text after the chain')
    # heaps are written only by recycle_thread (push), the pop above, and the initial fill (on_start_thread)
    prefill = []
    for m in re.finditer(r'thread_data_stackful::create\(init_data, this,\s*parameters_\.(\w+), threads::detail::thread_id_addref::no\);'
                         r'\s*PIKA_ASSERT\(p\);\s*p->init\(\);\s*(\w+)\.emplace_back\(p\);', text):
        prefill.append((m.group(1), m.group(2)))
    n_ins = len(re.findall(r'thread_heap_\w+\.(?:push_back|push_front|emplace_back|emplace_front|insert|emplace|assign|swap|resize)\(', text))
    if n_ins != len(recycle) + len(prefill):
        die(f'{name}: a heap is filled at a place that is not modelled ({n_ins} insertions, {len(recycle)} + {len(prefill)} modelled)')
    if re.search(r'thread_heap_type\s*[&*]', text.replace('thread_heap_type* heap = nullptr;', '')):
        die(f'{name}: a heap is aliased outside create_thread_object')
    return create, recycle, prefill


def main():
    sb = read(SB)
    gs = body_of(sb, r'std::ptrdiff_t get_stack_size\(execution::thread_stacksize stacksize\) const', 'scheduler_base::get_stack_size')
    cases = re.findall(r'case execution::thread_stacksize::(\w+):\s*return ([^;]+);', gs)
    cls = []
    for c, e in cases:
        m = re.fullmatch(r'thread_queue_init_\.(\w+)', e.strip())
        if m:
            cls.append((c, m.group(1)))
        elif re.fullmatch(r'\(std::numeric_limits<std::ptrdiff_t>::max\)\(\)', e.strip()) and c == 'nostack':
            cls.append((c, 'nostack_stacksize_'))
        else:
            die(f'get_stack_size: unexpected case {c}: {e}')
    if [c for c, _ in cls] != ['small_', 'medium', 'large', 'huge', 'nostack']:
        die(f'get_stack_size: unexpected classes {cls}')
    ip = read('libs/pika/threading_base/include/pika/threading_base/thread_queue_init_parameters.hpp')
    if not re.search(r'nostack_stacksize_\(\(std::numeric_limits<std::ptrdiff_t>::max\)\(\)\)', ip):
        die('nostack_stacksize_ is not PTRDIFF_MAX')
    td = read(TD)
    if not re.search(r'std::ptrdiff_t get_stack_size\(\) const noexcept \{ return stacksize_; \}', td):
        die('thread_data::get_stack_size() is not `return stacksize_`')
    sf = read(SF)
    if not re.search(r': thread_data\(init_data, queue, stacksize, false, addref\)\s*, coroutine_\(std::move\(init_data\.func\), thread_id_type\(this_\(\)\), stacksize\)', sf):
        die('thread_data_stackful constructor does not pass `stacksize` to thread_data and to the coroutine')
    tq_c, tq_r, tq_p = one_queue(read(TQ), 'thread_queue', r'heap->back\(\);\s*heap->pop_back\(\);', 'push_back')
    qh_c, qh_r, qh_p = one_queue(read(QH), 'queue_holder_thread', r'heap->front\(\);\s*heap->pop_front\(\);', 'push_front')

    def ll(xs):
        return '[' + ', '.join(f'("{a}", "{b}")' for a, b in xs) + ']'

    out = f'''/-! GENERATED by tools/translate/heaps.py from
    {SB}
    {TQ}
    {QH}
    {TD}, {SF} — do not edit. -/
namespace PikaVerif.Gen.Heaps

/-- `scheduler_base::get_stack_size`: stack-size class ↦ parameter that holds its configured size -/
def classParam : List (String × String) := {ll(cls)}

/-- `thread_queue::create_thread_object`: `if (stacksize == parameters_.P) heap = &H` in order -/
def tqCreate : List (String × String) := {ll(tq_c)}
/-- `thread_queue::recycle_thread`: `if (stacksize == parameters_.P) H.push_back(thrd)` in order -/
def tqRecycle : List (String × String) := {ll(tq_r)}
/-- `thread_queue::on_start_thread`: objects created with `parameters_.P` and put directly into `H` -/
def tqPrefill : List (String × String) := {ll(tq_p)}
/-- `queue_holder_thread::create_thread_object` -/
def qhCreate : List (String × String) := {ll(qh_c)}
/-- `queue_holder_thread::recycle_thread` -/
def qhRecycle : List (String × String) := {ll(qh_r)}
def qhPrefill : List (String × String) := {ll(qh_p)}

end PikaVerif.Gen.Heaps
'''
    path = os.path.join(HERE, 'lean', 'PikaVerif', 'Gen', 'Heaps.lean')
    old = open(path).read() if os.path.exists(path) else None
    if old != out:
        open(path, 'w').write(out)
    if '--json' in sys.argv:
        print(json.dumps({'classParam': cls, 'tqCreate': tq_c, 'tqRecycle': tq_r, 'qhCreate': qh_c, 'qhRecycle': qh_r, 'tqPrefill': tq_p, 'qhPrefill': qh_p}))
    else:
        print('generated', path)


main()
