#!/usr/bin/env python3
"""T-gen for C16: regenerate lean/PikaVerif/Gen/Settings.lean from the pika working tree.

Extracted (all from *preprocessed* sources, so #if branches are the ones of the hooks build):
  * runtime_configuration.cpp  pre_initialize_ini / pre_initialize_logging_ini:
      the default-ini lines  `key = ${ENV:default}` / `key = ${ENV}` / `key = literal`,
      qualified with their [section]                                   -> iniRows
  * parse_command_line.cpp     every `("pika:<name>", [value<T>()...,] "help")` -> cliOpts
  * command_line_handling.cpp  per handle_* function the vm.count("pika:..") option and the
      cfgmap.get_value<T>("pika...") keys; the keys written back by handle_arguments with
      ini_config.emplace_back("pika.key=" / "pika.key!=")               -> handlers, written
  * detail_partitioner.cpp     the ordered prefix-match chain of setup_schedulers -> schedulers
  * partitioner_fwd.hpp        enum scheduling_policy values
The translator fails closed: any line / option / handler of an unexpected shape aborts the
generation with exit status 2 (reported by the check as a broken proof obligation).
"""
import os, re, subprocess, sys

HERE = os.path.dirname(os.path.dirname(os.path.dirname(os.path.abspath(__file__))))
REPO = os.environ.get('VERIF_REPO', '/repo')
OUT = os.path.join(HERE, 'lean', 'PikaVerif', 'Gen', 'Settings.lean')


class Shape(Exception):
    pass


def flags():
    f = subprocess.run([os.path.join(HERE, 'tools', 'pika_flags.sh'), 'hooks'], capture_output=True, text=True).stdout
    return [x for x in f.split() if x.startswith('-I') or x.startswith('-D') or x.startswith('-std')]


def preprocess(rel):
    p = os.path.join(REPO, rel)
    r = subprocess.run(['g++', '-E', '-P'] + flags() + [p], capture_output=True, text=True)
    if r.returncode != 0:
        raise Shape(f'cannot preprocess {rel}: {r.stderr[-400:]}')
    # keep only the part that comes from the file itself: everything after the last system header
    return r.stdout


def lean_str(s):
    return '"' + s.replace('\\', '\\\\').replace('"', '\\"') + '"'


def lean_opt(s):
    return 'none' if s is None else f'(some {lean_str(s)})'


def split_top(s, first_only=False):
    """split at top-level commas (outside strings, parentheses)"""
    out, cur, depth, i = [], '', 0, 0
    while i < len(s):
        if first_only and out:
            return out
        c = s[i]
        if c == '"':
            j = i + 1
            while s[j] != '"':
                j += 2 if s[j] == '\\' else 1
            cur += s[i:j + 1]
            i = j + 1
            continue
        if c in '([{':
            depth += 1
        if c in ')]}':
            depth -= 1
        if c == ',' and depth == 0:
            out.append(cur.strip())
            cur = ''
        else:
            cur += c
        i += 1
    if cur.strip():
        out.append(cur.strip())
    return out


STRLITS = re.compile(r'^(?:"(?:[^"\\]|\\.)*"\s*)+$')


def concat_literals(e):
    return ''.join(bytes(m, 'utf-8').decode('unicode_escape') for m in re.findall(r'"((?:[^"\\]|\\.)*)"', e))


def ini_rows(src, fn):
    m = re.search(r'void runtime_configuration::' + fn + r'\(\)\s*\{(.*?)std::vector<std::string> lines = \{(.*?)\n\s*\};', src, flags=re.S)
    if not m:
        raise Shape(f'{fn}: lines initialiser not found')
    rows, section = [], ''
    for e in split_top(m.group(2)):
        if STRLITS.match(e):
            text = concat_literals(e)
            dynamic = False
        else:
            mm = re.match(r'^("(?:[^"\\]|\\.)*")\s*\+\s*[A-Za-z_:]+\(.*\)$', e)
            if not mm:
                raise Shape(f'{fn}: unexpected element {e!r}')
            text = concat_literals(mm.group(1)) + '<dynamic>'
            dynamic = True
        if text.startswith('[') and text.endswith(']'):
            section = text[1:-1]
            continue
        mm = re.match(r'^([a-z_]+) = (.*)$', text)
        if not mm:
            raise Shape(f'{fn}: unexpected ini line {text!r}')
        key, val = section + '.' + mm.group(1), mm.group(2)
        if dynamic:
            rows.append((key, None, None, 'dynamic'))
            continue
        me = re.match(r'^\$\{([A-Z_]+)(?::(.*))?\}$', val, flags=re.S)
        if me:
            if '$' in (me.group(2) or '').replace('%$', ''):
                raise Shape(f'{fn}: nested expansion in {text!r}')
            rows.append((key, me.group(1), me.group(2) or '', 'env'))
        elif '${' in val:
            raise Shape(f'{fn}: unexpected environment placeholder in {text!r}')
        elif '$[' in val:
            rows.append((key, None, val, 'ref'))
        else:
            rows.append((key, None, val, 'lit'))
    return rows


def cli_opts(src):
    opts = []
    for m in re.finditer(r'(?<![A-Za-z_])\(\s*"(pika:[a-z-]+)"\s*,', src):
        name = m.group(1)
        rest = src[m.end():m.end() + 4000].lstrip()
        if rest.startswith('value<'):
            spec = split_top(rest, True)[0]
            ms = re.match(r'^value<\s*([A-Za-z_:<> ]+?)\s*>\(\)(?:->(composing|implicit_value|default_value)\((.*)\))?$', spec, flags=re.S)
            if not ms:
                raise Shape(f'option {name}: unexpected value spec {spec!r}')
            ty, mod, arg = ms.group(1).replace(' ', ''), ms.group(2), ms.group(3)
            if ty == 'std::vector<std::string>' and mod == 'composing':
                kind = '.strs'
            elif ty == 'std::vector<std::string>' and mod is None and name == 'pika:positional':
                kind = '.positional'
            elif ty == 'std::string' and mod is None:
                kind = '.str'
            elif ty == 'std::string' and mod in ('implicit_value', 'default_value'):
                kind = f'.strOpt {lean_str(concat_literals(arg))}' if mod == 'implicit_value' else f'.strDefault {lean_str(concat_literals(arg))}'
            elif ty == 'std::size_t' and mod is None:
                kind = '.nat'
            elif ty == 'std::size_t' and mod == 'implicit_value' and arg.strip().isdigit():
                kind = f'.natOpt {arg.strip()}'
            elif ty.startswith('std::underlying_type_t<') and mod is None:
                kind = '.int'
            else:
                raise Shape(f'option {name}: unsupported type {ty} {mod}')
        elif rest.startswith('"') or re.match(r'^[a-z_]+\.c_str\(\)', rest):
            kind = '.flag'
        else:
            raise Shape(f'option {name}: unexpected shape {rest[:60]!r}')
        if any(o[0] == name for o in opts):
            raise Shape(f'option {name} declared twice')
        opts.append((name, kind))
    if len(opts) < 20:
        raise Shape('too few options found in parse_command_line.cpp')
    return opts


def fn_body(src, header_re):
    m = re.search(header_re, src)
    if not m:
        raise Shape(f'function {header_re} not found')
    i = src.index('{', m.end() - 1)
    depth, j = 0, i
    while True:
        if src[j] == '{':
            depth += 1
        elif src[j] == '}':
            depth -= 1
            if depth == 0:
                break
        j += 1
    return src[i:j + 1]


HANDLERS = ['handle_process_mask', 'handle_scheduler', 'handle_affinity', 'handle_affinity_bind', 'handle_pu_step',
            'handle_pu_offset', 'handle_numa_sensitive', 'handle_num_threads', 'handle_num_cores']
SIMPLE = re.compile(
    r'^\{\s*if \(vm\.count\("(pika:[a-z-]+)"\)\) return vm\["\1"\]\.as<([a-z_:]+)>\(\);\s*'
    r'return cfgmap\.get_value<\2>\("(pika\.[a-z_]+)", default_\);\s*\}$', flags=re.S)


def handlers(src):
    rows = []
    for h in HANDLERS:
        body = fn_body(src, r'std::(?:string|size_t) ' + h + r'\(detail::manage_config& cfgmap,[^)]*\)\s*\{')
        opts = sorted(set(re.findall(r'vm(?:\.count\(|\[)"(pika:[a-z-]+)"', body)))
        keys = []
        for k in re.findall(r'cfgmap\.(?:get_value<[a-z_:]+>\(|config_\[)"(pika\.[a-z_.]+)"', body):
            if k not in keys:
                keys.append(k)
        if len(opts) != 1 or not keys:
            raise Shape(f'{h}: expected one command-line option and at least one cfgmap key, found {opts} {keys}')
        ms = SIMPLE.match(body)
        shape = 'simple' if ms else 'special'
        if h in ('handle_scheduler', 'handle_affinity', 'handle_pu_step', 'handle_pu_offset') and not ms:
            raise Shape(f'{h}: body no longer has the shape "command line, else cfgmap, else default"')
        rows.append((h, opts[0], keys[0], keys[1:], shape))
    body = fn_body(src, r'void command_line_handling::handle_arguments\(')
    m = re.search(r'use_process_mask_ =\s*!\(\(cfgmap\.get_value<int>\("(pika\.ignore_process_mask)",\s*pika::detail::get_entry_as<int>\(rtcfg_, "\1", 0\)\) > 0\) \|\|\s*\(vm\.count\("(pika:ignore-process-mask)"\) > 0\)\);', body)
    if not m:
        raise Shape('handle_arguments: ignore_process_mask resolution has an unexpected shape')
    rows.append(('handle_arguments', m.group(2), m.group(1), [], 'flag-or'))
    calls = re.findall(r'detail::(handle_[a-z_]+)\(|= (handle_process_mask)\(', body)
    called = [a or b for a, b in calls]
    for h in HANDLERS:
        if h not in called:
            raise Shape(f'handle_arguments no longer calls {h}')
    # the default handed to each handler must come from the same ini key of rtcfg_
    for h, opt, key, _, _ in rows[:-1]:
        if h in ('handle_num_threads', 'handle_num_cores'):
            continue
        if not re.search(h + r'\(\s*cfgmap,\s*vm,\s*(?:rtcfg_\.get_entry|pika::detail::get_entry_as<std::size_t>)\(\s*(?:rtcfg_, )?"' + re.escape(key) + '"', body):
            raise Shape(f'handle_arguments: default of {h} is not read from rtcfg_ entry {key}')
    written = []
    for k, force in re.findall(r'ini_config\.emplace_back\(\s*"(pika\.[a-z_.]+?)(!?)="', body):
        if k not in [w[0] for w in written]:
            written.append((k, force == '!'))
    return rows, written


def schedulers(src, enum_src):
    body = fn_body(src, r'void partitioner::setup_schedulers\(\)')
    chain = re.findall(r'if \(0 == std::string\("([a-z-]+)"\)\.find\(default_scheduler_str\)\)\s*\{\s*default_scheduler = scheduling_policy::([a-z_]+);', body)
    if len(chain) < 4 or len(chain) != body.count('default_scheduler = scheduling_policy::'):
        raise Shape('setup_schedulers: prefix-match chain has an unexpected shape')
    if 'rtcfg_.get_entry("pika.scheduler", std::string())' not in body:
        raise Shape('setup_schedulers: scheduler name is not read from pika.scheduler')
    m = re.search(r'enum scheduling_policy\s*\{(.*?)\}', enum_src, flags=re.S)
    vals = dict((a, int(b)) for a, b in re.findall(r'([a-z_]+) = (-?\d+)', m.group(1)))
    return [(n, e, vals[e]) for n, e in chain]


def generate():
    rc = preprocess('libs/pika/runtime_configuration/src/runtime_configuration.cpp')
    rows = ini_rows(rc, 'pre_initialize_ini') + ini_rows(rc, 'pre_initialize_logging_ini')
    opts = cli_opts(preprocess('libs/pika/command_line_handling/src/parse_command_line.cpp'))
    hs, written = handlers(preprocess('libs/pika/command_line_handling/src/command_line_handling.cpp'))
    sch = schedulers(open(os.path.join(REPO, 'libs/pika/resource_partitioner/src/detail_partitioner.cpp')).read(),
                     open(os.path.join(REPO, 'libs/pika/resource_partitioner/include/pika/resource_partitioner/partitioner_fwd.hpp')).read())
    keys = [r[0] for r in rows]
    if len(set(keys)) != len(keys):
        raise Shape('duplicate ini key in the default configuration')
    optnames = [o[0] for o in opts]
    for h, opt, key, _, _ in hs:
        if opt not in optnames:
            raise Shape(f'{h}: option {opt} is not declared in parse_command_line.cpp')
        if key not in keys:
            raise Shape(f'{h}: ini key {key} has no default-ini line')
        if key not in [w[0] for w in written]:
            raise Shape(f'{h}: resolved value of {key} is not written back to the configuration')
    L = []
    L.append('/-! GENERATED by tools/translate/settings.py from the pika working tree - do not edit. -/')
    L.append('namespace PikaVerif.Gen.Settings')
    L.append('')
    L.append('/-- kind of a default-ini line: `${ENV:default}`, literal, `$[ref]`, or computed at run time -/')
    L.append('inductive RowKind | env | lit | ref | dynamic deriving DecidableEq, Repr')
    L.append('')
    L.append('structure IniRow where\n  key : String\n  env : Option String\n  dflt : String\n  kind : RowKind\n  deriving Repr')
    L.append('')
    L.append('def iniRows : List IniRow := [')
    L.append(',\n'.join(f'  ⟨{lean_str(k)}, {lean_opt(e)}, {lean_str(d or "")}, .{kind}⟩' for k, e, d, kind in rows))
    L.append(']')
    L.append('')
    L.append('inductive OptKind\n  | flag | str | nat | int | strs | positional\n  | natOpt (implicit : Nat) | strOpt (implicit : String) | strDefault (dflt : String)\n  deriving DecidableEq, Repr')
    L.append('')
    L.append('structure OptRow where\n  name : String\n  kind : OptKind\n  deriving Repr')
    L.append('')
    L.append('def cliOpts : List OptRow := [')
    L.append(',\n'.join(f'  ⟨{lean_str(n)}, {k}⟩' for n, k in opts))
    L.append(']')
    L.append('')
    L.append('/-- one row per `handle_*` function: command-line option, primary ini key, further cfgmap keys -/')
    L.append('structure Handler where\n  fn : String\n  opt : String\n  key : String\n  extra : List String\n  shape : String\n  deriving Repr')
    L.append('')
    L.append('def handlers : List Handler := [')
    L.append(',\n'.join(f'  ⟨{lean_str(h)}, {lean_str(o)}, {lean_str(k)}, [{", ".join(lean_str(x) for x in ex)}], {lean_str(s)}⟩' for h, o, k, ex, s in hs))
    L.append(']')
    L.append('')
    L.append('/-- keys written back by `handle_arguments` (`true` = forced with `!=`) -/')
    L.append('def written : List (String × Bool) := [' + ', '.join(f'({lean_str(k)}, {"true" if f else "false"})' for k, f in written) + ']')
    L.append('')
    L.append('/-- `setup_schedulers`: first entry whose name has the configured string as a prefix wins -/')
    L.append('def schedulers : List (String × Nat) := [' + ', '.join(f'({lean_str(n)}, {v})' for n, e, v in sch) + ']')
    L.append('')
    L.append('/-- The settings table: (ini key, environment variable, built-in default, command-line option). -/')
    L.append('structure Setting where\n  key : String\n  env : Option String\n  dflt : String\n  opt : Option String\n  deriving Repr')
    L.append('')
    hk = dict((k, o) for h, o, k, _, _ in hs)
    L.append('def settings : List Setting := [')
    L.append(',\n'.join(f'  ⟨{lean_str(k)}, {lean_opt(e)}, {lean_str(d or "")}, {lean_opt(hk.get(k))}⟩'
                        for k, e, d, kind in rows if kind in ('env', 'lit')))
    L.append(']')
    L.append('')
    L.append('end PikaVerif.Gen.Settings')
    return '\n'.join(L) + '\n'


def main():
    try:
        text = generate()
    except Shape as e:
        print('settings.py: unexpected shape: ' + str(e), file=sys.stderr)
        return 2
    os.makedirs(os.path.dirname(OUT), exist_ok=True)
    old = open(OUT).read() if os.path.exists(OUT) else None
    if old != text:
        with open(OUT + '.tmp', 'w') as f:
            f.write(text)
        os.replace(OUT + '.tmp', OUT)
        print('settings.py: regenerated ' + OUT)
    else:
        print('settings.py: unchanged')
    return 0


if __name__ == '__main__':
    sys.exit(main())
