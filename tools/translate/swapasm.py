#!/usr/bin/env python3
"""T-gen: regenerate lean/PikaVerif/Gen/SwapAsm.lean from
  libs/pika/coroutines/src/swapcontext64.ipp           (the asm text of swapcontext_stack / _stack2)
  libs/pika/coroutines/include/pika/coroutines/detail/context_linux_x86.hpp
                                                       (context_size / cb_idx / funp_idx, shape of init()/rebind_stack(),
                                                        which routine each swap_context overload calls)
Fails closed: any instruction outside the supported subset, any unexpected shape -> exit 3.
With `--json` additionally prints the extracted facts as JSON on stdout (used by checks/C12.py)."""
import json, os, re, sys
HERE = os.path.dirname(os.path.dirname(os.path.dirname(os.path.abspath(__file__))))
REPO = os.environ.get('VERIF_REPO', '/repo')
IPP = 'libs/pika/coroutines/src/swapcontext64.ipp'
HPP = 'libs/pika/coroutines/include/pika/coroutines/detail/context_linux_x86.hpp'
REGS = ['rax', 'rbx', 'rcx', 'rdx', 'rsi', 'rdi', 'rbp', 'rsp', 'r8', 'r9', 'r10', 'r11', 'r12', 'r13', 'r14', 'r15']
W = 1 << 64


def die(msg):
    sys.stderr.write('swapasm.py: ' + msg + '\n')
    sys.exit(3)


def strip_comments(src):
    src = re.sub(r'/\*.*?\*/', '', src, flags=re.S)
    return re.sub(r'//.*', '', src)


def reg(tok):
    m = re.fullmatch(r'%(\w+)', tok)
    if not m or m.group(1) not in REGS:
        die(f'unsupported register operand {tok!r}')
    return '.' + m.group(1)


def imm(tok):
    m = re.fullmatch(r'\$(-?(?:0x[0-9a-fA-F]+|\d+))', tok)
    if not m:
        die(f'unsupported immediate {tok!r}')
    return int(m.group(1), 0) % W


def memop(tok):
    """off(%base) -> (off mod 2^64, base)"""
    m = re.fullmatch(r'(-?(?:0x[0-9a-fA-F]+|\d+))?\((%\w+)\)', tok)
    if not m:
        return None
    off = int(m.group(1), 0) if m.group(1) else 0
    return off % W, reg(m.group(2))


def translate_instr(text):
    """one AT&T-syntax instruction -> Lean constructor application (string)"""
    parts = text.split(None, 1)
    op = parts[0]
    args = [a.strip() for a in parts[1].split(',')] if len(parts) > 1 else []
    if op == 'movq' and len(args) == 2:
        src, dst = args
        ms, md = memop(src), memop(dst)
        if ms and not md:
            return f'.load {ms[0]} {ms[1]} {reg(dst)}'
        if md and not ms:
            if src.startswith('$'):
                die('movq $imm, mem is not in the subset')
            return f'.store {reg(src)} {md[0]} {md[1]}'
        if not ms and not md:
            if src.startswith('$'):
                return f'.movi {imm(src)} {reg(dst)}'
            return f'.mov {reg(src)} {reg(dst)}'
        die(f'unsupported movq form: {text!r}')
    if op == 'leaq' and len(args) == 2 and memop(args[0]):
        m = memop(args[0])
        return f'.lea {m[0]} {m[1]} {reg(args[1])}'
    if op == 'pushq' and len(args) == 1:
        return f'.push {reg(args[0])}'
    if op == 'popq' and len(args) == 1:
        return f'.pop {reg(args[0])}'
    if op in ('add', 'addq') and len(args) == 2:
        return f'.addi {imm(args[0])} {reg(args[1])}'
    if op in ('sub', 'subq') and len(args) == 2:
        return f'.subi {imm(args[0])} {reg(args[1])}'
    if op == 'jmp' and len(args) == 1 and args[0].startswith('*'):
        return f'.jmpr {reg(args[0][1:])}'
    if op == 'ret' and not args:
        return '.ret'
    if op == 'ud2' and not args:
        return '.ud2'
    if op in ('stmxcsr', 'ldmxcsr', 'fnstcw', 'fldcw') and len(args) == 1 and memop(args[0]):
        m = memop(args[0])
        return f'.{op} {m[0]} {m[1]}'
    die(f'instruction outside the supported subset: {text!r}')


def extract_asm(src):
    """The body of the PIKA_COROUTINE_SWAPCONTEXT(name) macro: list of instruction texts after `#name ":"`."""
    m = re.search(r'#define\s+PIKA_COROUTINE_SWAPCONTEXT\(name\)((?:[^\n]*\\\n)*[^\n]*)\n', src)
    if not m:
        die('PIKA_COROUTINE_SWAPCONTEXT macro not found')
    body = m.group(1)
    if len(re.findall(r'#define\s+PIKA_COROUTINE_SWAPCONTEXT', src)) != 1:
        die('PIKA_COROUTINE_SWAPCONTEXT defined more than once')
    if not re.search(r'\basm\s*\(', body):
        die('macro body is not a single asm(...) statement')
    # the macro is built from: string literals, `#name`, PIKA_COROUTINE_TYPE_DIRECTIVE(name), line continuations
    residue = re.sub(r'"(?:[^"\\]|\\.)*"', '', body)
    residue = residue.replace('PIKA_COROUTINE_TYPE_DIRECTIVE(name)', '').replace('#name', '')
    residue = re.sub(r'\basm\s*\(', '', residue, count=1)
    residue = residue.replace('\\', '').replace(')', '', 1)
    if residue.strip():
        die(f'unexpected tokens in the asm macro: {residue.strip()[:80]!r}')
    toks = re.findall(r'"((?:[^"\\]|\\.)*)"|(#name)', body)
    text = ''
    for lit, nm in toks:
        text += '@NAME@' if nm else lit.encode().decode('unicode_escape')
    lines = [l.strip() for l in text.split('\n')]
    lines = [l for l in lines if l]
    try:
        k = lines.index('@NAME@:')
    except ValueError:
        die('label `name:` not found in the asm text')
    for d in lines[:k]:
        if not re.fullmatch(r'\.(text|align \d+|globl @NAME@)', d):
            die(f'unexpected directive before the label: {d!r}')
    instrs = lines[k + 1:]
    if not instrs:
        die('empty routine')
    for i in instrs:
        if i.startswith('.') or i.endswith(':'):
            die(f'directive or label inside the routine: {i!r}')
    return instrs


def main():
    ipp_raw = open(os.path.join(REPO, IPP)).read()
    hpp_raw = open(os.path.join(REPO, HPP)).read()
    ipp = strip_comments(ipp_raw)
    hpp = strip_comments(hpp_raw)
    instrs = extract_asm(ipp)
    lean_instrs = [translate_instr(i) for i in instrs]
    insts = re.findall(r'^PIKA_COROUTINE_SWAPCONTEXT\((\w+)\);', ipp, flags=re.M)
    if sorted(insts) != ['swapcontext_stack', 'swapcontext_stack2']:
        die(f'unexpected instantiations of the swap routine: {insts}')
    # the x86_64 branch of the layout constants
    m = re.search(r'#\s*if defined\(__x86_64__\)\s*(?:#\s*if defined\(PIKA_HAVE_VALGRIND\)[^\n]*\n[^\n]*valgrind_id_idx = (\d+);\s*#\s*endif\s*)?'
                  r'static std::size_t const context_size = (\d+);\s*static std::size_t const cb_idx = (\d+);\s*'
                  r'static std::size_t const funp_idx = (\d+);\s*#\s*else', hpp)
    if not m:
        die('x86_64 context layout constants (context_size/cb_idx/funp_idx) not found in the expected shape')
    context_size, cb_idx, funp_idx = int(m.group(2)), int(m.group(3)), int(m.group(4))
    # init() and rebind_stack() must both build the initial frame in the one modelled shape
    frame = (r'm_sp = \(static_cast<void\*\*>\(m_stack\) \+\s*static_cast<std::size_t>\(m_stack_size\) / sizeof\(void\*\)\) -\s*context_size;'
             r'(?:\s*using fun = void\(void\*\);\s*fun\* funp = trampoline<CoroutineImpl>;)?'
             r'\s*m_sp\[cb_idx\] = this;\s*m_sp\[funp_idx\] = reinterpret_cast<void\*>\(funp\);')
    n_frames = len(re.findall(frame, hpp))
    if n_frames != 2:
        die(f'expected the initial-frame construction twice (init, rebind_stack), found {n_frames}')
    if len(re.findall(r'm_sp\s*=[^=]', hpp)) != 2 or len(re.findall(r'm_sp\[', re.sub(r'#\s*if defined\(PIKA_HAVE_VALGRIND\).*?#\s*endif', '', hpp, flags=re.S))) != 4:
        die('m_sp is written at places other than the two modelled frame constructions')
    for fn in ('void init()', 'void rebind_stack()'):
        if fn not in hpp:
            die(f'{fn} not found')
    # which routine do the two swap_context overloads call, and with which arguments
    calls = re.findall(r'(swapcontext_stack2?)\(&from\.m_sp, to\.m_sp\);', hpp)
    if calls != ['swapcontext_stack', 'swapcontext_stack2', 'swapcontext_stack']:
        die(f'unexpected swap_context bodies: {calls}')
    if not re.search(r'extern "C" void swapcontext_stack\(void\*\*\*, void\*\*\) noexcept;', hpp):
        die('declaration of swapcontext_stack changed')
    # trampoline shape: calls (*static_cast<T*>(fun))() and never returns
    if not re.search(r'void trampoline\(void\* fun\)\s*\{\s*\(\*static_cast<T\*>\(fun\)\)\(\);\s*std::abort\(\);\s*\}', hpp):
        die('trampoline has an unexpected shape')
    body = ',\n  '.join(lean_instrs)
    comment = '\n'.join('    ' + i for i in instrs)
    out = f'''import PikaVerif.Model.X86
/-! GENERATED by tools/translate/swapasm.py from
    {IPP} and
    {HPP} — do not edit.
    Source text of the routine (instantiated as swapcontext_stack and swapcontext_stack2):
{comment}
-/
namespace PikaVerif.Gen.SwapAsm
open PikaVerif.X86 Instr Reg

/-- the body of `PIKA_COROUTINE_SWAPCONTEXT(name)` (System V: rdi = &from.m_sp, rsi = to.m_sp) -/
def prog : List Instr := [
  {body}
]

/-- `x86_linux_context_impl::context_size` (words) -/
def contextSize : Nat := {context_size}
/-- `x86_linux_context_impl::cb_idx` -/
def cbIdx : Nat := {cb_idx}
/-- `x86_linux_context_impl::funp_idx` -/
def funpIdx : Nat := {funp_idx}
/-- number of places that build the initial frame `m_sp = top - context_size; m_sp[cb_idx] = this;
    m_sp[funp_idx] = funp` (init and rebind_stack) -/
def frameBuilders : Nat := {n_frames}

end PikaVerif.Gen.SwapAsm
'''
    path = os.path.join(HERE, 'lean', 'PikaVerif', 'Gen', 'SwapAsm.lean')
    old = open(path).read() if os.path.exists(path) else None
    if old != out:
        open(path, 'w').write(out)
    if '--json' in sys.argv:
        print(json.dumps({'instrs': instrs, 'lean': lean_instrs, 'context_size': context_size, 'cb_idx': cb_idx, 'funp_idx': funp_idx}))
    else:
        print('generated', path)


main()
