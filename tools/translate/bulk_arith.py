#!/usr/bin/env python3
"""Regenerate lean/PikaVerif/Gen/BulkArith.lean and Gen/IndexRange.lean from the C++ sources.

  bulk_arith.py <repo> <out-dir>

Reads (working tree of <repo>):
  libs/pika/executors/include/pika/executors/thread_pool_scheduler_bulk.hpp
      get_chunk_size, the chunk_size / num_chunks computation and the calls in
      bulk_receiver::set_value, init_queue, do_work_chunk (i_begin / i_end and the loop header),
      the shape == 0 fast path, member / field types
  libs/pika/concurrency/include/pika/concurrency/detail/contiguous_index_queue.hpp
      range::{increment_first, decrement_last, empty}, the pop_left / pop_right loops

Fails closed: every function body is matched statement by statement against the shape this
translator understands; anything else (extra statements, other types, new operators) aborts
with exit code 3 and a message, and the check reports a broken proof obligation.
"""
import os, re, sys
sys.path.insert(0, os.path.dirname(os.path.abspath(__file__)))
from cxx_expr import *

BULK = 'libs/pika/executors/include/pika/executors/thread_pool_scheduler_bulk.hpp'
CIQ = 'libs/pika/concurrency/include/pika/concurrency/detail/contiguous_index_queue.hpp'


def stmts(body):
    """Split a block into top-level statements (';'-terminated, or 'kw (...) {...}' blocks)."""
    out, i, n = [], 0, len(body)
    while i < n:
        while i < n and body[i].isspace():
            i += 1
        if i >= n:
            break
        j, depth, seen_brace = i, 0, False
        while j < n:
            c = body[j]
            if c in '({':
                depth += 1
                seen_brace = seen_brace or c == '{'
            elif c in ')}':
                depth -= 1
                if depth == 0 and c == '}' and seen_brace:
                    # block statement ends here unless it is `do {..} while (..);`
                    k = j + 1
                    while k < n and body[k].isspace():
                        k += 1
                    if body[i:i + 3] == 'do ' or body[i:i + 3] == 'do{':
                        j = body.index(';', j)
                    elif k < n and body[k] == ';':
                        j = k
                    break
            elif c == ';' and depth == 0:
                break
            j += 1
        out.append(norm(body[i:j + 1]))
        i = j + 1
    return out


def ub_all(ubs):
    ubs = list(dict.fromkeys(ubs))
    return '(' + ' && '.join(ubs) + ')' if ubs else 'true'


def expect(cond, msg):
    if not cond:
        raise Unsupported(msg)


def gen_bulk(src):
    src = strip_comments(src)
    out = []
    # ---- member and field types -------------------------------------------------------------
    m = re.search(r'([\w:]+)\s+num_worker_threads\s*=\s*scheduler\.get_thread_pool\(\)->get_os_thread_count\(\);', src)
    expect(m, 'member num_worker_threads not found')
    ty_nwt = lean_type(m.group(1))
    m = re.search(r'PIKA_NO_UNIQUE_ADDRESS\s+([\w:]+)\s+shape;', src)
    expect(m and m.group(1) == 'Shape', 'member `Shape shape` not found')
    m = re.search(r'std::vector<\s*pika::concurrency::detail::cache_aligned_data<\s*pika::concurrency::detail::contiguous_index_queue<(.*?)>>>\s*queues', src, flags=re.S)
    expect(m and m.group(1).strip() == '', 'queues: expected contiguous_index_queue<> (default index type)')
    tf = body_after(src, r'struct task_function\s*\{', 'task_function')
    fields = {}
    for name in ('n', 'chunk_size', 'worker_thread'):
        mm = re.search(r'([\w:]+)\s+const\s+' + name + r'\s*;', tf)
        expect(mm, f'task_function field {name}')
        fields[name] = lean_type(mm.group(1))
    expect(fields['n'] == 'S', 'task_function::n must have type Shape')

    # ---- get_chunk_size -----------------------------------------------------------------------
    body = body_after(src, r'static constexpr std::uint32_t get_chunk_size\(\s*std::uint32_t const num_threads,\s*Shape const n\)', 'get_chunk_size')
    st = stmts(body)
    expect(len(st) == 3, f'get_chunk_size: expected 3 statements, got {st}')
    m0 = re.fullmatch(r'std::uint32_t chunk_size = (\d+);', st[0])
    expect(m0, f'get_chunk_size: init statement {st[0]!r}')
    m1 = re.fullmatch(r'while \((.*)\) \{ chunk_size (\*|\+)= (\d+); \}', st[1])
    expect(m1, f'get_chunk_size: loop {st[1]!r}')
    expect(st[2] == 'return chunk_size;', f'get_chunk_size: return {st[2]!r}')
    env = {'num_threads': ('num_threads', 'CTy.u32'), 'n': ('n', 'S'), 'chunk_size': ('chunk_size', 'CTy.u32')}
    cond, cub = parse_cmp(m1.group(1), env)
    init = convert(parse_expr(m0.group(1), env), 'CTy.u32')
    step = convert(parse_expr(f'chunk_size {m1.group(2)} {m1.group(3)}', env), 'CTy.u32')
    out.append(f'''/-- `get_chunk_size`: initial value of `chunk_size`. -/
def gcsInit : Int := {init.term}

/-- `get_chunk_size`: loop condition `{m1.group(1)}`. -/
def gcsCond (S : CTy) (num_threads n chunk_size : Int) : Bool :=
  {cond}

/-- `get_chunk_size`: loop body `chunk_size {m1.group(2)}= {m1.group(3)}`. -/
def gcsStep (chunk_size : Int) : Int :=
  {step.term}

/-- `get_chunk_size(num_threads, n)`; `none` = the loop is still running after `fuel` iterations. -/
def gcsLoop (S : CTy) (num_threads n : Int) : Nat → Int → Option Int
  | 0, _ => none
  | fuel + 1, chunk_size =>
    if gcsCond S num_threads n chunk_size then gcsLoop S num_threads n fuel (gcsStep chunk_size)
    else some chunk_size

def getChunkSize (S : CTy) (fuel : Nat) (num_threads n : Int) : Option Int :=
  gcsLoop S num_threads n fuel gcsInit
''')

    # ---- bulk_receiver::set_value -------------------------------------------------------------
    body = body_after(src, r'void set_value\(Ts&&\.\.\. ts\) && noexcept(?=\s*\{\s*auto r = std::move\(\*this\);\s*if)', 'bulk_receiver::set_value')
    st = stmts(body)
    strip = ('r.op_state->', 'op_state->', 'task_f->')
    expect(len(st) == 9, f'set_value: expected 9 statements, got {len(st)}: {st}')
    expect(st[0] == 'auto r = std::move(*this);', st[0])
    expect(re.fullmatch(r'if \(r\.op_state->shape == 0\) \{ pika::execution::experimental::set_value\( std::move\(r\.op_state->receiver\), std::forward<Ts>\(ts\)\.\.\.\); return; \}', st[1]),
           f'set_value: shape == 0 fast path changed: {st[1]!r}')
    m = re.fullmatch(r'auto const chunk_size = get_chunk_size\((.*), (.*)\);', st[2])
    expect(m, st[2])
    senv = {'num_worker_threads': ('num_worker_threads', ty_nwt), 'shape': ('shape', 'S')}
    a0 = convert(parse_expr(m.group(1), senv, strip), 'CTy.u32')
    a1 = convert(parse_expr(m.group(2), senv, strip), 'S')
    m = re.fullmatch(r'auto const num_chunks = (.*);', st[3])
    expect(m, st[3])
    senv['chunk_size'] = ('chunk_size', 'CTy.u32')
    nce = parse_expr(m.group(1), senv, strip)
    expect(re.fullmatch(r'r\.op_state->ts\.template emplace<std::tuple<std::decay_t<Ts>\.\.\.>>\( std::forward<Ts>\(ts\)\.\.\.\);', st[4]), st[4])
    loop_hdr = r'for \(std::size_t worker_thread = 0; worker_thread < r\.op_state->num_worker_threads; \+\+worker_thread\) '
    m = re.fullmatch(loop_hdr + r'\{ r\.init_queue\((.*), (.*)\); \}', st[5])
    expect(m, f'set_value: init_queue loop {st[5]!r}')
    senv['worker_thread'] = ('worker_thread', 'CTy.u64')
    senv['num_chunks'] = ('num_chunks', nce.ty)
    iq0 = convert(parse_expr(m.group(1), senv, strip), 'CTy.u32')
    iq1 = convert(parse_expr(m.group(2), senv, strip), 'CTy.u32')
    expect(st[6] == 'auto const local_worker_thread = pika::get_local_worker_thread_num();', st[6])
    m = re.fullmatch(loop_hdr + r'\{ if \(worker_thread == local_worker_thread\) \{ continue; \} r\.do_work_task\((.*), (.*), (.*)\); \}', st[7])
    expect(m, f'set_value: spawn loop {st[7]!r}')
    t0 = convert(parse_expr(m.group(1), senv, strip), 'S')
    t1 = convert(parse_expr(m.group(2), senv, strip), 'CTy.u32')
    t2 = convert(parse_expr(m.group(3), senv, strip), 'CTy.u32')
    m2 = re.fullmatch(r'r\.do_work_local\((.*), (.*), local_worker_thread\);', st[8])
    expect(m2 and norm(m2.group(1)) == norm(m.group(1)) and norm(m2.group(2)) == norm(m.group(2)),
           f'set_value: do_work_local call {st[8]!r}')
    # do_work_task / do_work_local build task_function{op_state, n, chunk_size, worker_thread}
    for fn in ('do_work_task', 'do_work_local'):
        b = body_after(src, r'void ' + fn + r'\(Shape (?:const )?n, std::uint32_t (?:const )?chunk_size,\s*std::uint32_t (?:const )?worker_thread\) const', fn)
        expect(re.search(r'task_function\s*(?:task_f)?\{this->op_state, n, chunk_size, worker_thread\}', b), f'{fn}: task_function construction')
    out.append(f'''/-- The `shape == 0` fast path of `bulk_receiver::set_value` is present (checked by the
    translator against the source text). -/
def zeroFastPath : Bool := true

/-- `chunk_size = get_chunk_size(num_worker_threads, shape)` with the argument conversions. -/
def chunkSizeOf (S : CTy) (fuel : Nat) (num_worker_threads shape : Int) : Option Int :=
  getChunkSize S fuel {a0.term} {a1.term}

/-- Type of `num_chunks` (`auto`). -/
def numChunksTy (S : CTy) : CTy := {nce.ty}

/-- `num_chunks = {norm(st[3])[len('auto const num_chunks = '):-1]}`. -/
def numChunksOf (S : CTy) (shape chunk_size : Int) : Int :=
  {nce.term}

def numChunksNoUB (S : CTy) (shape chunk_size : Int) : Bool :=
  {ub_all(nce.ub)}

/-- Arguments of `init_queue(worker_thread, num_chunks)` as received (`std::uint32_t` parameters). -/
def initQueueArgs (S : CTy) (worker_thread num_chunks : Int) : Int × Int :=
  ({iq0.term}, {iq1.term})

/-- Fields `(n, chunk_size, worker_thread)` of the `task_function` built for a worker. -/
def taskArgs (S : CTy) (shape chunk_size worker_thread : Int) : Int × Int × Int :=
  ({t0.term}, {t1.term}, {t2.term})
''')

    # ---- init_queue ---------------------------------------------------------------------------
    body = body_after(src, r'void init_queue\(std::uint32_t const worker_thread,\s*std::uint32_t const num_chunks\)', 'init_queue')
    st = stmts(body)
    expect(len(st) == 4, f'init_queue: expected 4 statements: {st}')
    expect(st[0] == 'auto& queue = op_state->queues[worker_thread].data_;', st[0])
    ienv = {'worker_thread': ('worker_thread', 'CTy.u32'), 'num_chunks': ('num_chunks', 'CTy.u32'),
            'num_worker_threads': ('num_worker_threads', ty_nwt)}
    mb = re.fullmatch(r'auto const part_begin = (.*);', st[1])
    me = re.fullmatch(r'auto const part_end = (.*);', st[2])
    expect(mb and me, f'init_queue: {st[1]!r} {st[2]!r}')
    expect(st[3] == 'queue.reset(part_begin, part_end);', st[3])
    pb = convert(parse_expr(mb.group(1), ienv, strip), 'CTy.u32')   # reset(T first, T last), T = uint32
    pe = convert(parse_expr(me.group(1), ienv, strip), 'CTy.u32')
    out.append(f'''/-- `init_queue`: `part_begin = {norm(mb.group(1))}`. -/
def partBegin (num_worker_threads worker_thread num_chunks : Int) : Int :=
  {pb.term}

/-- `init_queue`: `part_end = {norm(me.group(1))}`. -/
def partEnd (num_worker_threads worker_thread num_chunks : Int) : Int :=
  {pe.term}

def initQueueNoUB (num_worker_threads worker_thread num_chunks : Int) : Bool :=
  {ub_all(pb.ub + pe.ub)}
''')

    # ---- do_work_chunk ------------------------------------------------------------------------
    body = body_after(src, r'void do_work_chunk\(Ts& ts, std::uint32_t const index\) const', 'do_work_chunk')
    st = stmts(body)
    expect(len(st) == 3, f'do_work_chunk: expected 3 statements: {st}')
    mb = re.fullmatch(r'auto const i_begin = (.*);', st[0])
    me = re.fullmatch(r'auto const i_end = (.*);', st[1])
    expect(mb and me, f'do_work_chunk: {st[0]!r} {st[1]!r}')
    expect(st[2] == 'for (auto i = i_begin; i < i_end; ++i) { std::apply(pika::util::detail::bind_front(op_state->f, i), ts); }',
           f'do_work_chunk: loop changed: {st[2]!r}')
    denv = {'index': ('index', 'CTy.u32'), 'chunk_size': ('chunk_size', fields['chunk_size']), 'n': ('n', 'S')}
    ib = parse_expr(mb.group(1), denv, strip)
    ie = parse_expr(me.group(1), denv, strip)
    out.append(f'''/-- `do_work_chunk`: `i_begin = {norm(mb.group(1))}`. -/
def iBegin (S : CTy) (index chunk_size : Int) : Int :=
  {ib.term}

/-- `do_work_chunk`: `i_end = {norm(me.group(1))}`. -/
def iEnd (S : CTy) (index chunk_size n : Int) : Int :=
  {ie.term}

/-- Types of `i_begin`, `i_end` (`auto`); the loop `for (auto i = i_begin; i < i_end; ++i)`
    compares them in their common type. -/
def iBeginTy (S : CTy) : CTy := {ib.ty}
def iEndTy (S : CTy) : CTy := {ie.ty}

def doWorkChunkNoUB (S : CTy) (index chunk_size n : Int) : Bool :=
  {ub_all(ib.ub + ie.ub)}
''')
    return '\n'.join(out)


def gen_ciq(src):
    src = strip_comments(src)
    m = re.search(r'template <typename T = ([\w:]+)>\s*class contiguous_index_queue', src)
    expect(m, 'contiguous_index_queue template header')
    T = lean_type(m.group(1))
    expect(T == 'CTy.u32', 'default index type must be std::uint32_t')
    rng = body_after(src, r'struct range\s*(?=\{)', 'struct range')
    expect(re.search(r'T first = 0;\s*T last = 0;', rng), 'range members')
    env = {'first': ('first', T), 'last': ('last', T)}

    def member(name, ret):
        b = body_after(rng, r'constexpr ' + ret + ' ' + name + r'\(\) noexcept', name)
        s = stmts(b)
        expect(len(s) == 1, f'{name}: {s}')
        return s[0]
    mi = re.fullmatch(r'return range\{(.*), (.*)\};', member('increment_first', 'range'))
    md = re.fullmatch(r'return range\{(.*), (.*)\};', member('decrement_last', 'range'))
    mem = re.fullmatch(r'return (.*);', member('empty', 'bool'))
    expect(mi and md and mem, 'range member bodies')
    inc = [convert(parse_expr(x, env), T) for x in mi.groups()]
    dec = [convert(parse_expr(x, env), T) for x in md.groups()]
    emp, _ = parse_cmp(mem.group(1), env)

    def pop(name, tmpl):
        b = body_after(src, r'constexpr std::optional<T> ' + name + r'\(\) noexcept', name)
        expect(norm(b) == norm(tmpl), f'{name}: body differs from the understood loop shape:\n{norm(b)}')
    pop('pop_left', '''range desired_range{0, 0}; T index = 0;
        range expected_range = current_range.data_.load(std::memory_order_relaxed);
        do { if (expected_range.empty()) { return std::nullopt; }
             index = expected_range.first; desired_range = expected_range.increment_first();
        } while (!current_range.data_.compare_exchange_weak(expected_range, desired_range));
        return std::make_optional<>(index);''')
    pop('pop_right', '''range desired_range{0, 0}; T index = 0;
        range expected_range = current_range.data_.load(std::memory_order_relaxed);
        do { if (expected_range.empty()) { return std::nullopt; }
             desired_range = expected_range.decrement_last(); index = desired_range.last;
        } while (!current_range.data_.compare_exchange_weak(expected_range, desired_range));
        return std::make_optional(index);''')
    return f'''/-- Index type of `contiguous_index_queue<>`. -/
def T : CTy := {T}

/-- `range::empty()`: `{norm(mem.group(1))}`. -/
def rangeEmpty (first last : Int) : Bool :=
  {emp}

/-- `range::increment_first()`. -/
def incrementFirst (first last : Int) : Int × Int :=
  ({inc[0].term}, {inc[1].term})

/-- `range::decrement_last()`. -/
def decrementLast (first last : Int) : Int × Int :=
  ({dec[0].term}, {dec[1].term})

/-- One iteration of the `pop_left` loop on the observed range: `none` = return `nullopt`,
    `some (index, desired_range)` = attempt `compare_exchange_weak(expected, desired)` and
    return `index` if it succeeds (loop shape checked against the source by the translator). -/
def popLeftTry (first last : Int) : Option (Int × (Int × Int)) :=
  if rangeEmpty first last then none
  else some (first, incrementFirst first last)

/-- One iteration of the `pop_right` loop: `index = desired_range.last`. -/
def popRightTry (first last : Int) : Option (Int × (Int × Int)) :=
  if rangeEmpty first last then none
  else some ((decrementLast first last).2, decrementLast first last)
'''


HEADER = '''/- GENERATED by tools/translate/bulk_arith.py from
   {src}
   on every run of the check.  Do not edit: changes are overwritten, and the theorems in
   Props/ are re-checked against this text. -/
import PikaVerif.Core.CInt
set_option linter.unusedVariables false
namespace PikaVerif.Gen.{ns}
open PikaVerif

'''


def write_if_changed(path, text):
    if os.path.exists(path) and open(path).read() == text:
        return False
    os.makedirs(os.path.dirname(path), exist_ok=True)
    with open(path, 'w') as f:
        f.write(text)
    return True


def main():
    import os
    here = os.path.dirname(os.path.dirname(os.path.dirname(os.path.abspath(__file__))))
    repo = sys.argv[1] if len(sys.argv) > 1 else os.environ.get('VERIF_REPO', '/repo')
    outdir = sys.argv[2] if len(sys.argv) > 2 else os.path.join(here, 'lean', 'PikaVerif', 'Gen')
    try:
        b = gen_bulk(open(os.path.join(repo, BULK)).read())
        c = gen_ciq(open(os.path.join(repo, CIQ)).read())
    except Unsupported as e:
        print(f'translator: unsupported source shape: {e}', file=sys.stderr)
        sys.exit(3)
    ch1 = write_if_changed(os.path.join(outdir, 'BulkArith.lean'),
                           HEADER.format(src=BULK, ns='BulkArith') + b + '\nend PikaVerif.Gen.BulkArith\n')
    ch2 = write_if_changed(os.path.join(outdir, 'IndexRange.lean'),
                           HEADER.format(src=CIQ, ns='IndexRange') + c + '\nend PikaVerif.Gen.IndexRange\n')
    print(f'generated BulkArith.lean ({"changed" if ch1 else "unchanged"}), IndexRange.lean ({"changed" if ch2 else "unchanged"})')


if __name__ == '__main__':
    main()
