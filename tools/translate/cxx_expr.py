#!/usr/bin/env python3
"""Tiny C++ integer-expression front end for the /verif translators.

Supported (everything else raises Unsupported -> the translator fails closed):
  identifiers (with member paths a.b->c, reduced to their last component by the caller's
  `strip` list), decimal / hex integer literals without suffix, parentheses,
  static_cast<T>(e), (std::min)(a, b) / std::min(a, b),
  binary * / % + - < <= > >= == !=, unary -.
Every node is typed with the C++ rules (integer promotion, usual arithmetic conversions, LP64);
types are Lean terms of type `CTy` so that generated code can stay parametric in `Shape`.
The generated Lean term works on `Int`; each operation is followed by `CTy.wrap` to its result
type, and each operation contributes conjuncts to a no-undefined-behaviour predicate.
"""
import re


class Unsupported(Exception):
    pass


TYPES = {
    'std::uint32_t': 'CTy.u32', 'uint32_t': 'CTy.u32', 'unsigned': 'CTy.u32', 'unsigned int': 'CTy.u32',
    'std::int32_t': 'CTy.i32', 'int': 'CTy.i32',
    'std::uint64_t': 'CTy.u64', 'std::size_t': 'CTy.u64', 'size_t': 'CTy.u64', 'unsigned long': 'CTy.u64',
    'std::int64_t': 'CTy.i64', 'long': 'CTy.i64', 'std::ptrdiff_t': 'CTy.i64',
    'Shape': 'S', 'T': 'T',
}

TOKEN = re.compile(r'\s*(?:(0[xX][0-9a-fA-F]+|\d+)(?![\w.])|((?:[A-Za-z_]\w*)(?:(?:::|->|\.)[A-Za-z_]\w*)*)|(<=|>=|==|!=|->|::|[-+*/%<>(),]))')


def tokenize(s):
    out = []
    pos = 0
    s = s.strip()
    while pos < len(s):
        m = TOKEN.match(s, pos)
        if not m:
            raise Unsupported(f'cannot tokenize at: {s[pos:pos + 30]!r}')
        if m.group(1) is not None:
            out.append(('num', m.group(1)))
        elif m.group(2) is not None:
            out.append(('id', m.group(2)))
        else:
            out.append(('op', m.group(3)))
        pos = m.end()
    return out


def lean_type(cxx):
    cxx = re.sub(r'\bconst\b', '', cxx).strip()
    cxx = re.sub(r'\s+', ' ', cxx)
    if cxx not in TYPES:
        raise Unsupported(f'type {cxx!r}')
    return TYPES[cxx]


CONCRETE = {'CTy.i32': (32, True), 'CTy.u32': (32, False), 'CTy.i64': (64, True), 'CTy.u64': (64, False)}
CONCRETE_INV = {v: k for k, v in CONCRETE.items()}


def common(a, b):
    """Usual arithmetic conversions. Two concrete types (all >= 32 bits, so promotion is the
    identity) are folded here exactly as `CTy.common` computes; anything involving the symbolic
    `Shape` type is left to Lean."""
    if a in CONCRETE and b in CONCRETE:
        (ba, sa), (bb, sb) = CONCRETE[a], CONCRETE[b]
        if ba == bb:
            return CONCRETE_INV[(ba, sa and sb)]
        return b if ba < bb else a
    return f'(CTy.common {a} {b})'


class Expr:
    """term: Lean Int term; ty: Lean CTy term; ub: list of Lean Bool terms (all must hold)."""

    def __init__(self, term, ty, ub=None):
        self.term, self.ty, self.ub = term, ty, list(ub or [])


class Parser:
    def __init__(self, text, env, strip=()):
        self.toks = tokenize(text)
        self.i = 0
        self.env = env          # name -> (lean term, lean type)
        self.strip = strip      # member-path prefixes reduced away

    def peek(self):
        return self.toks[self.i] if self.i < len(self.toks) else ('eof', '')

    def take(self, kind=None, val=None):
        t = self.peek()
        if (kind and t[0] != kind) or (val and t[1] != val):
            raise Unsupported(f'expected {kind} {val}, got {t}')
        self.i += 1
        return t

    def add(self):
        a = self.mul()
        while self.peek() in (('op', '+'), ('op', '-')):
            op = self.take()[1]
            b = self.mul()
            a = self.arith(op, a, b)
        return a

    def mul(self):
        a = self.unary()
        while self.peek() in (('op', '*'), ('op', '/'), ('op', '%')):
            op = self.take()[1]
            b = self.unary()
            a = self.arith(op, a, b)
        return a

    def arith(self, op, a, b):
        T = common(a.ty, b.ty)
        x, y = f'({T}.wrap {a.term})', f'({T}.wrap {b.term})'
        if op in '+-*':
            exact = f'({x} {op} {y})'
            return Expr(f'({T}.wrap {exact})', T, a.ub + b.ub + [f'{T}.ok {exact}'])
        if op == '/':
            exact = f'(Int.tdiv {x} {y})'
            return Expr(f'({T}.wrap {exact})', T, a.ub + b.ub + [f'decide ({y} ≠ 0)', f'{T}.ok {exact}'])
        if op == '%':
            exact = f'(Int.tmod {x} {y})'
            return Expr(f'({T}.wrap {exact})', T, a.ub + b.ub + [f'decide ({y} ≠ 0)'])
        raise Unsupported(op)

    def unary(self):
        if self.peek() == ('op', '-'):
            self.take()
            a = self.unary()
            T = f'(CTy.promote {a.ty})'
            exact = f'(- ({T}.wrap {a.term}))'
            return Expr(f'({T}.wrap {exact})', T, a.ub + [f'{T}.ok {exact}'])
        return self.primary()

    def primary(self):
        k, v = self.peek()
        if k == 'num':
            self.take()
            val = int(v, 0)
            if val >= 2 ** 31:
                raise Unsupported(f'literal {v} does not fit int')
            return Expr(str(val), 'CTy.i32')
        if k == 'op' and v == '(':
            # (std::min)(a, b)
            if self.toks[self.i + 1:self.i + 3] == [('id', 'std::min'), ('op', ')')]:
                self.i += 3
                return self.call_min()
            self.take()
            e = self.add()
            self.take('op', ')')
            return e
        if k == 'id':
            self.take()
            if v == 'static_cast':
                self.take('op', '<')
                tname = []
                while self.peek() != ('op', '>'):
                    tname.append(self.take()[1])
                self.take('op', '>')
                T = lean_type(' '.join(tname))
                self.take('op', '(')
                e = self.add()
                self.take('op', ')')
                return Expr(f'({T}.wrap {e.term})', T, e.ub)
            if v == 'std::min':
                return self.call_min()
            name = v
            for p in self.strip:
                if name.startswith(p):
                    name = name[len(p):]
                    break
            if name not in self.env:
                raise Unsupported(f'unknown name {v!r}')
            term, ty = self.env[name]
            return Expr(term, ty)
        raise Unsupported(f'unexpected token {k} {v}')

    def call_min(self):
        self.take('op', '(')
        a = self.add()
        self.take('op', ',')
        b = self.add()
        self.take('op', ')')
        # std::min<T>(T const&, T const&): both arguments must have the same type
        return Expr(f'(CTy.minSame {a.ty} {b.ty} {a.term} {b.term})', a.ty, a.ub + b.ub + [f'decide ({a.ty} = {b.ty})'])


def parse_cmp(text, env, strip=()):
    """Parse `a OP b` (a comparison at top level); returns (lean Bool term, ub list)."""
    p = Parser(text, env, strip)
    a = p.add()
    k, op = p.take('op')
    lop = {'<': '<', '<=': '≤', '>': '>', '>=': '≥', '==': '=', '!=': '≠'}.get(op)
    if lop is None:
        raise Unsupported(f'comparison operator {op}')
    b = p.add()
    if p.peek()[0] != 'eof':
        raise Unsupported('trailing tokens after comparison')
    T = common(a.ty, b.ty)
    return f'decide ({T}.wrap {a.term} {lop} {T}.wrap {b.term})', a.ub + b.ub


def parse_expr(text, env, strip=()):
    p = Parser(text, env, strip)
    e = p.add()
    if p.peek()[0] != 'eof':
        raise Unsupported(f'trailing tokens in {text!r}')
    return e


def convert(e, T):
    """Implicit conversion of an expression to type T (argument passing, initialisation)."""
    return Expr(f'({T}.wrap {e.term})', T, e.ub)


# ---------------------------------------------------------------------------- source slicing
def strip_comments(src):
    """Remove comments and the verification hook lines (statements `PIKA_VERIF_*(...);`, which
    expand to `((void) 0)` unless PIKA_VERIF_HOOKS is defined, and `else { PIKA_VERIF_*(...); }`)."""
    src = re.sub(r'//[^\n]*', '', src)
    src = re.sub(r'^[ \t]*else \{ PIKA_VERIF_(?:POINT|PRE|POST)\([^;]*\); \}[ \t]*\n', '', src, flags=re.M)
    src = re.sub(r'^[ \t]*PIKA_VERIF_(?:POINT|PRE|POST)\([^;]*\);[ \t]*\n', '', src, flags=re.M)
    src = re.sub(r'/\*.*?\*/', '', src, flags=re.S)
    return src


def norm(s):
    return re.sub(r'\s+', ' ', s).strip()


def body_after(src, header_regex, what):
    """Text of the brace-balanced block that follows the (unique) match of header_regex."""
    ms = list(re.finditer(header_regex, src, flags=re.S))
    if len(ms) != 1:
        raise Unsupported(f'{what}: expected exactly one match of the header, found {len(ms)}')
    i = src.index('{', ms[0].end() - 1)
    depth = 0
    for j in range(i, len(src)):
        if src[j] == '{':
            depth += 1
        elif src[j] == '}':
            depth -= 1
            if depth == 0:
                return src[i + 1:j]
    raise Unsupported(f'{what}: unbalanced braces')
