#!/usr/bin/env python3
"""T-gen: regenerate lean/PikaVerif/Gen/Rebind.lean — which per-task state a recycled thread object has
and where it is reset.

  thread_data.hpp            data members of class thread_data (with their #if guards, const-ness)
  thread_data.cpp            constructor initialisers / body, rebind_base body  (member := normalised value)
  context_base.hpp           data members of context_base<>, constructor initialisers, rebind_base,
                             reset, reset_tss  (the coroutine half of a recycled object)
  coroutine_impl.hpp         data members of coroutine_impl, constructor, rebind, reset
  coroutine_impl.cpp         the trampoline loop calls reset_tss(); reset(); before every return to the
                             scheduler (so a terminated object is always in the `reset` state)

Fails closed: a statement in one of the parsed function bodies that is not one of the recognised
shapes, or a member declaration that cannot be classified, aborts the generation (exit 3).
`--json` prints the tables."""
import json, os, re, sys
HERE = os.path.dirname(os.path.dirname(os.path.dirname(os.path.abspath(__file__))))
REPO = os.environ.get('VERIF_REPO', '/repo')
TD_HPP = 'libs/pika/threading_base/include/pika/threading_base/thread_data.hpp'
TD_CPP = 'libs/pika/threading_base/src/thread_data.cpp'
CB_HPP = 'libs/pika/coroutines/include/pika/coroutines/detail/context_base.hpp'
CI_HPP = 'libs/pika/coroutines/include/pika/coroutines/detail/coroutine_impl.hpp'
CI_CPP = 'libs/pika/coroutines/src/detail/coroutine_impl.cpp'
SF_HPP = 'libs/pika/threading_base/include/pika/threading_base/thread_data_stackful.hpp'


def die(msg):
    sys.stderr.write('rebind.py: ' + msg + '\n')
    sys.exit(3)


def strip_comments(src):
    src = re.sub(r'/\*.*?\*/', lambda m: '\n' * m.group(0).count('\n'), src, flags=re.S)
    return re.sub(r'//[^\n]*', '', src)


def read(rel):
    return strip_comments(open(os.path.join(REPO, rel)).read())


def norm(e):
    e = re.sub(r'\s+', ' ', e.strip())
    e = re.sub(r'\s*([(),])\s*', r'\1', e)
    if re.fullmatch(r'(?:::)?[\w:]*(?:<[\w:, ]*>)?\(\)', e) or e == '':
        return 'default'
    return e


def guard_str(stack):
    return ' && '.join(stack)


class Lines:
    """iterate over source lines keeping a stack of preprocessor conditions"""

    def __init__(self, text):
        self.items = []  # (guard, line)
        st = []
        for raw in text.split('\n'):
            l = raw.strip()
            m = re.match(r'#\s*(ifdef|ifndef|if|elif|else|endif)\b\s*(.*)', l)
            if m:
                k, c = m.group(1), re.sub(r'\s+', ' ', m.group(2).strip())
                if k == 'ifdef':
                    st.append(f'defined({c})')
                elif k == 'ifndef':
                    st.append(f'!defined({c})')
                elif k == 'if':
                    st.append(c)
                elif k == 'else':
                    if not st:
                        die('unbalanced #else')
                    st[-1] = f'!({st[-1]})'
                elif k == 'elif':
                    st[-1] = c
                elif k == 'endif':
                    if not st:
                        die('unbalanced #endif')
                    st.pop()
                continue
            if l.startswith('#'):
                continue
            self.items.append((guard_str(st), raw))


def class_body(text, header_re, what):
    m = re.search(header_re, text)
    if not m:
        die(f'{what}: class header not found')
    i = text.index('{', m.end() - 1)
    depth, j = 0, i
    while True:
        c = text[j]
        if c == '{':
            depth += 1
        elif c == '}':
            depth -= 1
            if depth == 0:
                break
        j += 1
    return text[i + 1:j]


SKIP_STMT = re.compile(r'^(using|friend|typedef|static|virtual|enum|class|struct|template|return|PIKA_NON_COPYABLE|explicit|inline|constexpr)\b')


def data_members(body, what):
    """declarations at brace depth 0 of a class body: [(name, guard, is_const, type)]"""
    out = []
    depth = 0
    stmt = ''
    stmt_guard = None
    for guard, raw in Lines(body).items:
        line = raw
        k = 0
        while k < len(line):
            c = line[k]
            if c == '{':
                depth += 1
                if depth == 1:
                    stmt = ''
                    stmt_guard = None
            elif c == '}':
                depth -= 1
                if depth == 0:
                    stmt = ''
                    stmt_guard = None
                    # a `};` closing an enum/class
            elif depth == 0:
                if c == ';':
                    s = re.sub(r'\s+', ' ', stmt.strip())
                    s = re.sub(r'^(public|private|protected)\s*:\s*', '', s)
                    s = re.sub(r'^(public|private|protected)\s*:\s*', '', s)
                    s_nt = s
                    while re.search(r'<[^<>]*>', s_nt):
                        s_nt = re.sub(r'<[^<>]*>', '', s_nt)
                    if s and '(' not in s_nt and not SKIP_STMT.match(s) and 'operator' not in s:
                        m = re.fullmatch(r'(mutable )?(.+?)\s*[ *&]\s*(\w+)', s)
                        if not m:
                            die(f'{what}: cannot classify member declaration {s!r}')
                        typ = (m.group(2) + s[m.end(2):m.start(3)]).strip()
                        name = m.group(3)
                        is_const = bool(re.search(r'\bconst$', m.group(2).strip())) and '*' not in s[m.end(2):m.start(3)]
                        out.append((name, stmt_guard if stmt_guard is not None else guard, is_const, typ))
                    stmt = ''
                    stmt_guard = None
                elif c == ':' and re.fullmatch(r'\s*(public|private|protected)\s*', stmt):
                    stmt = ''
                    stmt_guard = None
                else:
                    if stmt.strip() == '' and not c.isspace():
                        stmt_guard = guard
                    stmt += c
            k += 1
        if depth == 0:
            stmt += ' '
    return out


def function_body(text, sig_re, what):
    m = re.search(sig_re, text)
    if not m:
        die(f'{what}: not found')
    i = text.index('{', m.end() - 1)
    depth, j = 0, i
    while True:
        c = text[j]
        if c == '{':
            depth += 1
        elif c == '}':
            depth -= 1
            if depth == 0:
                break
        j += 1
    return text[m.start():i], text[i + 1:j]


def statements(body):
    """[(guard, statement text)] at depth 0 of a function body; a `if (...) {...}` block is one statement."""
    out = []
    depth = pdepth = 0
    stmt = ''
    sg = None
    for guard, raw in Lines(body).items:
        for c in raw + ' ':
            if stmt.strip() == '' and not c.isspace():
                sg = guard
            stmt += c
            if c == '(':
                pdepth += 1
            elif c == ')':
                pdepth -= 1
            elif c == '{':
                depth += 1
            elif c == '}':
                depth -= 1
                if depth == 0 and pdepth == 0:
                    out.append((sg, re.sub(r'\s+', ' ', stmt.strip())))
                    stmt = ''
            elif c == ';' and depth == 0 and pdepth == 0:
                s = re.sub(r'\s+', ' ', stmt.strip())
                if s != ';':
                    out.append((sg, s))
                stmt = ''
    if stmt.strip():
        die(f'trailing text in function body: {stmt.strip()[:60]!r}')
    return out


IGNORED_CALL = re.compile(r'^(PIKA_LOG|PIKA_ASSERT|PIKA_ASSERT_MSG|PIKA_VERIF_POST|PIKA_VERIF_PRE|PIKA_VERIF_POINT|PIKA_UNUSED)\(')


def classify(stmts, what, setters, helpers, asserted=None):
    """-> [(member, guard, value)]"""
    out = []
    for guard, s in stmts:
        s0 = s.rstrip(';').strip()
        m = re.match(r'^PIKA_ASSERT\((\w+_|m_\w+) == (nullptr|0)\)$', s0)
        if m and asserted is not None:
            asserted.append((m.group(1), guard, m.group(2)))
            continue
        if IGNORED_CALL.match(s0):
            continue
        m = re.fullmatch(r'(\w+_|m_\w+)\.store\((.*?)(?:, std::memory_order_\w+)?\)', s0)
        if m:
            out.append((m.group(1), guard, norm(m.group(2))))
            continue
        m = re.fullmatch(r'(\w+_|m_\w+)\.(clear|reset)\(\)', s0)
        if m:
            out.append((m.group(1), guard, 'default'))
            continue
        m = re.fullmatch(r'(?:this->)?(\w+_|m_\w+) = (.*)', s0)
        if m and '==' not in m.group(1):
            out.append((m.group(1), guard, norm(m.group(2))))
            continue
        m = re.fullmatch(r'(\w+)\((.*)\)', s0)
        if m and m.group(1) in setters:
            out.append((setters[m.group(1)], guard, norm(m.group(2))))
            continue
        m = re.fullmatch(r'(?:this->)?(?:super_type::)?(\w+)\(\)', s0)
        if m and m.group(1) in helpers:
            for (mem, g2, v) in helpers[m.group(1)]:
                out.append((mem, ' && '.join(x for x in (guard, g2) if x), v))
            continue
        m = re.fullmatch(r'if \((\w+_) == nullptr\) \{(.*)\}', s0)
        if m:
            # conditional default of a debugging reference (parent id): recorded verbatim as part of the value
            out.append((m.group(1), guard, 'fallback:' + norm(m.group(2))))
            continue
        if re.fullmatch(r'delete_tss_storage\(m_thread_data\)', s0):
            tss = read('libs/pika/coroutines/src/detail/tss.cpp')
            if not re.search(r'void delete_tss_storage\(tss_storage\*& storage\)\s*\{\s*delete storage;\s*storage = nullptr;\s*PIKA_UNUSED\(storage\);\s*\}',
                             re.sub(r'#[^\n]*', '', tss)):
                die('delete_tss_storage has an unexpected body')
            out.append(('m_thread_data', guard, 'nullptr'))
            continue
        die(f'{what}: unrecognised statement {s0!r}')
    return out


def ctor_inits(sig, what, base_names=()):
    """initialiser list of a constructor signature text `X(...) : a_(e), b_(e)` with guards -> [(member, guard, value)]"""
    i = sig.index(')')
    # find the ':' that starts the initialiser list: first ':' at paren depth 0 after the parameter list
    depth = 0
    k = None
    for idx, c in enumerate(sig):
        if c == '(':
            depth += 1
        elif c == ')':
            depth -= 1
        elif c == ':' and depth == 0 and idx > 0 and sig[idx - 1] != ':' and sig[idx + 1:idx + 2] != ':':
            k = idx
            break
    if k is None:
        return []
    out = []
    entries = []
    cur, cg, depth = '', None, 0
    for guard, raw in Lines(sig[k + 1:]).items:
        for c in raw + ' ':
            if c == ',' and depth == 0:
                entries.append((cg, cur))
                cur, cg = '', None
                continue
            if cur.strip() == '' and not c.isspace():
                cg = guard
            if c == '(':
                depth += 1
            elif c == ')':
                depth -= 1
            cur += c
    if cur.strip():
        entries.append((cg, cur))
    for guard, l in entries:
        l = re.sub(r'\s+', ' ', l.strip())
        if not l:
            continue
        m = re.fullmatch(r'(\w+)\((.*)\)', l)
        if not m:
            die(f'{what}: unrecognised initialiser {l!r}')
        if m.group(1) in base_names:
            continue
        out.append((m.group(1), guard or '', norm(m.group(2))))
    return out


def lean_str(s):
    return '"' + s.replace('\\', '\\\\').replace('"', '\\"') + '"'


def lean_guard(g):
    return '[' + ', '.join(lean_str(x) for x in g.split(' && ') if x) + ']'


TYPES = {}


def unwrap(name, v):
    """`T(args)` where T is the declared type of the member -> `args`"""
    for t in TYPES.get(name, []):
        if v.startswith(t + '(') and v.endswith(')'):
            return v[len(t) + 1:-1]
    return v


def lean_list3(xs):
    return '[\n  ' + ',\n  '.join(f'⟨{lean_str(a)}, {lean_guard(b)}, {lean_str(unwrap(a, c))}⟩' for a, b, c in xs) + '\n]' if xs else '[]'


def main():
    td_hpp, td_cpp = read(TD_HPP), read(TD_CPP)
    # ------------------------------------------------------------------ thread_data
    body = class_body(td_hpp, r'class thread_data : public detail::thread_data_reference_counting\s*\{', 'thread_data')
    td_members = data_members(body, 'thread_data')
    names = [m[0] for m in td_members]
    if len(set(names)) != len(names):
        # the same name under alternative guards (backtrace_): keep them distinct by guard
        pass
    for n in names:
        if not n.endswith('_'):
            die(f'thread_data: unexpected data member name {n!r}')
    # setters used by the constructor / rebind_base, verified against their bodies
    setters = {}
    if re.search(r'void set_marked_state\(thread_schedule_state mark\) const\s*(?:noexcept)?\s*\{\s*marked_state_ = mark;\s*\}', td_hpp):
        setters['set_marked_state'] = 'marked_state_'
    if re.search(r'void set_timer_data\(\s*std::shared_ptr<pika::detail::external_timer::task_wrapper> data\)\s*(?:noexcept)?\s*\{\s*timer_data_ = data;\s*\}', td_hpp):
        setters['set_timer_data'] = 'timer_data_'
    _, fte = function_body(td_cpp, r'void thread_data::free_thread_exit_callbacks\(\)\s*\{', 'free_thread_exit_callbacks')
    fte_st = [s for _, s in statements(fte)]
    if fte_st != ['std::lock_guard<pika::detail::spinlock> l(spinlock_pool::spinlock_for(this));',
                  'PIKA_ASSERT(exit_funcs_.empty() || ran_exit_funcs_);', 'exit_funcs_.clear();']:
        die(f'free_thread_exit_callbacks has an unexpected body: {fte_st}')
    helpers = {'free_thread_exit_callbacks': [('exit_funcs_', '', 'default')]}
    sig, cbody = function_body(td_cpp, r'thread_data::thread_data\(thread_init_data& init_data,[^)]*\)\s*:', 'thread_data constructor')
    td_ctor = ctor_inits(sig, 'thread_data constructor', base_names=('thread_data_reference_counting',)) + \
        classify(statements(cbody), 'thread_data constructor', setters, helpers)
    _, rbody = function_body(td_cpp, r'void thread_data::rebind_base\(thread_init_data& init_data\)\s*\{', 'thread_data::rebind_base')
    td_rebind = classify(statements(rbody), 'thread_data::rebind_base', setters, helpers)
    # thread_data_stackful::rebind = rebind_base ; coroutine_.rebind
    sf = read(SF_HPP)
    _, sfr = function_body(sf, r'void rebind\(thread_init_data& init_data\) override\s*\{', 'thread_data_stackful::rebind')
    sfr_st = [s for _, s in statements(sfr)]
    if sfr_st != ['this->thread_data::rebind_base(init_data);', 'coroutine_.rebind(std::move(init_data.func), thread_id_type(this));',
                  'PIKA_ASSERT(coroutine_.is_ready());']:
        die(f'thread_data_stackful::rebind has an unexpected body: {sfr_st}')
    # ------------------------------------------------------------------ context_base / coroutine_impl
    cb = read(CB_HPP)
    cb_body = class_body(cb, r'class context_base : public default_context_impl<CoroutineImpl>\s*\{', 'context_base')
    cb_members = data_members(cb_body, 'context_base')
    sig, b = function_body(cb_body, r'context_base\(std::ptrdiff_t stack_size, thread_id_type id\)\s*:', 'context_base constructor')
    cb_ctor = ctor_inits(sig, 'context_base constructor', base_names=('base_type',)) + classify(statements(b), 'context_base constructor', {}, {})
    _, b = function_body(cb_body, r'void reset_tss\(\)\s*\{', 'context_base::reset_tss')
    cb_reset_tss = classify(statements(b), 'context_base::reset_tss', {}, {})
    _, b = function_body(cb_body, r'void reset\(\)\s*\{', 'context_base::reset')
    cb_reset = classify(statements(b), 'context_base::reset', {}, {})
    asserted = []
    _, b = function_body(cb_body, r'void rebind_base\(thread_id_type id\)\s*\{', 'context_base::rebind_base')
    cb_rebind = classify(statements(b), 'context_base::rebind_base', {}, {}, asserted)
    ci = read(CI_HPP)
    ci_body = class_body(ci, r'class coroutine_impl : public context_base<coroutine_impl>\s*\{', 'coroutine_impl')
    ci_members = data_members(ci_body, 'coroutine_impl')
    sig, b = function_body(ci_body, r'coroutine_impl\(functor_type&& f, thread_id_type id, std::ptrdiff_t stack_size\)\s*:', 'coroutine_impl constructor')
    ci_ctor = ctor_inits(sig, 'coroutine_impl constructor', base_names=('context_base',)) + classify(statements(b), 'coroutine_impl constructor', {}, {})
    helpers_ci = {'reset': cb_reset, 'reset_stack': [], 'rebind_stack': []}
    _, b = function_body(ci_body, r'void reset\(\)\s*\{', 'coroutine_impl::reset')
    ci_reset = classify(statements(b), 'coroutine_impl::reset', {}, helpers_ci)
    _, b = function_body(ci_body, r'void rebind\(functor_type&& f, thread_id_type id\)\s*\{', 'coroutine_impl::rebind')
    stm = statements(b)
    stm2 = []
    for g, s in stm:
        if s == 'this->super_type::rebind_base(id);':
            continue
        if s.startswith('PIKA_ASSERT(m_result.first =='):
            continue
        stm2.append((g, s))
    if len(stm2) != len(stm) - 2:
        die('coroutine_impl::rebind: expected exactly one call of super_type::rebind_base and the m_result assertion')
    ci_rebind = classify(stm2, 'coroutine_impl::rebind', {}, helpers_ci) + cb_rebind
    # the trampoline loop resets the object before every return to the scheduler
    cic = read(CI_CPP)
    if not re.search(r'this->reset_tss\(\);\s*this->reset\(\);\s*this->bind_result\(result_last\);\s*\}\s*this->do_return\(status, std::move\(tinfo\)\);\s*\}\s*while \(this->m_state == super_type::ctx_running\);', cic):
        die('coroutine_impl::operator(): the reset_tss(); reset(); bind_result(); do_return() loop has an unexpected shape')
    co_members = cb_members + ci_members
    co_ctor = cb_ctor + ci_ctor
    # state a terminated object is left in (reset_tss + coroutine_impl::reset), then rebind
    co_exit = cb_reset_tss + ci_reset
    co_rebind = ci_rebind
    co_assert = asserted

    for n, g, c, t in td_members + co_members:
        TYPES.setdefault(n, []).append(t)

    def mem_list(ms):
        return '[\n  ' + ',\n  '.join(f'⟨{lean_str(n)}, {lean_guard(g)}, {"true" if c else "false"}, {lean_str(t)}⟩' for n, g, c, t in ms) + '\n]'

    out = f'''/-! GENERATED by tools/translate/rebind.py from
    {TD_HPP}
    {TD_CPP}
    {SF_HPP}
    {CB_HPP}
    {CI_HPP}
    {CI_CPP} — do not edit.
    Tables: data members (name, preprocessor guard, declared const, type) and, per function, the list of
    (member, guard, normalised value) it assigns ("default" = cleared / value-initialised). -/
namespace PikaVerif.Gen.Rebind

structure Member where
  name : String
  guard : List String   -- conjuncts of the enclosing preprocessor conditions
  isConst : Bool
  type : String
  deriving DecidableEq, Repr

structure Assign where
  name : String
  guard : List String
  value : String
  deriving DecidableEq, Repr

/-- data members of `class thread_data` -/
def tdMembers : List Member := {mem_list(td_members)}

/-- `thread_data::thread_data(...)`: initialiser list and body -/
def tdCtor : List Assign := {lean_list3(td_ctor)}

/-- `thread_data::rebind_base` (called first by `thread_data_stackful::rebind`, checked) -/
def tdRebind : List Assign := {lean_list3(td_rebind)}

/-- data members of `context_base<coroutine_impl>` and `coroutine_impl` -/
def coMembers : List Member := {mem_list(co_members)}

/-- constructors of `context_base` and `coroutine_impl` -/
def coCtor : List Assign := {lean_list3(co_ctor)}

/-- `reset_tss()` + `coroutine_impl::reset()` (run by the trampoline loop before every final return) -/
def coExit : List Assign := {lean_list3(co_exit)}

/-- `coroutine_impl::rebind` + `context_base::rebind_base` -/
def coRebind : List Assign := {lean_list3(co_rebind)}

/-- `PIKA_ASSERT(member == 0/nullptr)` statements of `context_base::rebind_base` (state relied upon) -/
def coRebindAsserts : List Assign := {lean_list3(co_assert)}

end PikaVerif.Gen.Rebind
'''
    path = os.path.join(HERE, 'lean', 'PikaVerif', 'Gen', 'Rebind.lean')
    old = open(path).read() if os.path.exists(path) else None
    if old != out:
        open(path, 'w').write(out)
    if '--json' in sys.argv:
        print(json.dumps({'td_members': td_members, 'td_ctor': td_ctor, 'td_rebind': td_rebind, 'co_members': co_members,
                          'co_ctor': co_ctor, 'co_exit': co_exit, 'co_rebind': co_rebind, 'co_assert': co_assert}))
    else:
        print('generated', path)


main()
