#!/usr/bin/env python3
"""T-gen for C19: regenerate lean/PikaVerif/Gen/ElasticConsts.lean from the C++ source: numeric values
of pika::runtime_state and the shape facts of the suspend/resume protocol the Elastic model relies on
(read from the text of the anchor functions).  Fails closed."""
import os, re, sys
HERE = os.path.dirname(os.path.dirname(os.path.dirname(os.path.abspath(__file__))))
REPO = os.environ.get('VERIF_REPO', '/repo')


def die(msg):
    sys.stderr.write('elastic.py: ' + msg + '\n')
    sys.exit(3)


def strip(src):
    src = re.sub(r'/\*.*?\*/', '', src, flags=re.S)
    src = re.sub(r'//.*', '', src)
    return '\n'.join(l for l in src.split('\n') if 'PIKA_VERIF_' not in l)


def body_of(src, header_re):
    """text of the brace block following the first match of header_re"""
    m = re.search(header_re, src)
    if not m:
        die(f'function not found: {header_re}')
    i = src.index('{', m.end())
    depth, j = 0, i
    while True:
        if src[j] == '{':
            depth += 1
        elif src[j] == '}':
            depth -= 1
            if depth == 0:
                return src[i:j + 1]
        j += 1


def main():
    st = strip(open(os.path.join(REPO, 'libs/pika/threading_base/include/pika/threading_base/scheduler_state.hpp')).read())
    m = re.search(r'enum class runtime_state\s*:\s*std::int8_t\s*\{(.*?)\};', st, flags=re.S)
    if not m:
        die('enum runtime_state not found')
    vals = {}
    for item in m.group(1).split(','):
        item = item.strip()
        if not item:
            continue
        mm = re.fullmatch(r'(\w+)\s*=\s*(-?\d+|\w+)', item)
        if not mm:
            die(f'unexpected enumerator shape: {item!r}')
        v = mm.group(2)
        vals[mm.group(1)] = int(v) if re.fullmatch(r'-?\d+', v) else vals[v]
    for k in ('initialized', 'running', 'suspended', 'pre_sleep', 'sleeping', 'stopping', 'terminating', 'stopped'):
        if k not in vals:
            die(f'runtime_state::{k} missing')

    sb = strip(open(os.path.join(REPO, 'libs/pika/threading_base/src/scheduler_base.cpp')).read())
    susp = body_of(sb, r'void scheduler_base::suspend\(std::size_t num_thread\)')
    i_store = susp.find('states_[num_thread].store(runtime_state::sleeping);')
    i_wait = susp.find('suspend_conds_[num_thread].wait(l);')
    i_cas = susp.find('states_[num_thread].compare_exchange_strong(expected, runtime_state::running);')
    if not (0 <= i_store < i_wait < i_cas):
        die('scheduler_base::suspend: expected store(sleeping); wait(l) [no predicate]; CAS(sleeping -> running)')
    if 'pika::runtime_state expected = runtime_state::sleeping;' not in susp:
        die('scheduler_base::suspend: CAS expected value is not sleeping')
    res = body_of(sb, r'void scheduler_base::resume\(std::size_t num_thread\)')
    if 'notify_one()' not in res or 'lock' in res:
        die('scheduler_base::resume: expected plain notify_one without taking a lock')
    sel = body_of(sb, r'std::size_t scheduler_base::select_active_pu\(')
    if sel.count('states_[num_thread_local] <= max_allowed_state') != 2 or \
            'l.owns_lock() && states_[num_thread_local] <= runtime_state::suspended' not in sel or \
            'auto max_allowed_state = runtime_state::suspended;' not in sel or \
            'has_scheduler_mode(threads::scheduler_mode::enable_elasticity)' not in sel:
        die('select_active_pu has an unexpected shape')

    tp = strip(open(os.path.join(REPO, 'libs/pika/thread_pools/include/pika/thread_pools/scheduled_thread_pool_impl.hpp')).read())
    spi = body_of(tp, r'void scheduled_thread_pool<Scheduler>::suspend_processing_unit_internal\(')
    i_try = spi.find('l.try_lock()')
    i_cas = spi.find('state.compare_exchange_strong(expected, runtime_state::pre_sleep);')
    i_unl = spi.find('l.unlock();', i_cas)
    i_wait = spi.find('state.load() == runtime_state::pre_sleep')
    if not (0 <= i_try < i_cas < i_unl < i_wait) or 'pika::runtime_state expected = runtime_state::running;' not in spi:
        die('suspend_processing_unit_internal: expected try_lock; CAS(running -> pre_sleep); unlock; wait until != pre_sleep')
    spd = body_of(tp, r'void scheduled_thread_pool<Scheduler>::suspend_processing_unit_direct\(')
    blocks = re.findall(r'PIKA_THROWS_IF\(ec, pika::error::invalid_status,.*?\);\s*(return;)?\s*\}', spd, flags=re.S)
    if len(blocks) != 2:
        die('suspend_processing_unit_direct: expected two refusal blocks')
    refuse_returns = all(b == 'return;' for b in blocks)
    sd = body_of(tp, r'void scheduled_thread_pool<Scheduler>::suspend_direct\(')
    if not re.search(r'"cannot suspend a pool from itself"\);\s*return;', sd):
        die('suspend_direct: refusal does not return')
    rpd = body_of(tp, r'void scheduled_thread_pool<Scheduler>::resume_processing_unit_direct\(')
    if not re.search(r'this->sched_->Scheduler::resume\(virt_core\);\s*return state\.load\(\) == runtime_state::sleeping;', rpd):
        die('resume_processing_unit_direct: expected loop { resume(virt_core); return state == sleeping }')
    si = body_of(tp, r'void scheduled_thread_pool<Scheduler>::suspend_internal\(')
    if 'compare_exchange_strong(' not in si or 'get_pu_mutex' in si:
        die('suspend_internal: expected the CAS loop without pu mutex')

    sl = strip(open(os.path.join(REPO, 'libs/pika/thread_pools/include/pika/thread_pools/scheduling_loop.hpp')).read())
    if 'bool running = this_state.load(std::memory_order_relaxed) < runtime_state::pre_sleep;' not in sl:
        die('scheduling_loop: `running` sample has an unexpected shape')
    if not re.search(r'bool can_exit = !running &&\s*scheduler\.SchedulingPolicy::cleanup_terminated\(num_thread, true\) &&\s*'
                     r'scheduler\.SchedulingPolicy::get_queue_length\(num_thread\) == 0;\s*'
                     r'if \(this_state\.load\(\) == runtime_state::pre_sleep\)\s*\{\s*'
                     r'if \(can_exit\) \{ scheduler\.SchedulingPolicy::suspend\(num_thread\); \}', sl):
        die('scheduling_loop: exit path for pre_sleep has an unexpected shape')

    out = f'''/-! GENERATED by tools/translate/elastic.py from
    libs/pika/threading_base/include/pika/threading_base/scheduler_state.hpp,
    libs/pika/threading_base/src/scheduler_base.cpp,
    libs/pika/thread_pools/include/pika/thread_pools/scheduled_thread_pool_impl.hpp,
    libs/pika/thread_pools/include/pika/thread_pools/scheduling_loop.hpp.  Do not edit. -/
namespace PikaVerif.Gen.ElasticConsts

def initialized : Nat := {vals['initialized']}
def running : Nat := {vals['running']}
def suspended : Nat := {vals['suspended']}
def preSleep : Nat := {vals['pre_sleep']}
def sleeping : Nat := {vals['sleeping']}
def stopping : Nat := {vals['stopping']}

/-- both refusal branches of `suspend_processing_unit_direct` end with `return;` -/
def refuseReturns : Bool := {'true' if refuse_returns else 'false'}

end PikaVerif.Gen.ElasticConsts
'''
    p = os.path.join(HERE, 'lean', 'PikaVerif', 'Gen', 'ElasticConsts.lean')
    old = open(p).read() if os.path.exists(p) else None
    if old != out:
        open(p, 'w').write(out)
    print('ok')


main()
