#!/bin/bash
# Development helper (NOT the procedure of record - that is tools/try_seed.sh on /repo itself): try a seeded change in an
# isolated copy so that /repo and /verif stay free for other runs.  /tmp/seedlab/{verif (rsync copy), repo (worktree)}.
# Usage: lab_seed.sh <seed dir name> <check id> [tier]
set -u
S=$1; C=$2; T=${3:-quick}
L=/tmp/seedlab
rsync -a --exclude build --exclude 'lean/.lake' --exclude .git --exclude replays --exclude evidence /verif/ $L/verif/
git -C $L/repo checkout -q --detach $(git -C /repo rev-parse HEAD) 2>/dev/null
git -C $L/repo reset -q --hard
D=/verif/seeded/$S
P=$D/patch.diff; [ -f $D/patch-ported.diff ] && P=$D/patch-ported.diff
git -C $L/repo apply $P || { echo "patch does not apply"; exit 2; }
cd $L/verif
OUT=$D/labdetect-$C.log
( VERIF_REPO=$L/repo ./check $C --tier $T ) > $OUT 2>&1; RC=$?
echo "exit=$RC" >> $OUT
git -C $L/repo reset -q --hard
grep -v "^KNOWN" $OUT | tail -4 | cut -c1-300
