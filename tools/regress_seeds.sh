#!/bin/bash
# Regression of the whole seed corpus against the CURRENT machinery, in the isolated lab (/tmp/seedlab, see lab_seed.sh),
# so that /repo and /verif stay free.  For every seeded/<seed>/ the check of its property is run on the seeded tree; the
# outcome (exit code, VIOLATION lines, message of the first replay) is written to seeded/<seed>/regress.log and a
# one-line summary to build/regress-summary.txt.  Usage: regress_seeds.sh [seed ...]   (default: all)
set -u
L=/tmp/seedlab
mkdir -p $L
[ -d $L/repo ] || git -C /repo worktree add --detach $L/repo HEAD >/dev/null 2>&1
SUM=/verif/build/regress-summary.txt
[ $# -gt 0 ] && SEEDS="$@" || SEEDS=$(ls /verif/seeded)
for S in $SEEDS; do
  D=/verif/seeded/$S
  [ -f $D/patch.diff ] || continue
  C=$(python3 -c "import json,sys;print(json.load(open('$D/meta.json')).get('check') or json.load(open('$D/meta.json'))['property'])" 2>/dev/null || echo ${S:0:3})
  rsync -a --exclude build --exclude 'lean/.lake' --exclude .git --exclude replays --exclude evidence /verif/ $L/verif/
  git -C $L/repo checkout -q --detach $(git -C /repo rev-parse HEAD) 2>/dev/null
  git -C $L/repo reset -q --hard
  P=$D/patch.diff; [ -f $D/patch-ported.diff ] && P=$D/patch-ported.diff
  if ! git -C $L/repo apply $P 2>/dev/null && ! git -C $L/repo apply -3 $P 2>/dev/null; then echo "$S $C patch-does-not-apply" | tee -a $SUM; continue; fi
  OUT=$D/regress.log
  rm -rf $L/verif/replays/$C*
  ( cd $L/verif && VERIF_REPO=$L/repo timeout 3600 ./check $C ) > $OUT 2>&1; RC=$?
  echo "exit=$RC" >> $OUT
  F=$(grep -o "replay=[^ ]*" $OUT | head -1 | cut -d= -f2)
  if [ -n "$F" ] && [ -f "$F" ]; then
    python3 - "$F" >> $OUT <<'PY'
import json, sys
d = json.load(open(sys.argv[1]))
print('first replay kind:', d.get('kind'))
print('first replay what:', str(d.get('what'))[:700])
print('first replay model verdict:', str(d.get('model_verdict'))[:400])
PY
  fi
  git -C $L/repo reset -q --hard
  echo "$S $C exit=$RC $(grep -c '^VIOLATION' $OUT) violation line(s); $(grep -m1 'first replay what' $OUT | cut -c1-200)" | tee -a $SUM
done
