#!/bin/bash
# Run every quick check on the current tree at the given VERIF_SEED values (default 1 2 3), one check at a time.
# Prints one line per (check, seed): exit code and the VIOLATION lines if any.  Usage: soak.sh [seed ...]
cd "$(dirname "$0")/.."
SEEDS=${@:-1 2 3}
for s in $SEEDS; do
  for c in C01 C02 C03 C04 C05 C06 C07 C08 C09 C10 C11 C12 C13 C14 C15 C16 C17 C18 C19 C20; do
    out=$(VERIF_SEED=$s ./check $c --tier quick 2>&1); rc=$?
    echo "seed=$s $c exit=$rc $(echo "$out" | grep -c '^KNOWN-FINDING') known-finding line(s) $(echo "$out" | grep '^VIOLATION' | head -3 | tr '\n' ' ')"
  done
done
