#!/bin/bash
# Confirm several seeded changes with ONE scratch worktree of /repo's HEAD (built once, then incremental):
# for each seed: demo on the unmodified tree 3x, apply the patch, rebuild, demo 3x, revert.
# Usage: confirm_all.sh <seed dir name>[:demo args] ...
set -u
W=/tmp/confirm-base
git -C /repo worktree remove --force $W 2>/dev/null
git -C /repo worktree add --detach $W HEAD >/dev/null 2>&1 || { echo "worktree failed"; exit 2; }
cmake -G Ninja -S $W -B $W/build -DCMAKE_BUILD_TYPE=RelWithDebInfo -Dfmt_DIR=/usr/lib/x86_64-linux-gnu/cmake/fmt -DPIKA_WITH_TESTS=OFF -DPIKA_WITH_EXAMPLES=OFF -DPIKA_WITH_MALLOC=system -DPIKA_WITH_UNITY_BUILD=ON "-DCMAKE_CXX_FLAGS=-Wno-error -g0" >/dev/null 2>&1
build() { nice ninja -C $W/build -j8 >/dev/null 2>&1; }
build || { echo "clean build failed"; exit 2; }
for spec in "$@"; do
  S=${spec%%:*}; ARGS=${spec#*:}; [ "$ARGS" = "$spec" ] && ARGS="--pika:threads=4"
  D=/verif/seeded/$S; LOG=$D/confirm.log; : > $LOG
  P=$D/patch.diff; [ -f $D/patch-ported.diff ] && P=$D/patch-ported.diff
  compile_demo() {
    INC=$(for d in $W/libs/pika/*/include $W/build/libs/pika/*/include; do printf -- "-I%s " $d; done)
    g++ -std=c++20 -O1 -DFMT_SHARED -DSPDLOG_COMPILED_LIB -DSPDLOG_FMT_EXTERNAL -DSPDLOG_SHARED_LIB -D_GNU_SOURCE -DNDEBUG $INC -I$W/build $D/demo.cpp -L$W/build/lib -lpika -lfmt -lspdlog -lhwloc -latomic -pthread -Wl,-rpath,$W/build/lib -o $W/demo 2>>$LOG
  }
  run_demo() { local ok=0 bad=0; for i in 1 2 3; do timeout 400 $W/demo $ARGS >>$LOG 2>&1; if [ $? -eq 0 ]; then ok=$((ok+1)); else bad=$((bad+1)); fi; done; echo "$ok/$bad"; }
  compile_demo || { echo "$S: demo compile failed (clean)" | tee -a $LOG; continue; }
  CLEAN=$(run_demo)
  git -C $W apply $P 2>>$LOG || git -C $W apply -3 $P 2>>$LOG || { echo "$S: patch does not apply" | tee -a $LOG; git -C $W reset -q --hard HEAD; continue; }
  if build && compile_demo; then PATCHED=$(run_demo); else PATCHED="build-failed"; fi
  echo "$S: demo pass/fail on HEAD $(git -C /repo rev-parse --short HEAD): unmodified $CLEAN ; with the change $PATCHED" | tee -a $LOG
  git -C $W reset -q --hard HEAD; build
done
git -C /repo worktree remove --force $W
