#!/bin/bash
# Build libpika from /repo's current working tree with the verification hooks on.
# Usage: build_pika.sh [hooks|mpi]   -> /verif/build/pika-<variant>
set -e
VARIANT=${1:-hooks}
HERE=$(cd "$(dirname "$0")/.." && pwd)
REPO=${VERIF_REPO:-/repo}
B=$HERE/build/pika-$VARIANT
mkdir -p "$B"
exec 9>"$B/.lock"; flock 9
EXTRA=""
if [ "$VARIANT" = mpi ]; then EXTRA="-DPIKA_WITH_MPI=ON"; fi
if [ ! -f "$B/build.ninja" ]; then
  cmake -G Ninja -S "$REPO" -B "$B" -DCMAKE_BUILD_TYPE=RelWithDebInfo \
    -Dfmt_DIR=/usr/lib/x86_64-linux-gnu/cmake/fmt -DPIKA_WITH_TESTS=OFF -DPIKA_WITH_EXAMPLES=OFF \
    -DPIKA_WITH_MALLOC=system -DPIKA_WITH_UNITY_BUILD=ON \
    "-DCMAKE_CXX_FLAGS=-Wno-error -DPIKA_VERIF_HOOKS -g0" $EXTRA > "$B/cmake.log" 2>&1 || { tail -30 "$B/cmake.log"; exit 2; }
fi
ninja -C "$B" -j${VERIF_JOBS:-6} > "$B/ninja.log" 2>&1 || { grep -E "error|Error" -A5 "$B/ninja.log" | head -60; exit 2; }
echo "pika-$VARIANT ok"
