#!/usr/bin/env python3
"""Write seeded/<id>e/meta.json for the fifth seed round from the table below + the recorded detection logs
(detect-<check>.log written by tools/try_seed.sh on /repo, regress.log written by tools/regress_seeds.sh in the lab)."""
import json, os, re
HERE = os.path.dirname(os.path.dirname(os.path.abspath(__file__)))
SRC = "independent sub-agent (seed5-{p}) given only the property text, the locations of the four earlier changes to avoid, and a scratch worktree"
T = {
 'C01': ("one worker at a time / runs exactly once: lockfree_lifo_backend::push(rvalue, other_end) ignores other_end, so a task that yields on a LIFO policy is pushed to the end its own worker pops next; other ready tasks of that queue never run while it polls",
         "a LIFO policy (local-priority-lifo / abp-priority-lifo) and a task that polls with yield() for something another task of the same queue must do",
         "first run of ./check C01 MISSED it (the scheduler model abstracts the back-ends as bags; only C17's tie looked at the ends). The E1 back-end cases of the C17 tie now also run as a sub-check of C01 (the bag assumption is checked on the real adapters)"),
 'C02': ("no lost wake-up: thread_data::restore_state builds the expected word of the end-of-phase exchange from the caller's stale snapshot (restart state, tag), so a task woken with restart state `abort` can never store its end-of-phase state; it stays `active` for ever and every later wake-up spins in helper tasks",
         "a task woken by pika::thread::interrupt() that handles thread_interrupted and blocks again (or just ends)",
         "first run of ./check C02 MISSED it (no program woke a task with a restart state other than `signaled`). `zoo` scenario 5 added (interrupt ends a condition-variable wait, the task handles it, blocks on a semaphore, is released) and C02 now runs zoo programs"),
 'C03': ("exactly one completion: when_all_vector's set_error returns early for the second failing child without calling finish(), so predecessors_remaining never reaches zero and the receiver is never completed",
         "when_all_vector with at least two children that fail (or one that fails and one that is stopped)",
         "caught at the first attempt"),
 'C04': ("the wrapped value outlives every access / accesses are granted: a hand-written move constructor of async_rw_mutex copies `state` instead of moving it, so the moved-from mutex keeps the newest shared state alive and the chain's next access is never released while that object lives",
         "a mutex object that is move-constructed after accesses have been requested, with the moved-from object staying alive",
         "first run of ./check C04 MISSED it (no history moved the mutex object). Op `mvmtx` added to the E1 harness (move-construct in the middle of a history, keep the moved-from object alive)"),
 'C05': ("work submitted while suspended runs after resume: create_work rejects work with invalid_status whenever the scheduler is not `running` (|| instead of &&), so every sender-based submission on a suspended runtime throws",
         "any submission through thread_pool_scheduler between pika::suspend() and pika::resume()",
         "caught at the first attempt"),
 'C06': ("mutual exclusion / a waiter is woken: condition_variable::wait_until pushes timed waiters to the FRONT of the wait queue while reset_queue_entry assumes its entry is the LAST one: a timed waiter that gives up unlinks another waiter's entry",
         "timed_mutex::try_lock_for/until giving up while another task waits on the same mutex",
         "caught at the first attempt"),
 'C07': ("no lost notification: a timed waiter whose deadline expires erases the whole tail of the wait queue (erase(last_, end())) instead of its own entry; later waiters can no longer be found by notify_one/notify_all",
         "a timed wait that times out while other waiters have enqueued after it",
         "caught at the first attempt"),
 'C08': ("a blocked acquirer proceeds once enough permits were released: the wake-up loop of release(n) is bounded by the current value, which woken acquirers decrement while the lock is dropped between notifications, so fewer than n waiters are woken",
         "release(n) with n >= 2 and several blocked acquirers, one of which consumes its permit before the loop ends",
         "caught at the first attempt as a broken correspondence only (the real log left the model, no generated history ended with a stuck acquirer: VIOLATION ... no-failing-input-found, seeded/C08e/detect-C08.log); the directed family `k blocked acquirers, then one release(n >= k)` was added and gives the concrete failing input"),
 'C09': ("the barrier is reusable across phases: wait() compares the 8-bit phase with <= instead of ==, so at the wrap 254 -> 0 every waiter of the 128th phase polls for ever",
         "128 phases on one barrier",
         "caught at the first attempt"),
 'C10': ("never inside the call that submitted it: thread_pool_scheduler::execute runs the callable inline when the scheduler carries a worker hint that names the submitting worker",
         "schedule/execute with with_hint(worker) issued by a task that runs on exactly that worker",
         "caught at the first attempt"),
 'C11': ("exactly one error when a call throws: do_work_local (the inline participant) calls do_work(); finish() directly instead of the task entry point, so an exception thrown by f on the thread that completed the predecessor escapes into a noexcept set_value: std::terminate, no completion",
         "a throwing index that is processed by the thread that delivers the predecessor's value",
         "caught at the first attempt"),
 'C12': ("each task runs on a stack of the configured size of its class: reconfigure() no longer refreshes the cached stack sizes, so sizes given in an ini file / init_params::cfg / --pika:ini are ignored",
         "a stack size configured by any means other than the PIKA_*_STACK_SIZE environment variables",
         "caught at the first attempt (also by ./check C16)"),
 'C13': ("interruption takes effect at an interruption point as thread_interrupted: this_thread::suspend tests the abort restart state before the interruption flag, so a task interrupted while blocked in join() gets pika::exception(yield_aborted)",
         "thread::interrupt() on a task suspended in thread::join()",
         "first run of ./check C13 MISSED it (the directed interrupted-join run caught every pika::exception as the interruption). The run now reports a wrong exception type"),
 'C14': ("every registered callback runs exactly once / never after its destructor returned: add_this_callback sets the old head's back-link to the list head instead of the new node, so removing any callback but the newest cuts the newer ones off the list",
         "at least two callbacks registered on one stop state and the older one destroyed first",
         "caught at the first attempt"),
 'C15': ("bound inside the effective process mask: decode_scatter_distribution keeps a stale `use_pu` from the previous core, so an exhausted core is treated as found and a worker is bound to its last PU without a mask check",
         "--pika:bind=scatter with more workers than cores in the mask and a process mask that excludes a whole core",
         "caught at the first attempt"),
 'C16': ("the value the runtime uses is the resolved one: only reconfigure(ini_file) refreshes the cached stack sizes, so stack sizes given with --pika:ini reach the configuration object but not the running runtime",
         "pika.stacks.*_size given with --pika:ini on the command line",
         "caught at the first attempt"),
 'C17': ("drained exactly once / a pop on a non-empty quiescent container succeeds: ConcurrentQueue::ImplicitProducer::dequeue_bulk gives back 1 instead of desiredCount when it lost the race, so the last elements of that producer become invisible to every pop",
         "consumers that use try_dequeue_bulk (an overload pika's own back-ends never call) competing for a nearly empty queue",
         "first run of ./check C17 MISSED it: nothing in the tie used the batch overload. Judged at first as outside the property (unused third-party API), then covered anyway because the header is an anchor of the property: `bulk` mode of the churn tier (values-only verdict)"),
 'C18': ("copies are independent / wrapper transparent: copy-assigning an EMPTY any_sender no longer releases the target's content, the target stays non-empty and keeps its old sender",
         "copy assignment from an empty any_sender to a non-empty one",
         "caught at the first attempt"),
 'C19': ("the calls return: suspend_internal re-uses `expected` across iterations of its flagging loop, so after a worker that already sleeps the next sleeping worker's state is overwritten with pre_sleep; suspend_processing_unit_internal then waits for ever for a worker whose OS thread is already asleep (suspend_direct never returns; a later resume leaves the worker missing)",
         "pool-level suspend while some PUs of the pool are already suspended individually",
         "first run of ./check C19 MISSED it (no history suspended the pool with PUs asleep; then the hang gave no verdict because a blocked worker never advances its CPU clock). Program `pupool` and the /proc-based hang probe added"),
 'C20': ("only after MPI reports the request complete: add_new_task_request_callback releases the operation's stored arguments (op_state.ts = {}) at registration, before the request has completed",
         "handler method new_task (modes 16-23), an argument owned by the sender chain (passed by value) and a request that is not complete at the eager poll",
         "first run of ./check C20 MISSED it (all buffers were passed as pointers; the release of the stored arguments was not an event of the model). Model event `rel` + theorems C20_arguments_held_until_complete / C20_complete_only_by_mpi_report added, harness passes move-only buffers by value"),
}
for p, (breaks, needs, how) in T.items():
    d = os.path.join(HERE, 'seeded', p + 'e')
    msg = ''
    logs = []
    for f in sorted(os.listdir(d)):
        if f.startswith('detect-') or f == 'regress.log' or f.startswith('labdetect-'):
            logs.append(f)
    for f in ['regress.log', f'detect-{p}.log']:
        fp = os.path.join(d, f)
        if os.path.exists(fp):
            t = open(fp).read()
            m = re.search(r'first replay what: (.*)', t)
            ex = re.search(r'exit=(\d+)', t)
            if m and ex and ex.group(1) == '1':
                msg = m.group(1).split(' | ')[0][:260]
                break
    nf = ''
    meta = {
        'property': p,
        'source': SRC.format(p=p),
        'breaks': breaks,
        'needs': needs,
        'detected_by': how + (f"; ./check {p} -> '{msg}' -> VIOLATION{nf}" if msg else f"; ./check {p} -> VIOLATION{nf}"),
        'confirmed': 'tools/confirm_all.sh (seeded/%se/confirm.log)' % p if os.path.exists(os.path.join(d, 'confirm.log')) else 'by hand (MPI build), see notes',
        'log': ', '.join(logs),
    }
    json.dump(meta, open(os.path.join(d, 'meta.json'), 'w'), indent=1)
print('written', len(T))
