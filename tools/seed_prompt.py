#!/usr/bin/env python3
"""Print the prompt given to an independent sub-agent asked to seed a property-breaking change."""
import json,sys
pid=sys.argv[1]; wt=sys.argv[2]; variant=sys.argv[3] if len(sys.argv)>3 else ''
p=[json.loads(l) for l in open('/verif/properties.jsonl') if json.loads(l)['id']==pid][0]
print(f"""You are helping to evaluate a verification effort for the C++ tasking runtime pika (pika-org/pika). Your job: produce ONE realistic source change ("seeded defect") to pika that BREAKS the semantic property below while the code still compiles and the existing test suite still passes, plus a small demonstration program that fails with your change and passes without it.

PROPERTY {p['id']}: {p['title']}
Statement: {p['statement']}
Quantified over: {p['quantifier']['text']}
Code the property is anchored in: {', '.join(p['anchors']['files'])}

Your private scratch git worktree of the repository is at {wt} (already created; work ONLY there, never touch /repo or /verif, and do not read anything under /verif). {variant}

Requirements for the change:
- It must be a plausible mistake or "optimisation" a developer could make (a reordered pair of statements, a wrong comparison, a dropped notify, an off-by-one, a missing re-check under a lock, a wrong memory of which queue end, two sites that each look fine alone ...), small (a few lines), in library code under libs/pika (not in tests/examples), and must NOT touch any line containing PIKA_VERIF_ (those are instrumentation macros that expand to nothing; leave them exactly where they are).
- It must need something SPECIFIC to manifest: a particular interleaving, a multi-step sequence of operations, an unusual input, a particular timing of a deadline, more participants than workers, etc. NOT something that any ordinary use exposes at once (the existing tests and a trivial smoke test must still pass).
- The library must still build. The existing test suite in this sandbox is compile-only (header self-containment tests and a few build tests), so "passes the tests" means: everything still compiles. Verify by building libpika (recipe below).

Demonstration: a small C++ program (demo.cpp) that uses the public pika API, exits 0 on the unmodified code and exits non-zero (or hangs -> guard with a watchdog that exits 1 after a timeout) on the modified code. If the failure needs a rare interleaving, you may make the demo loop many times, use many threads, or insert sleeps/yields in the demo itself to provoke it; it should fail reliably (most runs) with the change. Run it several times on both versions to confirm.

Build recipe (offline sandbox, 16 cores; do NOT use /repo/_build):
  cmake -G Ninja -S {wt} -B {wt}/build -DCMAKE_BUILD_TYPE=RelWithDebInfo -Dfmt_DIR=/usr/lib/x86_64-linux-gnu/cmake/fmt -DPIKA_WITH_TESTS=OFF -DPIKA_WITH_EXAMPLES=OFF -DPIKA_WITH_MALLOC=system -DPIKA_WITH_UNITY_BUILD=ON "-DCMAKE_CXX_FLAGS=-Wno-error -g0"
  ninja -C {wt}/build -j8        # about 1 minute; produces {wt}/build/lib/libpika.so
Compile a program against it:
  INC=$(for d in {wt}/libs/pika/*/include {wt}/build/libs/pika/*/include; do printf -- "-I%s " $d; done)
  g++ -std=c++20 -O1 -DFMT_SHARED -DSPDLOG_COMPILED_LIB -DSPDLOG_FMT_EXTERNAL -DSPDLOG_SHARED_LIB -D_GNU_SOURCE -DNDEBUG $INC -I{wt}/build demo.cpp -L{wt}/build/lib -lpika -lfmt -lspdlog -lhwloc -pthread -Wl,-rpath,{wt}/build/lib -o demo
Do NOT put /root/miniconda/include on the include path. Typical program skeleton: #include <pika/init.hpp>, <pika/execution.hpp>, <pika/thread.hpp>, <pika/mutex.hpp>, <pika/semaphore.hpp>, <pika/latch.hpp>, <pika/barrier.hpp>, <pika/condition_variable.hpp>, <pika/stop_token.hpp> ...; pika::start(argc, argv) (or pika::init(pika_main, argc, argv)); run work with pika::this_thread::experimental::sync_wait(pika::execution::experimental::schedule(pika::execution::experimental::thread_pool_scheduler{{}}) | pika::execution::experimental::then(...)); pika::finalize(); pika::stop(). pika::this_thread::sleep_for is NOT supported in this tree (throws) - use pika::this_thread::yield() loops or std::this_thread::sleep_for on OS threads. Pass --pika:threads=N on the command line to choose the worker count. To measure the unmodified behaviour, save your change with `git diff > /tmp/<your-worktree-name>.diff`, revert it with `git apply -R`, rebuild (incremental, fast), and re-apply it afterwards. Do NOT use `git stash`: the stash is shared between all worktrees of the repository and other engineers work in sibling worktrees.

Deliverables, written into {wt}/seed_out/ :
  patch.diff   - `git diff` of your change against the worktree's HEAD (library change only)
  demo.cpp     - the demonstration
  notes.md     - which clause of the property breaks, what exactly is needed for it to manifest (interleaving / sequence / input), the commands you ran and what you observed with and without the change (exit codes, counts over N runs)
When done, leave the worktree with your change APPLIED and built. Reply with a short summary (what you changed, what is needed to manifest, how the demo behaves on both versions).""")
