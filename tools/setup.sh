#!/bin/bash
# Build the framework from files on disk only (offline).
set -e
HERE=$(cd "$(dirname "$0")/.." && pwd)
for t in "$HERE"/tools/translate/*.py; do python3 "$t" >/dev/null || { echo "translator $t failed"; exit 1; }; done
cd "$HERE/lean" && lake build 2>&1 | tail -3
"$HERE/tools/build_pika.sh" hooks
"$HERE/tools/build_pika.sh" mpi
echo setup ok
