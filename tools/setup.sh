#!/bin/bash
# Build the framework from files on disk only (offline).
set -e
HERE=$(cd "$(dirname "$0")/.." && pwd)
cd "$HERE/lean" && lake build 2>&1 | tail -3
"$HERE/tools/build_pika.sh" hooks
echo setup ok
