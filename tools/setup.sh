#!/bin/bash
# Build the framework from files on disk only (offline).
# Order matters in a fresh checkout: the settings translator reads a header that the pika build generates
# (pika/config/defines.hpp), so pika (hooks variant) is built first, then the translators, then the Lean library.
set -e
HERE=$(cd "$(dirname "$0")/.." && pwd)
"$HERE/tools/build_pika.sh" hooks
for t in "$HERE"/tools/translate/*.py; do
  case "$t" in */cxx_expr.py) continue;; esac       # library module, not a translator
  python3 "$t" >/dev/null || { echo "translator $t failed"; exit 1; }
done
cd "$HERE/lean" && lake build 2>&1 | tail -3
"$HERE/tools/build_pika.sh" mpi
echo setup ok
