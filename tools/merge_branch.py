#!/usr/bin/env python3
"""Merge a builder branch into main, resolving the registry files by union (imports / dispatch lines).
Shared tool files (tools/*.py, harness/baton.hpp ...) keep OUR version; their diff is saved for review."""
import subprocess, sys, re, os
br = sys.argv[1]
def sh(c): return subprocess.run(c, shell=True, capture_output=True, text=True)
def show(ref, path):
    r = sh(f'git show {ref}:{path}')
    return r.stdout if r.returncode == 0 else ''
r = sh(f'git merge --no-commit --no-ff {br}')
print(r.stdout[-1500:], r.stderr[-500:])
conf = sh('git diff --name-only --diff-filter=U').stdout.split()
base = sh(f'git merge-base HEAD {br}').stdout.strip()
for f in conf:
    ours, theirs = show('HEAD', f), show(br, f)
    if f in ('lean/PikaVerif.lean', 'lean/Driver.lean'):
        lines = []
        for l in ours.split('\n') + theirs.split('\n'):
            if l.strip() and l not in lines:
                lines.append(l)
        open(f, 'w').write('\n'.join(lines) + '\n')
    elif f == 'lean/Driver/Main.lean':
        imps, disp = [], []
        for src in (ours, theirs):
            for l in src.split('\n'):
                if l.startswith('import ') and l not in imps: imps.append(l)
                if re.match(r'\s*\| "', l) and l not in disp: disp.append(l)
        out = ours
        # rebuild from ours: replace import block and dispatch block
        out_lines = [l for l in ours.split('\n') if not l.startswith('import ') and not re.match(r'\s*\| "', l)]
        res = []
        for l in out_lines:
            if l.startswith('/-!') and imps:
                res = imps + res if not res else res
            res.append(l)
            if l.strip().startswith('match model with'):
                res += disp
        if not any(x.startswith('import ') for x in res):
            res = imps + res
        open(f, 'w').write('\n'.join(res))
    elif f == '.gitignore':
        open(f, 'w').write(ours)
    else:
        # shared machinery: keep ours, save their version for review
        os.makedirs('build/merge-review', exist_ok=True)
        open(f'build/merge-review/{br}__{f.replace("/", "_")}', 'w').write(theirs)
        d = sh(f'git diff {base} {br} -- {f}').stdout
        open(f'build/merge-review/{br}__{f.replace("/", "_")}.diff', 'w').write(d)
        open(f, 'w').write(ours)
        print('KEPT OURS for', f, '(their diff saved under build/merge-review)')
    sh(f'git add {f}')
print('conflicts resolved:', conf)
