#!/usr/bin/env python3
"""Write seeded/<id>f/meta.json for the sixth seed round (16 properties) from the table below + the detection logs written by
tools/try_seed.sh on /repo (detect-<check>.log; the first attempt's log of a missed seed is kept as detect-<check>-first.log
where it was saved)."""
import json, os, re
HERE = os.path.dirname(os.path.dirname(os.path.abspath(__file__)))
SRC = "independent sub-agent (seed6-{p}) given only the property text, the locations of the five earlier changes to avoid, and a scratch worktree"
T = {
 'C01': ("body entered once and run to completion while task objects are recycled: rebind_base no longer clears requested_interrupt_, so a new unrelated task that receives a recycled thread object inherits a stale interruption request and is killed at its first suspension point (std::terminate inside the noexcept yield)",
         "interrupt() on a pika::thread whose function has already finished, then unrelated tasks of the same stack class that yield",
         "first run of ./check C01 MISSED it (no program interrupted a finished thread; C12/C13 see the same line through their own programs). A zoo variant (interrupt() on a terminated, still joinable thread before join) caught it once on /repo, but the final regression of the corpus showed that detection to depend on chance (the victim's object has to come back from the recycling heap) and, on the seeded tree, a run could end in pika's abort handling without a verdict for half an hour. Directed program `stale` added (several finished threads interrupted, then batches of yielding threads until the objects come round) together with a std::terminate handler in the harness"),
 'C02': ("a woken task runs again, for every blocking facility: detail::condition_variable::notify_one reports `no more waiters` while one is still queued (size() > 1), so the wake-up loops of latch::count_down and counting_semaphore::release(n) stop one waiter early",
         "at least two tasks blocked on the same latch / semaphore when the releasing call is made",
         "first run of ./check C02 MISSED it (every facility in the C02 programs had one waiter). zoo scenario 6 added: k tasks blocked on one latch, then on one semaphore, each released by ONE call"),
 'C03': ("nothing is touched after the operation state may be destroyed: schedule_from's set_value_scheduler_sender forwards the values first and resets scheduler_op_state afterwards - on an operation state that start_detached has already freed inside the completion signal",
         "continues_on / transfer_just on the value path with a consumer that frees the operation state inside the completion (start_detached) and memory that does not survive the free (guard pages / ASan)",
         "caught at the first attempt (guarded self-deleting operation state of the E1 / ASan tiers)"),
 'C04': ("every started access is eventually granted: done() detaches the waiter queue with exchange(nullptr), runs the continuations inline and stores the `processed` sentinel afterwards; an access that enqueues meanwhile is overwritten and never granted",
         "a read access added by another thread while the releasing thread runs the queued readers' continuations inline",
         "caught at the first attempt"),
 'C05': ("wait() returns only after everything submitted has finished, for all thread counts: thread_manager::wait() spins without handing its worker back (yield_while with allow_timed_suspension = false), so wait() from a pika task with no other free worker never returns",
         "pika::wait() called from a task while no other worker is free (e.g. --pika:threads=1)",
         "caught at the first attempt"),
 'C06': ("at most one owner: mutex::lock waits with `if` instead of `while`, so a woken waiter takes ownership without re-checking the owner",
         "a third party (or the former owner) locks again between the unlock that wakes the waiter and the waiter's run",
         "caught at the first attempt"),
 'C07': ("timed predicate forms return the value of the predicate: wait_until(lock, abs_time, pred) returns false on a timeout instead of pred()",
         "the predicate becomes true after the deadline expired but before the waiter has re-acquired the lock",
         "caught at the first attempt"),
 'C10': ("the continuation after continues_on(s) runs on s / never on a worker of another pool: schedule_from_sender::get_env forwards the predecessor's environment, so a bulk that follows continues_on(B) is customised for the predecessor's scheduler A and runs (with its continuation) on pool A",
         "pools created through the resource partitioner and `schedule(A) | ... | continues_on(B) | bulk(n, f)`",
         "first run of ./check C10 MISSED it (no pipeline put a scheduler-customised algorithm directly after continues_on). Pipeline kind 6 added to harness/e2/place.cpp"),
 'C11': ("f called exactly once per index: contiguous_index_queue::pop_left checks for an empty range only before its CAS loop, so the owner that loses the race for the last chunk to a thief returns that chunk as well",
         "owner and thief racing for the last chunk of a queue",
         "caught at the first attempt"),
 'C12': ("identity survives migration: coroutine_self::reset_self_on_exit caches the thread-local `self` slot of the worker the task was suspended on and restores through it, so a task resumed by another worker has no identity there (and overwrites the old worker's)",
         "a task that yields, is stolen by another worker and then uses get_id / thread data / a mutex",
         "caught at the first attempt"),
 'C13': ("join returns only after the thread function has returned / interruption is local: join() no longer tests for a pending interruption before it registers its exit callback, so a join entered with a pending request leaves its callback on the target when suspend throws; the target's exit later resumes the task inside an unrelated join",
         "a thread interrupted before it runs whose first blocking call is a join, which handles thread_interrupted and then joins another thread",
         "first run of ./check C13 caught it only as a broken correspondence (VIOLATION ... no-failing-input-found; the matching monitor message would have been the listed finding's). Directed program joinpend added (one worker, monitors only, own message)"),
 'C14': ("never after its destructor has returned / the destructor waits for a callback running on another thread: request_stop clears prev_ (the `dequeued` mark) only after the callback ran, so ~stop_callback on another thread sees a registered entry, unlinks it and returns while the callback is still running",
         "a stop_callback destroyed by another thread while its callback is being executed by request_stop",
         "caught at the first attempt"),
 'C17': ("exactly once / FIFO for the FIFO queue: ConcurrentQueue::Block::reset_empty uses < where its siblings use <= for the default block size, so a fully drained explicit-producer block keeps its `empty` flags and is overwritten while it still holds elements",
         "the producer-token API (not used by pika's back-ends) with a block that was drained once and re-used under a backlog",
         "first run of ./check C17 MISSED it (nothing used producer tokens). `token` mode added to the values-only churn tier"),
 'C18': ("completes exactly as the original would: any_receiver::set_value lost its try/catch, so a throwing copy / conversion of the sent value into the wrapper's value type escapes a noexcept function (std::terminate) instead of arriving as set_error",
         "a wrapped sender that completes with an l-value or a convertible type whose copy / conversion throws",
         "first run of ./check C18 MISSED it (the harness senders complete with an r-value of exactly the wrapper's value type). Case option conv=1 added: a sender's error completion is realised as a value whose conversion throws"),
 'C19': ("the calls return: the worker side of the suspend hand-shake now also requires `no suspended task in my thread map` before it goes to sleep, so suspend_processing_unit never returns while the PU owns a blocked task",
         "a task blocked on a latch / future that is released only after the suspend call",
         "first run of ./check C19 caught it only through the regenerated control-flow shape (translator elastic.py: proof obligation broken, VIOLATION ... no-failing-input-found). Program `blocked` added, which gives the failing history"),
 'C20': ("exactly once / only after MPI's report: poll_multithreaded compacts requests_ / callbacks_ after it has released polling_vector_mtx_, racing with another poller that holds the lock",
         "two workers polling concurrently with several requests outstanding",
         "caught at the first attempt; the change is a data race between two pollers: with the original run mix (2-4 workers) the regression of the corpus caught it in 2 of 3 attempts, and on an idle machine (the isolated lab) not at all, so six `crowd` runs were added to the quick tier (8 workers polling without a polling pool, 128-512 requests outstanding so that the unlocked compaction takes a while, strong timing perturbation, 3 rounds): caught on /repo at check seeds 1-4 and in the idle lab in 2 of 2 attempts, e.g. 'completion before the transfer: receive N signalled with 6 bytes not yet received'; a race stays a probabilistic detection"),
}
for p, (breaks, needs, how) in T.items():
    d = os.path.join(HERE, 'seeded', p + 'f')
    logs = sorted(f for f in os.listdir(d) if f.startswith('detect-') or f == 'regress.log')
    msg = ''
    fp = os.path.join(d, f'detect-{p}.log')
    if os.path.exists(fp):
        t = open(fp).read()
        m = re.search(r'first replay what: (.*)', t)
        ex = re.findall(r'exit=(\d+)', t)
        if m and ex and ex[-1] == '1':
            msg = m.group(1).split(' | ')[0][:260]
    meta = {
        'property': p,
        'source': SRC.format(p=p),
        'breaks': breaks,
        'needs': needs,
        'detected_by': how + (f"; ./check {p} -> '{msg}' -> VIOLATION" if msg else f"; ./check {p} -> VIOLATION"),
        'confirmed': 'tools/confirm_all.sh (seeded/%sf/confirm.log)' % p if p != 'C20' else 'by hand against the MPI build (seeded/C20f/confirm.log)',
        'log': ', '.join(logs),
    }
    json.dump(meta, open(os.path.join(d, 'meta.json'), 'w'), indent=1)
print('written', len(T))
