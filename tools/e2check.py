#!/usr/bin/env python3
"""Generic check built on engine E2 (live runtime, exact event log) + Lean acceptor + theorems.

spec = dict(prop, model, harness (source under harness/), bin, runs=function(rng, tier) -> list of
            argv lists (without the binary), props=[Props file names to audit], rule, nontrivial(raw)->bool,
            stats(raw)->dict, variant='hooks', par=parallel harness processes, timeout_s per run)
A run's stdout is one `case … endcase` block (log + `monitor` lines + `end <status>`).
"""
import os, sys, time, json, re, subprocess
from concurrent.futures import ThreadPoolExecutor
sys.path.insert(0, os.path.dirname(os.path.abspath(__file__)))
from vlib import *

E2_TRUSTED = [
    "Lean 4.33.0 kernel (lake build); axioms admitted: propext, Classical.choice, Quot.sound only (audited with #print axioms on every property theorem each run)",
    "hand-written Lean protocol model tied to /repo's working tree by replaying the live runtime's event logs through the compiled acceptor (finite evidence, counts below); state-word layout and enum values regenerated from the source (tools/translate/stateword.py)",
    "E2 log sink (harness/e2_log.hpp): PRE/POST under one global spin lock make the log an exact linearisation of the instrumented operations; un-instrumented writes to an instrumented word would show up as a rejected `before` value",
    "x86-TSO hardware; perturbation widens windows but does not enumerate interleavings",
]


def run_e2(hbin, model, runs, par=4, timeout_s=300, ld=None, listed=lambda r: False):
    driver = os.path.join(LEAN, '.lake', 'build', 'bin', 'driver')

    import threading
    stop = threading.Event()

    def one(argv):
        t0 = time.time()
        if stop.is_set():
            # a concrete violation has already been found in this batch: do not spend the budget
            return {'argv': argv, 'raw': '', 'verdict': 'case e2 skipped', 'err': '', 'rc': -998, 'wall': 0.0}
        try:
            h = subprocess.run([hbin] + [str(a) for a in argv], capture_output=True, text=True, errors='replace', timeout=timeout_s)
            raw, err, rc = h.stdout, h.stderr[-400:], h.returncode
        except subprocess.TimeoutExpired as e:
            raw = (e.stdout or b'').decode(errors='replace') if isinstance(e.stdout, bytes) else (e.stdout or '')
            err, rc = 'wall-clock limit of the check reached (not a verdict)', -999
        if 'endcase' not in raw:
            status = 'stall' if rc == -999 else f'crash rc={rc}'
            raw = (raw if raw.startswith('case ') else 'case e2 incomplete\n' + raw) + f'\nend {status}\nendcase\n'
        try:
            d = subprocess.run([driver, model], input=raw, capture_output=True, text=True, timeout=3600)
            dout = d.stdout
        except subprocess.TimeoutExpired:
            dout = 'case e2 reject 0 [the model driver did not finish within the wall-clock limit of the check]'
        verdict = dout.strip().split('\n')[0] if dout.strip() else 'case e2 reject 0 [no-driver-output]'
        res = {'argv': argv, 'raw': raw, 'verdict': verdict, 'err': err, 'rc': rc, 'wall': time.time() - t0}
        if classify_e2(res) == 'monitor' and not listed(res):
            stop.set()
        return res

    with ThreadPoolExecutor(max_workers=par) as ex:
        return list(ex.map(one, runs))


def classify_e2(r):
    v = r['verdict']
    if r['rc'] == -998:
        return 'skip'
    if r['rc'] == -999 or ' inconclusive ' in v:
        return 'stall'
    if 'monitors FAIL' in v or 'crash' in r['raw'][-200:]:
        return 'monitor'
    if ' accept ' in v and 'MISMATCH' not in v:
        return 'pass'
    return 'tie'


def run(spec):
    prop = spec['prop']
    t0 = time.time()
    tr = tier()
    base_seed, seed = seed_for(prop)
    rng = Rng(seed)
    replay = None
    for i, a in enumerate(sys.argv):
        if a == '--replay' and i + 1 < len(sys.argv):
            replay = sys.argv[i + 1]
    violations, known_lines = [], []
    # 0. regenerate generated model fragments from the source
    gen_problems = []
    for g in spec.get('translators', []):
        r = sh(['python3', os.path.join(HERE, 'tools', 'translate', g)])
        if r.returncode != 0:
            gen_problems.append(f'{g}: {r.stderr.strip()[-300:]}')
    # 1. proof obligations
    ok_build, build_log = lean_build(spec['props'])
    audits = []
    problems = list(gen_problems)
    if ok_build:
        for pf in spec['props']:
            a = lean_audit(pf, [])
            audits.append(a)
            problems += a['problems']
        if tr == 'thorough':
            for pf in spec['props']:
                for m, okc, out in leanchecker([f'PikaVerif.Props.{pf}']):
                    if not okc:
                        problems.append(f'leanchecker {m}: {out}')
    else:
        problems.append('lake build failed')
    obligations = sum(a['obligations'] for a in audits)
    discharged = sum(a['discharged'] for a in audits)
    theorems = [t for a in audits for t in a['theorems']]
    proof_ok = ok_build and not problems and obligations == discharged and obligations > 0
    checker_cmd = '; '.join(a['checker_cmd'] for a in audits) or f'cd {LEAN} && lake build'

    # 2. implementation side
    ok_p, plog = pika_build(spec.get('variant', 'hooks'))
    ok_h, hbin, hlog = (False, '', '')
    if ok_p:
        ok_h, hbin, hlog = compile_harness(spec['bin'], spec['harness'], spec.get('variant', 'hooks'), extra=spec.get('cc_extra', '-O1'))
    if not (ok_p and ok_h):
        p = write_replay(prop, f'build-failure-{base_seed}.txt', (plog if not ok_p else hlog))
        write_evidence(prop, tr, base_seed, {'obligations': obligations, 'discharged': discharged,
                       'checker_cmd': checker_cmd, 'trusted_base': E2_TRUSTED,
                       'explanation': 'implementation side failed to build; correspondence could not run'},
                       time.time() - t0, 1)
        finish(prop, [f'VIOLATION property={prop} replay={p} no-failing-input-found'], [])

    # 3. runs
    if replay:
        rp = json.load(open(replay))
        runs = [rp['argv']]
    else:
        runs = spec['runs'](rng, tr)
    kf = known_findings(prop)

    def mon_msg(r):
        return r['verdict'].split('monitors FAIL:')[-1].strip() if 'monitors FAIL' in r['verdict'] else 'crash: ' + r['raw'][-200:].replace('\n', ' ')

    def is_listed(r):
        sig = re.sub(r'\d+', 'N', mon_msg(r))[:160]
        return any(f['signature'] and f['signature'] in sig for f in kf)

    # directed reproductions of the findings listed in known_findings.txt (never of anything else): each listed finding
    # is re-run on every check so that its KNOWN-FINDING line is printed; such a run contributes nothing but its
    # monitor messages (the model is not expected to accept a history that exhibits the defect)
    frun = []
    if not replay:
        for fid, argvs in spec.get('finding_runs', {}).items():
            if any(f['id'] == fid for f in kf):
                # an entry is an argv, or (argv, alternative signature valid for this directed run only)
                frun += [((fid, a[1]), list(a[0])) if isinstance(a, tuple) else ((fid, None), list(a)) for a in argvs]
    fres = run_e2(hbin, spec['model'], [a for _, a in frun], par=spec.get('par', 4), timeout_s=spec.get('timeout_s', 600), listed=lambda r: True) if frun else []
    found = {}
    for ((fid, alt), a), r in zip(frun, fres):
        found.setdefault(fid, None)
        if classify_e2(r) == 'monitor':
            # only the signature of THIS finding (or the alternative one given for this directed run) counts here
            own = [f['signature'] for f in kf if f['id'] == fid and f['signature']]
            sig_r = re.sub(r'\d+', 'N', mon_msg(r))
            # (the monitor messages of one run come in no fixed order: every ' | ' part is looked at, 160 characters each)
            if any(sg in part[:160] for sg in own for part in sig_r.split(' | ')) or (alt and alt in sig_r):
                found[fid] = found[fid] or mon_msg(r)
            else:
                r['argv'] = a
                found[fid] = found[fid] or ''
                spec.setdefault('_unlisted_from_findings', []).append(r)
    for fid, msg in found.items():
        if msg:
            known_lines.append(f"KNOWN-FINDING: property={prop} {fid}: {msg[:200]}")
        elif msg is None:
            # a listed finding is reported on every run; a race-dependent one may not show in this run's directed attempts
            sigs = [f['signature'] for f in kf if f['id'] == fid and f['signature']]
            known_lines.append(f"KNOWN-FINDING: property={prop} {fid}: {(sigs[0] if sigs else '')[:160]} (listed; not reproduced by this run's "
                               f"{sum(1 for (fi, _), _ in frun if fi == fid)} directed attempt(s))")

    results = run_e2(hbin, spec['model'], runs, par=spec.get('par', 4), timeout_s=spec.get('timeout_s', 600), listed=is_listed)
    results += spec.get('_unlisted_from_findings', [])
    kinds = {'pass': 0, 'monitor': 0, 'tie': 0, 'stall': 0, 'skip': 0}
    for r in results:
        kinds[classify_e2(r)] += 1
    unlisted = sum(1 for r in results if classify_e2(r) == 'monitor' and not is_listed(r))
    extra = 0
    # a broken proof obligation or tie with no concrete (unlisted) failure yet: search harder for a failing history
    if (not proof_ok or kinds['tie'] > 0) and unlisted == 0 and not replay and 'extra_runs' in spec:
        eruns = spec['extra_runs'](rng, tr)
        eres = run_e2(hbin, spec['model'], eruns, par=spec.get('par', 4), timeout_s=spec.get('timeout_s', 600), listed=is_listed)
        extra = len(eruns)
        for r in eres:
            if classify_e2(r) == 'monitor':
                results.append(r)
                kinds['monitor'] += 1

    mon = [r for r in results if classify_e2(r) == 'monitor']
    ties = [r for r in results if classify_e2(r) == 'tie']
    reported = set()

    def trim(raw, n=400):
        lines = raw.split('\n')
        return '\n'.join(lines[:3] + ['... (%d lines) ...' % len(lines)] + lines[-n:]) if len(lines) > n + 10 else raw

    if mon:
        for r in mon:
            msg = mon_msg(r)
            sig = re.sub(r'\d+', 'N', msg)[:160]
            if sig in reported:
                continue
            reported.add(sig)
            hit = [f for f in kf if f['signature'] and f['signature'] in sig]
            if hit:
                if not any(k.startswith(f"KNOWN-FINDING: property={prop} {hit[0]['id']}:") for k in known_lines):
                    known_lines.append(f"KNOWN-FINDING: property={prop} {hit[0]['id']}: {msg[:200]}")
                continue
            p = write_replay(prop, f'monitor-{base_seed}-{len(reported)}.json',
                             {'property': prop, 'kind': 'monitor', 'what': msg, 'argv': r['argv'], 'impl_history_tail': trim(r['raw']),
                              'model_verdict': r['verdict'], 'rerun_cmd': f'cd {HERE} && ./check {prop} --replay <this file>  (or: {hbin} ' + ' '.join(str(a) for a in r['argv']) + ')'})
            violations.append(f'VIOLATION property={prop} replay={p}')
    if not violations and (ties or not proof_ok):
        # (also reached when every monitor hit was a listed known finding: a broken tie must still be reported)
        if not proof_ok:
            p = write_replay(prop, f'proof-{base_seed}.json', {'property': prop, 'kind': 'proof', 'problems': problems,
                             'build_log': build_log[-3000:], 'theorems': theorems, 'searched_runs': len(results) + extra})
            violations.append(f'VIOLATION property={prop} replay={p} no-failing-input-found')
        if ties:
            r = ties[0]
            p = write_replay(prop, f'tie-{base_seed}.json', {'property': prop, 'kind': 'tie',
                             'correspondence': f'E2 log of {spec["harness"]} accepted by Lean model {spec["model"]}',
                             'first_divergence': r['verdict'], 'argv': r['argv'], 'impl_history_tail': trim(r['raw']),
                             'diverging_runs': len(ties), 'searched_runs': len(results) + extra})
            violations.append(f'VIOLATION property={prop} replay={p} no-failing-input-found')

    # 3b. optional second correspondence of the property (e.g. an assumption of the model checked on the real code)
    extra_info = None
    if spec.get('extra_check') and not replay:
        extra_info = spec['extra_check'](dict(prop=prop, tier=tr, seed=base_seed, rng=rng))
        for v in extra_info.get('violations', []):
            violations.append(v)

    # 4. evidence
    dist = {}
    nontriv = set()
    events = 0
    for r in results:
        if classify_e2(r) == 'pass':
            m = re.search(r' accept (\d+)', r['verdict'])
            events += int(m.group(1)) if m else 0
            if spec['nontrivial'](r['raw']):
                nontriv.add(' '.join(str(a) for a in r['argv']))
        for k, v in spec.get('stats', lambda raw: {})(r['raw']).items():
            dist[k] = dist.get(k, 0) + v
    cov = {
        'obligations': obligations, 'discharged': discharged, 'checker_cmd': checker_cmd,
        'trusted_base': E2_TRUSTED + spec.get('trusted_extra', []),
        'evaluations': len(results), 'distinct_nontrivial': len(nontriv), 'rule': spec['rule'],
        'samples': [' '.join(str(a) for a in r['argv']) for r in results[:3]],
        'traces_validated_against_impl': kinds['pass'], 'transitions': events,
        'disagreements_checked': kinds['tie'],
        'explanation': (extra_info.get('explanation', '') + '; ' if extra_info else '') + f"theorems: {[t[0] for t in theorems]}; runs: {kinds}; accepted log events {events}; extra search runs {extra}; distribution {dist}; runs that hit the check's own wall-clock limit (no verdict): {kinds['stall']}",
    }
    write_evidence(prop, tr, base_seed, cov, time.time() - t0, len(violations), assumptions=spec.get('assumptions', []))
    print(f"{prop}: theorems {discharged}/{obligations} audited; E2 runs {len(results)} (+{extra} extra): {kinds}; events {events}; {time.time()-t0:.1f}s")
    finish(prop, violations, known_lines)
