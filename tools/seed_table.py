#!/usr/bin/env python3
"""Regenerate DESIGN.md section 12 (seeded changes and which check catches them) from seeded/*/meta.json."""
import json, os, glob, re
HERE = os.path.dirname(os.path.dirname(os.path.abspath(__file__)))
rows = []
for m in sorted(glob.glob(os.path.join(HERE, 'seeded', '*', 'meta.json'))):
    d = json.load(open(m))
    sid = os.path.basename(os.path.dirname(m))
    def cell(x):
        return str(x).replace('|', '/').replace('\n', ' ')
    rows.append(f"| `seeded/{sid}` | {d['property']} | {cell(d['breaks'])} | {cell(d['needs'])} | {cell(d['detected_by'])} |")
body = """## 12. Seeded changes and which check catches them

Each change was written by an independent sub-agent that was given only the text of one property and a
scratch worktree of `/repo` (nothing from `/verif`; rounds 2 to 6 were also told which functions earlier
rounds had changed, so that they pick a different mechanism), confirmed by me (`tools/confirm_seed.sh` /
`tools/confirm_all.sh`: the demonstration passes 3/3 on the unmodified tree and fails with the change, the
library builds; MPI seeds against the MPI build), and then applied to `/repo` (`tools/try_seed.sh <seed> <check>`:
`git apply`, run the check, `git reset --hard`). Round 1 (`seeded/<id>`) was made against the un-hooked tree, so
some changes needed a mechanical port onto the hooked sources (`patch-ported.diff`); rounds 2 (`seeded/<id>b`)
and 3 (`seeded/<id>c`) were made against the then-current `/repo` HEAD.
A seed counts as caught only if the check exits 1 with a `VIOLATION` line for the right property.

What the three rounds showed. Round 1: 19 of 20 caught at the first attempt (C19 was first missed because a listed
known finding masked the broken proof obligation - a defect of `e2check`, fixed). Round 2: 12 of 20 at the first
attempt; the misses were all *harness coverage* gaps, none was a gap of a theorem: a usage pattern the generators did
not produce (more than 1000 blocked tasks per queue, the `error_code` overloads, a positional argument with '=',
a busy-wait barrier, an `f(int, char**)` entry point, pika tasks sharing an OS thread, stop-token waits), a container
of the property that only another check exercised (index queue), or a window that needed a directed schedule
(exception flag vs. join counter, select_active_pu vs. sleep). Round 3: 12 of 20 at the first attempt, again usage
patterns (low-priority tasks without stealing, timed waits, expired deadlines, closure-owned state, a producer
backlog above 1024, statically typed pipelines) plus one check that *hung* on the seeded tree (C15 live tier,
fixed with a CPU-time limit on the starting thread). Every miss was turned into a permanent extension of the
generators / harnesses / hooks (and, where a clause was not yet a theorem, of the model: C07 stop-token waits, C14
thread identity, C11 decision after the last decrement, C03 ownership); the entry of each seed below says what was
added. Building those extensions found four more genuine defects of the unmodified tree (split_tuple use after
free, two command-line quoting defects, the interrupted-join stale callback). One seed (C03b) became benign through
the repair of the genuine split_tuple defect it had exploited. Round 4 (`seeded/<id>d`): 12 of 20 at the first attempt; misses again usage patterns (bursts above the batch size of the
staged-task conversion on the shared-priority scheduler, stop() on a suspended runtime, plain OS-thread waiters - pika's
`default_agent` had been executed by no check -, `set_max_difference`, `thread_stacksize::current`, producer-thread churn on the
third-party queue, `reset(lvalue)`, a yielding task on a PU being suspended). The extensions found three more genuine defects
(lost wake-up in `stop_locked`, deadlock of notified timed waits on OS threads, `finalize()` on a suspended runtime throws -
observation). After these extensions every seed of the four rounds is caught (C03c needed statically typed pipelines in
the E0 tie: follow-up C03s).
Round 5 (`seeded/<id>e`): 13 of 20 at the first attempt (C08e only as a broken correspondence; a directed case family now
gives the failing input). The seven misses: C01e (a back-end adapter picking the wrong end - the scheduler model abstracts the
back-ends as bags; the bag assumption is now checked on the real adapters inside `./check C01`), C02e (wake-up with restart
state `abort`: no program interrupted a blocked task that carries on afterwards), C04e (moving the mutex object), C13e (the
directed run accepted any `pika::exception` as the interruption), C17e (a batch overload of the third-party queue that pika
never calls - covered by a values-only tier because the header is an anchor of the property), C19e (pool suspend with PUs
already asleep, and a hang that gave no verdict because a blocked worker's CPU clock never advances), C20e (arguments owned by
the adaptor: the release of the stored arguments was not an event of the model - now `Ev.rel` with three new theorems). After
the extensions `tools/regress_seeds.sh` re-ran all twenty round-5 seeds against the final machinery in an isolated copy
(`seeded/<id>e/regress.log`): twenty VIOLATION exits, each with a concrete failing input; the same script re-runs the older
seeds as far as the time allows (`build/regress-summary.txt` is not committed, the per-seed `regress.log` files are).
Round 6 (`seeded/<id>f`, sixteen properties): 10 of 16 at the first attempt, two more only as a broken correspondence /
proof obligation (C13f: the matching monitor text would have been a listed finding's; C19f: the translator `elastic.py` saw
the changed shape of the scheduling loop's exit condition) and four misses: C01f (`interrupt()` on a finished thread whose
object is recycled - the same line C12/C13 already watch, now also in C01's `zoo`), C02f (a facility with *several* waiters
released by one call), C10f (a scheduler-customised algorithm directly after `continues_on` on another pool), C17f
(producer-token sub-queues of the third-party queue), C18f (a value completion whose conversion into the wrapper's value type
throws). Each got a permanent extension (entries below); all sixteen are caught with a concrete failing input now.
Regression of the whole corpus: `tools/regress_seeds.sh` re-ran all 100 seeds of rounds 1-5 against the machinery of the last
day in an isolated copy. 96 were reported again; C03b stays benign (the genuine `split_tuple` repair removed what it
exploited); C13c turned out to be caught only by chance (1 of 3 check seeds: the right thread object had to be recycled in a
random program) and got the directed program `staleintr`; C20b passed once in the loaded lab and is caught on `/repo`
(`detect-C20.log`); five round-1 patches needed a 3-way apply that the first version of the script lacked and were re-run
(`regress.log` in each seed directory). A last regression of the round-6 seeds against the final machinery (after eight more follow-ups had been merged)
found two detections that depended on chance - C01f (object recycling; also a run that ended in pika's abort handling with no
verdict for half an hour: the scheduler harness has a `std::terminate` handler now and a directed program `stale`) and C20f
(a data race between two pollers, 2 of 3 attempts: six `crowd` runs added) - and one patch (C03e) that no longer applied to
the file that had received hook lines in the meantime (`patch-ported.diff`).

Generated by `tools/seed_table.py` from `seeded/*/meta.json`.

| seed | property | what it breaks | needs | caught by |
|---|---|---|---|---|
""" + '\n'.join(rows) + "\n\n"
p = os.path.join(HERE, 'DESIGN.md')
s = open(p).read()
a = s.find('## 12. Seeded changes')
b = s.find('## Appendix A')
if a < 0:
    a = b
s = s[:a] + body + s[b:]
open(p, 'w').write(s)
print(len(rows), 'rows')
