#!/usr/bin/env python3
"""Regenerate MANIFEST.json from tools/checks.json (claimed checks) + properties.jsonl."""
import json, os
HERE=os.path.dirname(os.path.dirname(os.path.abspath(__file__)))
props=[json.loads(l) for l in open(os.path.join(HERE,'properties.jsonl'))]
checks=json.load(open(os.path.join(HERE,'tools','checks.json')))
claimed={c['property_id'] for c in checks['checks']}
na=[]
for p in props:
    if p['id'] not in claimed:
        reason=checks.get('not_applicable_reasons',{}).get(p['id'],
            'not claimed yet: the Lean model, its theorems and the tie to the code for this property are not complete in this revision (see DESIGN.md section 4); no technique switch is intended')
        na.append({'property_id':p['id'],'reason':reason})
m={
 'version':1,
 'setup_cmd':checks['setup_cmd'],
 'hooks':checks['hooks'],
 'engines':checks['engines'],
 'checks':checks['checks'],
 'notes':checks['notes'],
 'not_applicable':na,
}
json.dump(m,open(os.path.join(HERE,'MANIFEST.json'),'w'),indent=1)
print('claimed',sorted(claimed),'na',len(na))
