#!/usr/bin/env python3
"""Insert hook lines next to anchors (add-only edits). Used while developing hook commits."""
import sys
def ins(path, anchor, new, after=True, occ=1):
    s=open(path).read()
    idx=-1
    for _ in range(occ):
        idx=s.find(anchor, idx+1)
        if idx<0: sys.exit(f"anchor not found: {path}: {anchor!r}")
    if after:
        e=idx+len(anchor)
        if not anchor.endswith('\n'): e=s.find('\n', e)+1
        s=s[:e]+new+s[e:]
    else:
        b=s.rfind('\n',0,idx)+1
        s=s[:b]+new+s[b:]
    open(path,'w').write(s)
