#!/usr/bin/env python3
"""Generic check built on engine E1 (controlled schedules) + Lean acceptor + Lean theorems.

spec = dict(
  prop='C08', model='sem', harness='e1/sem.cpp', bin='e1_sem',
  gen=function(rng, i) -> case text (must start with 'case <id> ...' and end with 'endcase'),
  nontrivial=function(result dict) -> bool,
  quick=int, thorough=int, extra=int (cases for the extra search after a broken obligation/tie),
  design_ref, rule text, corr_name)
"""
import os, sys, time, json, re, glob
sys.path.insert(0, os.path.dirname(os.path.abspath(__file__)))
from vlib import *


def run(spec):
    prop = spec['prop']
    t0 = time.time()
    tr = tier()
    base_seed, seed = seed_for(prop)
    rng = Rng(seed)
    replay = None
    for i, a in enumerate(sys.argv):
        if a == '--replay' and i + 1 < len(sys.argv):
            replay = sys.argv[i + 1]
    violations, known_lines = [], []
    notes = []

    # 1. proof obligations -------------------------------------------------------------
    for g in spec.get('translators', []):
        sh(['python3', os.path.join(HERE, 'tools', 'translate', g)])
    ok_build, build_log = lean_build(spec.get('props', prop))
    audit = {'obligations': 0, 'discharged': 0, 'problems': ['lake build failed'], 'theorems': [],
             'checker_cmd': f'cd {LEAN} && lake build'}
    if ok_build:
        pfs = spec.get('props', prop)
        pfs = [pfs] if isinstance(pfs, str) else list(pfs)
        audits = [lean_audit(pf, []) for pf in pfs]
        audit = {'obligations': sum(a['obligations'] for a in audits), 'discharged': sum(a['discharged'] for a in audits),
                 'problems': [x for a in audits for x in a['problems']], 'theorems': [t for a in audits for t in a['theorems']],
                 'checker_cmd': '; '.join(a['checker_cmd'] for a in audits)}
        if tr == 'thorough':
            for m, okc, out in leanchecker([f'PikaVerif.Props.{pf}' for pf in pfs]):
                if not okc:
                    audit['problems'].append(f'leanchecker {m}: {out}')
    # property-specific extra obligations (e.g. a source scan); each problem breaks the proof side
    for prob in spec.get('extra_obligations', lambda: [])():
        audit['problems'].append(prob)
    proof_ok = ok_build and not audit['problems'] and audit['obligations'] == audit['discharged'] and audit['obligations'] > 0

    # 2. build the implementation side from /repo's working tree ------------------------
    ok_p, plog = pika_build(spec.get('variant', 'hooks'))
    ok_h, hbin, hlog = (False, '', '')
    if ok_p:
        ok_h, hbin, hlog = compile_harness(spec['bin'], spec['harness'], spec.get('variant', 'hooks'), libs=spec.get('libs', ''))
    if not (ok_p and ok_h):
        p = write_replay(prop, f'build-failure-{base_seed}.txt', (plog if not ok_p else hlog))
        write_evidence(prop, tr, base_seed, {'obligations': audit['obligations'], 'discharged': audit['discharged'],
                       'checker_cmd': audit['checker_cmd'], 'trusted_base': TRUSTED_BASE,
                       'explanation': 'implementation side failed to build; correspondence could not run'},
                       time.time() - t0, 1)
        finish(prop, [f'VIOLATION property={prop} replay={p} no-failing-input-found'], [])

    # 3. correspondence + monitors -------------------------------------------------------
    batches = spec.get('batches') or [dict(model=spec['model'], gen=spec['gen'], quick=spec['quick'],
                                            thorough=spec['thorough'], extra=spec.get('extra', spec['thorough']))]
    default_model = batches[0]['model']

    def model_of(case_text):
        m = re.search(r'^case \S+.*\bmodel=(\S+)', case_text.split('\n')[0])
        return m.group(1) if m else default_model

    def run_cases(cs, tag):
        out = [None] * len(cs)
        by = {}
        for i, c in enumerate(cs):
            by.setdefault(model_of(c), []).append(i)
        for mdl, idx in by.items():
            res = run_e1(hbin, mdl, [cs[i] for i in idx], tag=tag + mdl)
            for i, r in zip(idx, res):
                out[i] = r
        return out

    cases = []
    corpus_dir = os.path.join(HERE, 'corpus', prop)
    corpus = sorted(glob.glob(os.path.join(corpus_dir, '*.case')))
    if replay:
        txt = open(replay).read()
        try:
            txt = json.loads(txt).get('case', txt)
        except Exception:
            pass
        m = re.search(r'(case .*?endcase)', txt, flags=re.S)
        cases = [m.group(1) if m else txt]
    else:
        for c in corpus:
            cases.append(open(c).read().strip())
        for bi, b in enumerate(batches):
            n = b['thorough'] if tr == 'thorough' else b['quick']
            for i in range(n):
                cases.append(b['gen'](rng, f's{base_seed}b{bi}n{i}'))
    results = run_cases(cases, prop)
    kinds = {'pass': 0, 'monitor': 0, 'tie': 0}
    bad = []
    for c, r in zip(cases, results):
        k = classify(r)
        kinds[k] += 1
        if k != 'pass':
            bad.append((k, c, r))
    extra_run = 0
    if (not proof_ok or kinds['tie'] > 0) and kinds['monitor'] == 0 and not replay:
        # a proof obligation or the correspondence is broken: search harder for a concrete failure
        ecases = [b['gen'](rng, f'x{base_seed}b{bi}n{i}') for bi, b in enumerate(batches) for i in range(b.get('extra', b['thorough']))]
        eres = run_cases(ecases, prop + 'x')
        extra_run = len(ecases)
        for c, r in zip(ecases, eres):
            k = classify(r)
            if k == 'monitor':
                bad.append((k, c, r))
                kinds['monitor'] += 1

    kf = known_findings(prop)
    # documented findings of the pinned tree that need a directed schedule: replayed on every run;
    # reproduced -> KNOWN-FINDING line (exit status unaffected); a different failure -> violation
    for fd in ([] if replay else spec.get('findings', [])):
        fpath = os.path.join(HERE, fd['case'])
        fr = run_e1(hbin, spec['model'], [open(fpath).read().strip()], tag=prop + 'f')[0]
        if classify(fr) == 'monitor' and fd['signature'] in fr['verdict']:
            known_lines.append(f"KNOWN-FINDING: property={prop} {fd['id']}: reproduced by {fd['case']}: {fr['verdict'].split('monitors FAIL:')[-1].strip()[:160]}")
        elif classify(fr) == 'pass':
            notes.append(f"finding {fd['id']} no longer reproduces")
            print(f"NOTE: property={prop} finding {fd['id']} ({fd['case']}) no longer reproduces on this tree")
        else:
            bad.append((classify(fr), open(fpath).read().strip(), fr))
    mon = [b for b in bad if b[0] == 'monitor']
    ties = [b for b in bad if b[0] == 'tie']
    reported = set()
    if mon:
        # report distinct monitor messages (first replay for each)
        for k, c, r in mon:
            msg = r['verdict'].split('monitors FAIL:')[-1].strip() if 'monitors FAIL' in r['verdict'] else 'crash: ' + r['raw'][-200:].replace('\n', ' ')
            sig = re.sub(r'\d+', 'N', msg)[:160]
            if sig in reported:
                continue
            reported.add(sig)
            hit = [f for f in kf if f['signature'] and f['signature'] in sig]
            if hit:
                known_lines.append(f"KNOWN-FINDING: property={prop} {hit[0]['id']}: {msg[:200]}")
                continue
            p = write_replay(prop, f'monitor-{base_seed}-{len(reported)}.json',
                             {'property': prop, 'kind': 'monitor', 'what': msg, 'case': c, 'impl_history': r['raw'],
                              'model_verdict': r['verdict'],
                              'rerun_cmd': f'cd {HERE} && ./check {prop} --replay <this file>'})
            violations.append(f'VIOLATION property={prop} replay={p}')
    if not violations and (ties or not proof_ok):
        if not proof_ok:
            p = write_replay(prop, f'proof-{base_seed}.json',
                             {'property': prop, 'kind': 'proof', 'problems': audit['problems'], 'build_log': build_log[-3000:],
                              'theorems': audit['theorems'], 'searched_cases': len(cases) + extra_run})
            violations.append(f'VIOLATION property={prop} replay={p} no-failing-input-found')
        if ties:
            k, c, r = ties[0]
            p = write_replay(prop, f'tie-{base_seed}.json',
                             {'property': prop, 'kind': 'tie', 'correspondence': spec.get('corr_name', f'E1 log of {spec["harness"]} accepted by Lean model {model_of(c)}'),
                              'first_divergence': r['verdict'], 'case': c, 'impl_history': r['raw'],
                              'diverging_cases': len(ties), 'searched_cases': len(cases) + extra_run})
            violations.append(f'VIOLATION property={prop} replay={p} no-failing-input-found')

    # 3b. optional second correspondence of the property (e.g. a sequential differential run)
    extra_info = None
    if spec.get('extra_check'):
        extra_info = spec['extra_check'](dict(prop=prop, tier=tr, seed=base_seed, rng=rng, replay=replay))
        for v in extra_info.get('violations', []):
            violations.append(v)

    # 4. evidence -------------------------------------------------------------------------
    nontriv = set()
    dist = {}
    for c, r in zip(cases, results):
        if classify(r) == 'pass' and spec['nontrivial'](c, r):
            nontriv.add(re.sub(r'^case \S+', 'case', c))
        for key, val in spec.get('stats', lambda c, r: {})(c, r).items():
            dist[key] = dist.get(key, 0) + val
    samples = [c for c in cases[len(corpus):len(corpus) + 2]] or cases[:2]
    cov = {
        'obligations': audit['obligations'], 'discharged': audit['discharged'],
        'checker_cmd': audit['checker_cmd'], 'trusted_base': TRUSTED_BASE + spec.get('trusted_extra', []),
        'evaluations': len(cases) + extra_run,
        'distinct_nontrivial': len(nontriv),
        'rule': spec['rule'],
        'samples': samples,
        'traces_validated_against_impl': kinds['pass'],
        'disagreements_checked': kinds['tie'],
        'explanation': f"theorems: {[t[0] for t in audit['theorems']]}; correspondence: {kinds}; corpus cases {len(corpus)}; extra search cases {extra_run}; distribution {dist}",
    }
    if extra_info:
        cov['evaluations'] += extra_info.get('evaluations', 0)
        cov['traces_validated_against_impl'] += extra_info.get('validated', 0)
        cov['disagreements_checked'] += extra_info.get('disagreements', 0)
        cov['explanation'] += '; ' + extra_info.get('explanation', '')
    write_evidence(prop, tr, base_seed, cov, time.time() - t0, len(violations),
                   assumptions=spec.get('assumptions', []))
    print(f"{prop}: theorems {audit['discharged']}/{audit['obligations']} audited; E1 cases {len(cases)} (+{extra_run} extra): {kinds}; nontrivial distinct {len(nontriv)}; {time.time()-t0:.1f}s")
    finish(prop, violations, known_lines)
