#!/usr/bin/env python3
"""Generic check built on engine E1 (controlled schedules) + Lean acceptor + Lean theorems.

spec = dict(
  prop='C08', model='sem', harness='e1/sem.cpp', bin='e1_sem',
  gen=function(rng, i) -> case text (must start with 'case <id> ...' and end with 'endcase'),
  nontrivial=function(result dict) -> bool,
  quick=int, thorough=int, extra=int (cases for the extra search after a broken obligation/tie),
  design_ref, rule text, corr_name)
"""
import os, sys, time, json, re, glob
sys.path.insert(0, os.path.dirname(os.path.abspath(__file__)))
from vlib import *


def run(spec):
    prop = spec['prop']
    t0 = time.time()
    tr = tier()
    base_seed, seed = seed_for(prop)
    rng = Rng(seed)
    replay = None
    for i, a in enumerate(sys.argv):
        if a == '--replay' and i + 1 < len(sys.argv):
            replay = sys.argv[i + 1]
    violations, known_lines = [], []
    notes = []

    # 1. proof obligations -------------------------------------------------------------
    ok_build, build_log = lean_build()
    audit = {'obligations': 0, 'discharged': 0, 'problems': ['lake build failed'], 'theorems': [],
             'checker_cmd': f'cd {LEAN} && lake build'}
    if ok_build:
        audit = lean_audit(prop, [])
        if tr == 'thorough':
            for m, okc, out in leanchecker([f'PikaVerif.Props.{prop}']):
                if not okc:
                    audit['problems'].append(f'leanchecker {m}: {out}')
    proof_ok = ok_build and not audit['problems'] and audit['obligations'] == audit['discharged'] and audit['obligations'] > 0

    # 2. build the implementation side from /repo's working tree ------------------------
    ok_p, plog = pika_build(spec.get('variant', 'hooks'))
    ok_h, hbin, hlog = (False, '', '')
    if ok_p:
        ok_h, hbin, hlog = compile_harness(spec['bin'], spec['harness'], spec.get('variant', 'hooks'))
    if not (ok_p and ok_h):
        p = write_replay(prop, f'build-failure-{base_seed}.txt', (plog if not ok_p else hlog))
        write_evidence(prop, tr, base_seed, {'obligations': audit['obligations'], 'discharged': audit['discharged'],
                       'checker_cmd': audit['checker_cmd'], 'trusted_base': TRUSTED_BASE,
                       'explanation': 'implementation side failed to build; correspondence could not run'},
                       time.time() - t0, 1)
        finish(prop, [f'VIOLATION property={prop} replay={p} no-failing-input-found'], [])

    # 3. correspondence + monitors -------------------------------------------------------
    cases = []
    corpus_dir = os.path.join(HERE, 'corpus', prop)
    corpus = sorted(glob.glob(os.path.join(corpus_dir, '*.case')))
    if replay:
        txt = open(replay).read()
        m = re.search(r'(case .*?endcase)', txt, flags=re.S)
        cases = [m.group(1) if m else txt]
    else:
        for c in corpus:
            cases.append(open(c).read().strip())
        n = spec['thorough'] if tr == 'thorough' else spec['quick']
        for i in range(n):
            cases.append(spec['gen'](rng, f's{base_seed}n{i}'))
    results = run_e1(hbin, spec['model'], cases, tag=prop)
    kinds = {'pass': 0, 'monitor': 0, 'tie': 0}
    bad = []
    for c, r in zip(cases, results):
        k = classify(r)
        kinds[k] += 1
        if k != 'pass':
            bad.append((k, c, r))
    extra_run = 0
    if (not proof_ok or kinds['tie'] > 0) and kinds['monitor'] == 0 and not replay:
        # a proof obligation or the correspondence is broken: search harder for a concrete failure
        ecases = [spec['gen'](rng, f'x{base_seed}n{i}') for i in range(spec.get('extra', spec['thorough']))]
        eres = run_e1(hbin, spec['model'], ecases, tag=prop + 'x')
        extra_run = len(ecases)
        for c, r in zip(ecases, eres):
            k = classify(r)
            if k == 'monitor':
                bad.append((k, c, r))
                kinds['monitor'] += 1

    kf = known_findings(prop)
    mon = [b for b in bad if b[0] == 'monitor']
    ties = [b for b in bad if b[0] == 'tie']
    reported = set()
    if mon:
        # report distinct monitor messages (first replay for each)
        for k, c, r in mon:
            msg = r['verdict'].split('monitors FAIL:')[-1].strip() if 'monitors FAIL' in r['verdict'] else 'crash: ' + r['raw'][-200:].replace('\n', ' ')
            sig = re.sub(r'\d+', 'N', msg)[:160]
            if sig in reported:
                continue
            reported.add(sig)
            hit = [f for f in kf if f['signature'] and f['signature'] in sig]
            if hit:
                known_lines.append(f"KNOWN-FINDING: property={prop} {hit[0]['id']}: {msg[:200]}")
                continue
            p = write_replay(prop, f'monitor-{base_seed}-{len(reported)}.json',
                             {'property': prop, 'kind': 'monitor', 'what': msg, 'case': c, 'impl_history': r['raw'],
                              'model_verdict': r['verdict'],
                              'rerun_cmd': f'cd {HERE} && ./check {prop} --replay <this file>'})
            violations.append(f'VIOLATION property={prop} replay={p}')
    elif ties or not proof_ok:
        if not proof_ok:
            p = write_replay(prop, f'proof-{base_seed}.json',
                             {'property': prop, 'kind': 'proof', 'problems': audit['problems'], 'build_log': build_log[-3000:],
                              'theorems': audit['theorems'], 'searched_cases': len(cases) + extra_run})
            violations.append(f'VIOLATION property={prop} replay={p} no-failing-input-found')
        if ties:
            k, c, r = ties[0]
            p = write_replay(prop, f'tie-{base_seed}.json',
                             {'property': prop, 'kind': 'tie', 'correspondence': spec.get('corr_name', f'E1 log of {spec["harness"]} accepted by Lean model {spec["model"]}'),
                              'first_divergence': r['verdict'], 'case': c, 'impl_history': r['raw'],
                              'diverging_cases': len(ties), 'searched_cases': len(cases) + extra_run})
            violations.append(f'VIOLATION property={prop} replay={p} no-failing-input-found')

    # 3b. optional second correspondence of the property (e.g. a sequential differential run)
    extra_info = None
    if spec.get('extra_check'):
        extra_info = spec['extra_check'](dict(prop=prop, tier=tr, seed=base_seed, rng=rng, replay=replay))
        for v in extra_info.get('violations', []):
            violations.append(v)

    # 4. evidence -------------------------------------------------------------------------
    nontriv = set()
    dist = {}
    for c, r in zip(cases, results):
        if classify(r) == 'pass' and spec['nontrivial'](c, r):
            nontriv.add(re.sub(r'^case \S+', 'case', c))
        for key, val in spec.get('stats', lambda c, r: {})(c, r).items():
            dist[key] = dist.get(key, 0) + val
    samples = [c for c in cases[len(corpus):len(corpus) + 2]] or cases[:2]
    cov = {
        'obligations': audit['obligations'], 'discharged': audit['discharged'],
        'checker_cmd': audit['checker_cmd'], 'trusted_base': TRUSTED_BASE + spec.get('trusted_extra', []),
        'evaluations': len(cases) + extra_run,
        'distinct_nontrivial': len(nontriv),
        'rule': spec['rule'],
        'samples': samples,
        'traces_validated_against_impl': kinds['pass'],
        'disagreements_checked': kinds['tie'],
        'explanation': f"theorems: {[t[0] for t in audit['theorems']]}; correspondence: {kinds}; corpus cases {len(corpus)}; extra search cases {extra_run}; distribution {dist}",
    }
    if extra_info:
        cov['evaluations'] += extra_info.get('evaluations', 0)
        cov['traces_validated_against_impl'] += extra_info.get('validated', 0)
        cov['disagreements_checked'] += extra_info.get('disagreements', 0)
        cov['explanation'] += '; ' + extra_info.get('explanation', '')
    write_evidence(prop, tr, base_seed, cov, time.time() - t0, len(violations),
                   assumptions=spec.get('assumptions', []))
    print(f"{prop}: theorems {audit['discharged']}/{audit['obligations']} audited; E1 cases {len(cases)} (+{extra_run} extra): {kinds}; nontrivial distinct {len(nontriv)}; {time.time()-t0:.1f}s")
    finish(prop, violations, known_lines)
