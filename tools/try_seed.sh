#!/bin/bash
# Apply a seeded change to /repo, run the given check(s), record the outcome, and undo the change.
# Usage: try_seed.sh <seed dir name> <check id> [tier]
set -u
D=/verif/seeded/$1; C=$2; T=${3:-quick}
cd /verif
if ! git -C /repo diff --quiet; then echo "/repo has uncommitted changes; refusing"; exit 2; fi
P=$D/patch.diff; [ -f $D/patch-ported.diff ] && P=$D/patch-ported.diff
git -C /repo apply $P 2>/dev/null || git -C /repo apply -3 $P || { echo "patch does not apply (conflict) - port it by hand"; git -C /repo reset -q --hard HEAD; exit 2; }
OUT=$D/detect-$C.log
( ./check $C --tier $T ) > $OUT 2>&1; RC=$?
echo "exit=$RC" >> $OUT
F=$(grep -o "replay=[^ ]*" $OUT | head -1 | cut -d= -f2)
if [ -n "$F" ] && [ -f "$F" ]; then
  python3 - "$F" >> $OUT <<'PY'
import json, sys
d = json.load(open(sys.argv[1]))
print('first replay kind:', d.get('kind'))
print('first replay what:', str(d.get('what'))[:700])
print('first replay model verdict:', str(d.get('model_verdict'))[:400])
PY
fi
git -C /repo reset -q --hard HEAD
grep -v '^first replay model' $OUT | tail -6 | cut -c1-400
