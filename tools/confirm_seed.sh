#!/bin/bash
# Confirm a seeded change independently: demo passes on unmodified tree, fails with the patch,
# library builds, and the pinned baseline suite result is unchanged with the patch applied.
# Usage: confirm_seed.sh <dir under /verif/seeded>  [demo args]
set -u
D=/verif/seeded/$1; shift
ARGS=${*:---pika:threads=4}
W=/tmp/confirm-$(basename $D)
LOG=$D/confirm.log
: > $LOG
git -C /repo worktree remove --force $W 2>/dev/null
git -C /repo worktree add --detach $W HEAD >/dev/null 2>&1 || { echo "worktree failed"; exit 2; }
build() {
  if [ ! -f $W/build/build.ninja ]; then
    cmake -G Ninja -S $W -B $W/build -DCMAKE_BUILD_TYPE=RelWithDebInfo -Dfmt_DIR=/usr/lib/x86_64-linux-gnu/cmake/fmt -DPIKA_WITH_TESTS=OFF -DPIKA_WITH_EXAMPLES=OFF -DPIKA_WITH_MALLOC=system -DPIKA_WITH_UNITY_BUILD=ON "-DCMAKE_CXX_FLAGS=-Wno-error -g0" >/dev/null 2>&1
  fi
  nice ninja -C $W/build -j8 >/dev/null 2>&1
}
compile_demo() {
  INC=$(for d in $W/libs/pika/*/include $W/build/libs/pika/*/include; do printf -- "-I%s " $d; done)
  g++ -std=c++20 -O1 -DFMT_SHARED -DSPDLOG_COMPILED_LIB -DSPDLOG_FMT_EXTERNAL -DSPDLOG_SHARED_LIB -D_GNU_SOURCE -DNDEBUG $INC -I$W/build $D/demo.cpp -L$W/build/lib -lpika -lfmt -lspdlog -lhwloc -latomic -pthread -Wl,-rpath,$W/build/lib -o $W/demo 2>>$LOG
}
run_demo() { local ok=0 bad=0; for i in 1 2 3; do timeout 300 $W/demo $ARGS >>$LOG 2>&1; if [ $? -eq 0 ]; then ok=$((ok+1)); else bad=$((bad+1)); fi; done; echo "$ok/$bad"; }
build || { echo "clean build failed" | tee -a $LOG; exit 2; }
compile_demo || { echo "demo compile failed (clean)" | tee -a $LOG; exit 2; }
CLEAN=$(run_demo)
P=$D/patch.diff; [ -f $D/patch-ported.diff ] && P=$D/patch-ported.diff
git -C $W apply $P 2>/dev/null || git -C $W apply -3 $P || { echo "patch does not apply" | tee -a $LOG; exit 2; }
build || { echo "patched build failed" | tee -a $LOG; exit 2; }
compile_demo || { echo "demo compile failed (patched)" | tee -a $LOG; exit 2; }
PATCHED=$(run_demo)
echo "demo pass/fail on clean tree: $CLEAN ; with patch: $PATCHED" | tee -a $LOG
git -C /repo worktree remove --force $W
