#!/usr/bin/env python3
import json,sys
pid=sys.argv[1]; tag=sys.argv[2]; extra=open(sys.argv[3]).read() if len(sys.argv)>3 else ''
p=[json.loads(l) for l in open('/verif/properties.jsonl') if json.loads(l)['id']==pid][0]
W=f'/tmp/work-{tag}'
print(f"""You are one of several engineers building a Lean-4 based verification framework for the C++ tasking runtime pika. Your assignment: build the complete check for property {pid} (part: {tag}).

PROPERTY {p['id']}: {p['title']}
Statement: {p['statement']}
Quantified over: {p['quantifier']['text']}
Why tests cannot settle it: {p['why_tests_cant']}
Anchor files: {', '.join(p['anchors']['files'])}
(The full record, including anchors.state / anchors.mechanism / hook_needed hints, is the line with id {pid} in /verif/properties.jsonl - read it.)

Your working copies (already created): framework worktree W/verif = {W}/verif (branch work-{tag}), pika worktree W/repo = {W}/repo (branch hooks-{tag}). ALWAYS `export VERIF_REPO={W}/repo`. Never modify /repo or /verif directly, never touch other agents' directories under /tmp.

START by reading, in {W}/verif: AGENT_GUIDE.md (the pattern, rules, working-copy protocol, deliverable), DESIGN.md sections 2, 3 and the section-4 entry for {pid} (the design intent; you may deviate where the guide or reality says otherwise, and say so in your notes), then the C08 reference files: lean/PikaVerif/Core/Basic.lean, Core/Sum.lean, Model/Sem.lean, Lemmas/Sem.lean, Lemmas/Sem2.lean, Props/C08.lean, lean/Driver/Util.lean, Driver/SemDrv.lean, Driver/Main.lean, harness/baton.hpp, harness/e1_main.hpp, harness/e1/sem.cpp, tools/vlib.py, tools/e1check.py, checks/C08.py. Then read the pika source the property is anchored in. Then run `cd {W}/verif && VERIF_REPO={W}/repo tools/setup.sh` once and `VERIF_REPO={W}/repo ./check C08` to see the pipeline work.

{extra}

Sandbox facts: no network; Lean 4.33.0 (lean, lake on PATH), core Lean only in models/driver; g++ 12; 16 cores shared with other agents (use -j8 at most); python3. pika::this_thread::sleep_for is not supported in this tree. Every shell command prints a harmless conda WARNING line. Scratch files go under {W}/scratch. Keep quick-tier runtime of your check under ~60 s and thorough under ~10 min. Time budget: aim to have a first complete vertical slice (model + at least the core theorems + driver + harness + check exiting 0 on the unchanged tree + evidence file valid against /root/.vp/EVIDENCE.schema.json, validated with `python3-vt -c 'import json,jsonschema; jsonschema.validate(json.load(open("evidence/{pid}.json")), json.load(open("/root/.vp/EVIDENCE.schema.json")))'`) committed within about 2.5 hours, then spend up to about 2 more hours strengthening (more theorems at full strength, more of the code in the model, mutation trials), committing as you go. Proof effort guidance: prefer the invariant + grind-macro style of Lemmas/Sem.lean; if a theorem resists for more than ~30 minutes, state it, keep a `_partial` version you can prove, and move on (never leave sorry/admit/axiom in committed files - the audit greps for them).

When finished, reply with: the branch names, the list of theorems proved (and any _partial with what is missing), how the tie works and how many cases/second it runs, the result of your mutation trials, and any genuine defect you found in the pinned pika tree (with the failing case).""")
