#!/usr/bin/env python3
"""Prompt for a follow-up engineer who extends an existing, merged check. usage: followup_prompt.py <prop> <tag> <taskfile>"""
import json,sys
pid=sys.argv[1]; tag=sys.argv[2]; task=open(sys.argv[3]).read()
p=[json.loads(l) for l in open('/verif/properties.jsonl') if json.loads(l)['id']==pid][0]
W=f'/tmp/work-{tag}'
print(f"""You are one of several engineers extending a Lean-4 based verification framework for the C++ tasking runtime pika. The check for property {pid} already exists, is merged and passes on the unchanged tree; your assignment is a FOLLOW-UP that strengthens it (tag {tag}).

PROPERTY {p['id']}: {p['title']}
Statement: {p['statement']}
Quantified over: {p['quantifier']['text']}
Anchor files: {', '.join(p['anchors']['files'])}
(Full record: the line with id {pid} in /verif/properties.jsonl - read it, never edit it.)

YOUR TASK
{task}

Working copies (already created): framework worktree {W}/verif (branch work-{tag}), pika worktree {W}/repo (branch hooks-{tag}). ALWAYS `export VERIF_REPO={W}/repo`. Never modify /repo or /verif directly, never touch other engineers' directories under /tmp. Do not use `git stash` (shared between worktrees).

START by reading, in {W}/verif: AGENT_GUIDE.md (pattern, ground rules, working-copy protocol), notes/{pid}.md (what the first engineer built, what is partial), DESIGN.md section 11 (as-built architecture) and the section-4 entry for {pid}, then the existing files of this property: checks/{pid}*.py, the Model/Lemmas/Props Lean files it names, the driver under lean/Driver/, the harness source. Run `cd {W}/verif && VERIF_REPO={W}/repo tools/setup.sh` once (lake build 1-2 min, pika builds a few minutes on a loaded machine), then `VERIF_REPO={W}/repo ./check {pid}` to see the current check pass.

Rules that matter: no sorry/admit/axiom/native_decide/bv_decide/implemented_by/unsafe/maxHeartbeats 0 (the audit greps; allowed axioms propext, Classical.choice, Quot.sound); core Lean only in model/driver files; the model follows the code AS IT IS; theorems are stated at full strength in Props/ (a `_partial` version only with the full statement kept visible and a precise note of what is missing); every new theorem in a Props file is picked up by the audit automatically (it lists `theorem` names in the file) - keep helper lemmas in Lemmas/. The check must keep exiting 0 with no VIOLATION line on the unchanged tree at several VERIF_SEED values (run seeds 1, 2, 3 before you finish), quick tier under ~90 s, and must never turn slowness of a loaded machine into a verdict. Existing theorems must not be weakened or deleted; the existing harness programs and monitors must keep running (add, do not replace). New hooks in pika are add-only lines guarded by PIKA_VERIF_HOOKS, committed on your hooks-{tag} branch with a message starting `verif hooks:`; a repair of a genuine defect is a separate minimal commit starting `fix:` (only if small and safe - otherwise describe the finding with its failing case in your notes). Shared files you may need to touch minimally: lean/PikaVerif.lean, lean/Driver.lean, lean/Driver/Main.lean (they are union-merged). Do NOT edit MANIFEST.json, tools/checks.json, DESIGN.md, known_findings.txt, tools/vlib.py, tools/e1check.py, tools/e2check.py, tools/e0check.py, harness/baton.hpp, harness/e2_log.hpp unless you really must (say so in your notes; such edits are reviewed by hand).

Sandbox: no network; Lean 4.33.0 core; g++ 12; 16 cores shared with ~15 other engineers (use -j6 at most, expect slow builds); scratch files under {W}/scratch. Time budget about 3 hours; commit small steps on your branch as you go. If a proof resists for more than ~40 minutes, keep what you have proved, state precisely what is missing, and move to the next item.

Finish by (1) appending a section "Follow-up {tag}" to notes/{pid}.md: new theorems (name + one-line meaning), what changed in model/harness/hooks, what is still partial, updated text for the MANIFEST entry (level text, level_note) if it changes, mutation trials (alter the code in {W}/repo in two or three property-breaking ways that your new parts should catch; confirm VIOLATION; restore), (2) committing everything on your two branches, (3) replying with a short summary: branches, theorems proved, what remains partial, mutation results, any genuine defect found (with the failing case).""")
