#!/usr/bin/env python3
"""Generic check built on engine E0 (sequential line-protocol histories, differential) + Lean model + Lean theorems.

Modelled on e1check.py; differences: the harness is built with sanitizers (spec["cxx_extra"]), the
trusted base text is the E0 one, and the driver compares model output with implementation output
line by line (a mismatch = broken correspondence, a monitor failure = concrete violation).

spec = dict(
  prop='C08', model='sem', harness='e1/sem.cpp', bin='e1_sem',
  gen=function(rng, i) -> case text (must start with 'case <id> ...' and end with 'endcase'),
  nontrivial=function(result dict) -> bool,
  quick=int, thorough=int, extra=int (cases for the extra search after a broken obligation/tie),
  design_ref, rule text, corr_name)
"""
import os, sys, time, json, re, glob
sys.path.insert(0, os.path.dirname(os.path.abspath(__file__)))
from vlib import *


E0_TRUSTED_BASE = [
    TRUSTED_BASE[0],
    "the hand-written Lean model follows the C++ at the granularity of one wrapper operation; it is tied to /repo's working tree only by the correspondence run of this check (finite, counts below): every operation's result and the exact sequence of payload constructor/destructor events must equal the model's output",
    "harness harness/e0/erase.cpp (instrumented payloads, ASan+UBSan build of the harness; libpika itself is not sanitised), line parser and printer in lean/Driver/EraseDrv.lean",
    "sequential histories only; a single thread uses the wrappers",
]


def run(spec):
    prop = spec['prop']
    t0 = time.time()
    tr = tier()
    base_seed, seed = seed_for(prop)
    rng = Rng(seed)
    replay = None
    for i, a in enumerate(sys.argv):
        if a == '--replay' and i + 1 < len(sys.argv):
            replay = sys.argv[i + 1]
    violations, known_lines = [], []
    notes = []

    # 1. proof obligations -------------------------------------------------------------
    ok_build, build_log = lean_build(prop)
    audit = {'obligations': 0, 'discharged': 0, 'problems': ['lake build failed'], 'theorems': [],
             'checker_cmd': f'cd {LEAN} && lake build'}
    if ok_build:
        audit = lean_audit(prop, [])
        if tr == 'thorough':
            for m, okc, out in leanchecker([f'PikaVerif.Props.{prop}']):
                if not okc:
                    audit['problems'].append(f'leanchecker {m}: {out}')
    proof_ok = ok_build and not audit['problems'] and audit['obligations'] == audit['discharged'] and audit['obligations'] > 0

    # 2. build the implementation side from /repo's working tree ------------------------
    ok_p, plog = pika_build(spec.get('variant', 'hooks'))
    ok_h, hbin, hlog = (False, '', '')
    if ok_p:
        ok_h, hbin, hlog = compile_harness(spec['bin'], spec['harness'], spec.get('variant', 'hooks'),
                                           extra=spec.get('cxx_extra', '-O1 -g -fsanitize=address,undefined -fno-sanitize-recover=undefined'))
    if not (ok_p and ok_h):
        p = write_replay(prop, f'build-failure-{base_seed}.txt', (plog if not ok_p else hlog))
        write_evidence(prop, tr, base_seed, {'obligations': audit['obligations'], 'discharged': audit['discharged'],
                       'checker_cmd': audit['checker_cmd'], 'trusted_base': E0_TRUSTED_BASE,
                       'explanation': 'implementation side failed to build; correspondence could not run'},
                       time.time() - t0, 1)
        finish(prop, [f'VIOLATION property={prop} replay={p} no-failing-input-found'], [])

    # 3. correspondence + monitors -------------------------------------------------------
    cases = []
    corpus_dir = os.path.join(HERE, 'corpus', prop)
    corpus = sorted(glob.glob(os.path.join(corpus_dir, '*.case')))
    if replay:
        txt = open(replay).read()
        try:
            txt = json.loads(txt).get('case', txt)      # replay / finding files written by the checks are JSON
        except ValueError:
            pass
        cases = [m.strip() for m in re.findall(r'(case .*?endcase)', txt, flags=re.S)] or [txt]
    else:
        for c in corpus:
            cases.append(open(c).read().strip())
        n = spec['thorough'] if tr == 'thorough' else spec['quick']
        for i in range(n):
            cases.append(spec['gen'](rng, f's{base_seed}n{i}'))
    results = run_e1(hbin, spec['model'], cases, jobs=spec.get('jobs', 8), tag=prop)
    kinds = {'pass': 0, 'monitor': 0, 'tie': 0}
    bad = []
    for c, r in zip(cases, results):
        k = classify(r)
        kinds[k] += 1
        if k != 'pass':
            bad.append((k, c, r))
    extra_run = 0
    if (not proof_ok or kinds['tie'] > 0) and kinds['monitor'] == 0 and not replay:
        # a proof obligation or the correspondence is broken: search harder for a concrete failure
        ecases = [spec['gen'](rng, f'x{base_seed}n{i}') for i in range(spec.get('extra', spec['thorough']))]
        eres = run_e1(hbin, spec['model'], ecases, jobs=spec.get('jobs', 8), tag=prop + 'x')
        extra_run = len(ecases)
        for c, r in zip(ecases, eres):
            k = classify(r)
            if k == 'monitor':
                bad.append((k, c, r))
                kinds['monitor'] += 1

    kf = known_findings(prop)
    mon = [b for b in bad if b[0] == 'monitor']
    ties = [b for b in bad if b[0] == 'tie']
    reported = set()
    if mon:
        # report distinct monitor messages (first replay for each)
        for k, c, r in mon:
            msg = r['verdict'].split('monitors FAIL:')[-1].strip() if 'monitors FAIL' in r['verdict'] else 'crash: ' + r['raw'][-200:].replace('\n', ' ')
            first = msg.split(' | ')[0]
            first = re.sub(r'PikaVerif\.Erase\.Op\.(\w+)[^:]*:', r'\1:', first)
            sig = re.sub(r'\[[^\]]*\]', '[..]', re.sub(r'-?\d+', 'N', first))[:160]
            if sig in reported:
                continue
            reported.add(sig)
            if len(violations) >= spec.get('max_reports', 5):
                continue        # further distinct failure shapes are counted in the evidence, not listed
            hit = [f for f in kf if f['signature'] and f['signature'] in sig]
            if hit:
                known_lines.append(f"KNOWN-FINDING: property={prop} {hit[0]['id']}: {msg[:200]}")
                continue
            p = write_replay(prop, f'monitor-{base_seed}-{len(reported)}.json',
                             {'property': prop, 'kind': 'monitor', 'what': msg, 'case': c, 'impl_history': r['raw'],
                              'model_verdict': r['verdict'],
                              'rerun_cmd': f'cd {HERE} && ./check {prop} --replay <this file>'})
            violations.append(f'VIOLATION property={prop} replay={p}')
    if not violations and (ties or not proof_ok):
        if not proof_ok:
            p = write_replay(prop, f'proof-{base_seed}.json',
                             {'property': prop, 'kind': 'proof', 'problems': audit['problems'], 'build_log': build_log[-3000:],
                              'theorems': audit['theorems'], 'searched_cases': len(cases) + extra_run})
            violations.append(f'VIOLATION property={prop} replay={p} no-failing-input-found')
        if ties:
            k, c, r = ties[0]
            p = write_replay(prop, f'tie-{base_seed}.json',
                             {'property': prop, 'kind': 'tie', 'correspondence': spec.get('corr_name', f'E0 outputs of {spec["harness"]} equal to the outputs of Lean model {spec["model"]}'),
                              'first_divergence': r['verdict'], 'case': c, 'impl_history': r['raw'],
                              'diverging_cases': len(ties), 'searched_cases': len(cases) + extra_run})
            violations.append(f'VIOLATION property={prop} replay={p} no-failing-input-found')

    # 3b. separately reported extras (never turned into a verdict) -----------------------------
    extras = {}
    if spec.get('extras') and not replay:
        try:
            extras = spec['extras'](dict(tier=tr, rng=rng, base_seed=base_seed, jobs=spec.get('jobs', 8)))
        except Exception as e:  # an extra must not break the check
            extras = {'error': repr(e)[:300]}

    # 4. evidence -------------------------------------------------------------------------
    nontriv = set()
    dist = {}
    for c, r in zip(cases, results):
        if classify(r) == 'pass' and spec['nontrivial'](c, r):
            nontriv.add(re.sub(r'^case \S+', 'case', c))
        for key, val in spec.get('stats', lambda c, r: {})(c, r).items():
            dist[key] = dist.get(key, 0) + val
    samples = [c for c in cases[len(corpus):len(corpus) + 2]] or cases[:2]
    cov = {
        'obligations': audit['obligations'], 'discharged': audit['discharged'],
        'checker_cmd': audit['checker_cmd'], 'trusted_base': E0_TRUSTED_BASE + spec.get('trusted_extra', []),
        'evaluations': len(cases) + extra_run,
        'distinct_nontrivial': len(nontriv),
        'rule': spec['rule'],
        'samples': samples,
        'traces_validated_against_impl': kinds['pass'],
        'disagreements_checked': kinds['tie'],
        'extras': extras,
        'explanation': f"theorems: {[t[0] for t in audit['theorems']]}; correspondence: {kinds}; corpus cases {len(corpus)}; extra search cases {extra_run}; distribution {dist}",
    }
    write_evidence(prop, tr, base_seed, cov, time.time() - t0, len(violations),
                   assumptions=spec.get('assumptions', []))
    print(f"{prop}: theorems {audit['discharged']}/{audit['obligations']} audited; E0 histories {len(cases)} (+{extra_run} extra): {kinds}; nontrivial distinct {len(nontriv)}; {time.time()-t0:.1f}s")
    for k, v in extras.items():
        print(f'{prop}: extra (reported separately, not part of the verdict) {k}: {v}')
    finish(prop, violations, known_lines)
