// e2_log.hpp - engine E2: exact linearised log of instrumented operations on the LIVE runtime.
//
// The sink installed here serialises every instrumented operation under one global spin lock:
// a PRE event (phase 1) takes the lock, the operation runs, the POST event (phase 2) appends the
// record and releases the lock; a POST without PRE is an atomic note.  Hence the log order is the
// real order of the instrumented atomic operations (no timestamp guessing).  Un-instrumented work
// runs in parallel as usual.  PRE/POINT events are also perturbation points: with a probability
// drawn from a per-thread PRNG the thread yields / spins / sleeps a little before continuing, to
// widen race windows.  Spinlock hooks ("sl.*") and primitives' hooks are ignored by this sink
// unless enabled with keep_prefixes.
#pragma once

#include <pika/config.hpp>

#include <atomic>
#include <cstdint>
#include <cstdio>
#include <cstring>
#include <map>
#include <string>
#include <thread>
#include <time.h>
#include <unistd.h>
#include <vector>

namespace verif::e2 {
    struct rec
    {
        int os;
        char const* site;
        void const* obj;
        std::uint64_t a, b;
    };

    inline std::vector<rec>* g_log = nullptr;
    inline std::atomic<bool> g_lock{false};
    inline std::atomic<int> g_next_os{0};
    inline std::atomic<bool> g_enabled{false};
    inline std::uint64_t g_seed = 1;
    inline std::uint32_t g_perturb_per_1024 = 0;
    inline std::size_t g_max_records = 3'000'000;
    inline std::atomic<bool> g_overflow{false};
    inline thread_local int tl_os = -1;
    inline thread_local bool tl_holding = false;
    // open PRE sites of this thread (PRE/POST pairs may nest: the lock is held from the outermost
    // PRE to its matching POST; a POST whose site is not the innermost open one is a note)
    inline thread_local char const* tl_open[8];
    inline thread_local int tl_depth = 0;
    inline thread_local std::uint64_t tl_rng = 0;
    inline bool g_place = false;    // also keep the placement sites place.* (C10)

    inline int os_id()
    {
        if (tl_os < 0)
        {
            tl_os = g_next_os.fetch_add(1);
            tl_rng = g_seed * 0x9e3779b97f4a7c15ull + std::uint64_t(tl_os + 1) * 0xbf58476d1ce4e5b9ull;
        }
        return tl_os;
    }
    inline std::uint64_t rnd()
    {
        std::uint64_t z = (tl_rng += 0x9e3779b97f4a7c15ull);
        z = (z ^ (z >> 30)) * 0xbf58476d1ce4e5b9ull;
        z = (z ^ (z >> 27)) * 0x94d049bb133111ebull;
        return z ^ (z >> 31);
    }
    inline void lock()
    {
        while (g_lock.exchange(true, std::memory_order_acquire))
            while (g_lock.load(std::memory_order_relaxed)) __builtin_ia32_pause();
    }
    inline void unlock() { g_lock.store(false, std::memory_order_release); }

    // a harness may install its own site filter (used by e2/mpi.cpp: only mpi.* tm.* x.*)
    inline bool (*g_wanted)(char const*) = nullptr;
    inline auto& g_filter = g_wanted;    // alias used by e2/life.cpp
    // per-harness extensions: extra site prefixes to record, and a record filter (true = drop the
    // record; used for high-frequency polling sites whose uninteresting values are stutter)
    inline bool (*g_wanted_extra)(char const*) = nullptr;
    inline bool (*g_drop)(char const* site, void const* obj, std::uint64_t a, std::uint64_t b) = nullptr;
    // called at POINT sites and before outermost PRE sites (outside the log lock): lets a harness widen one specific window deterministically
    inline void (*g_on_point)(char const* site, void const* obj, std::uint64_t a, std::uint64_t b) = nullptr;

    inline bool wanted(char const* s)
    {
        if (g_wanted != nullptr) return g_wanted(s);
        // scheduler protocol sites + harness notes; everything else (sl.*, cv.*, sem.* ...) is dropped
        switch (s[0])
        {
        case 's': return s[1] == 'w' || (s[1] == 't' && s[2] == 's') || s[1] == 'a';    // sw.* sts.* sas.* (not stop.*)
        case 't': return s[1] == 'a';                                   // task.*
        case 'l': return s[1] == 'o';                                   // loop.*
        case 'p': return s[1] == 'h' || (s[1] == 'l' && g_place);      // phase.*  (place.* on request)
        case 'q': return true;                                          // q.*
        case 'b': return s[1] == 'o';                                   // body.*
        case 'x': return true;                                          // x.* harness notes
        default: return g_wanted_extra != nullptr && g_wanted_extra(s);
        }
    }

    inline void perturb()
    {
        if (g_perturb_per_1024 == 0) return;
        std::uint64_t r = rnd();
        if ((r & 1023) >= g_perturb_per_1024) return;
        unsigned k = (r >> 10) & 7;
        if (k < 4) sched_yield();
        else if (k < 7)
        {
            for (unsigned i = 0; i < 200u * (1 + ((r >> 16) & 15)); ++i) __builtin_ia32_pause();
        }
        else
        {
            struct timespec ts = {0, long(20000 + ((r >> 20) & 0xffff))};
            nanosleep(&ts, nullptr);
        }
    }

    inline void sink(int phase, char const* site, void const* obj, std::uint64_t a,
        std::uint64_t b) noexcept
    {
        // a POST whose PRE took the log lock must release it even if logging was switched off in between
        if (phase == 2 && tl_holding && !g_enabled.load(std::memory_order_relaxed))
        {
            if (tl_depth > 0 && tl_depth <= 8 && std::strcmp(tl_open[tl_depth - 1], site) == 0) --tl_depth;
            if (tl_depth == 0)
            {
                tl_holding = false;
                unlock();
            }
            return;
        }
        if (!g_enabled.load(std::memory_order_relaxed) || !wanted(site)) return;
        int os = os_id();
        if (phase == 0)
        {
            if (g_on_point != nullptr) g_on_point(site, obj, a, b);    // directed delay at a named point
            perturb();
            return;
        }
        if (phase == 1)
        {
            if (tl_depth == 0)
            {
                if (g_on_point != nullptr) g_on_point(site, obj, a, b);    // directed delay before an instrumented operation
                perturb();
                lock();
                tl_holding = true;
            }
            if (tl_depth < 8) tl_open[tl_depth] = site;
            ++tl_depth;
            return;
        }
        bool closes = tl_depth > 0 && tl_depth <= 8 && std::strcmp(tl_open[tl_depth - 1], site) == 0;
        if (!tl_holding) lock();
        if (g_drop != nullptr && g_drop(site, obj, a, b)) {}
        else if (g_log->size() < g_max_records) g_log->push_back(rec{os, site, obj, a, b});
        else g_overflow.store(true);
        if (closes) --tl_depth;
        if (tl_depth == 0)
        {
            tl_holding = false;
            unlock();
        }
    }

    inline void note(char const* site, void const* obj, std::uint64_t a = 0, std::uint64_t b = 0)
    {
        sink(2, site, obj, a, b);
    }

    inline void install(std::uint64_t seed, std::uint32_t perturb_per_1024)
    {
        g_seed = seed;
        g_perturb_per_1024 = perturb_per_1024;
        g_log = new std::vector<rec>();
        g_log->reserve(1 << 20);
#if defined(PIKA_VERIF_HOOKS)
        pika::verif::sink.store(&sink);
#endif
        g_enabled.store(true);
    }

    // dump with symbolic object ids (first-seen numbering)
    inline void dump(FILE* f)
    {
        g_enabled.store(false);
        lock();
        std::map<void const*, int> ids;
        for (auto const& r : *g_log)
        {
            int id = 0;
            if (r.obj != nullptr)
            {
                auto it = ids.find(r.obj);
                if (it == ids.end())
                {
                    id = int(ids.size()) + 1;
                    ids[r.obj] = id;
                }
                else id = it->second;
            }
            std::fprintf(f, "%d %s %d %llu %llu\n", r.os, r.site, id, (unsigned long long) r.a,
                (unsigned long long) r.b);
        }
        unlock();
    }
}    // namespace verif::e2
