// E1 harness for C09 (latch / event / call_once part): the real pika::latch,
// pika::experimental::event and pika::call_once under the baton, callers on OS threads.
//
// case header: kind=latch init=<count> | kind=event | kind=once ; seed= strat=
// thread ops:  latch: wait ; try ; cd <n> ; aw <n>
//              event: ewait ; eset ; ereset ; eocc
//              once : call <throws 0|1>
#include "../baton.hpp"
#include "../e1_main.hpp"

#include <pika/synchronization/event.hpp>
#include <pika/synchronization/latch.hpp>
#include <pika/synchronization/once.hpp>

#include <memory>
#include <stdexcept>

using namespace verif;

static void run_one(case_t const& c)
{
    int k = int(c.threads.size());
    auto* ctl = new controller(k, std::uint64_t(c.geti("seed", 1)), int(c.geti("strat", 0)));
    ctl->max_steps = std::size_t(c.geti("maxsteps", 20000));
    std::string kind = c.gets("kind", "latch");
    auto* lt = new pika::latch(c.geti("init", 0));
    auto* ev = new pika::experimental::event();
    auto* fl = new pika::once_flag();
    void* o = kind == "latch" ? (void*) lt : kind == "event" ? (void*) ev : (void*) fl;
    ctl->name_obj(o);
    std::vector<std::function<void()>> bodies;
    for (int i = 0; i < k; ++i)
    {
        bodies.push_back([=, &c] {
            for (auto const& op : c.threads[i])
            {
                long long a0 = op.args.size() > 0 ? op.args[0] : 0;
                try
                {
                    if (op.name == "wait")
                    {
                        pt("inv.wait", o);
                        lt->wait();
                        nt("ret", o, 0);
                    }
                    else if (op.name == "try")
                    {
                        // try_wait is a single atomic load: the invocation point is the
                        // preemption point in front of it
                        pt("inv.try", o);
                        bool r = lt->try_wait();
                        nt("ret", o, r);
                    }
                    else if (op.name == "cd")
                    {
                        pt("inv.cd", o, a0);
                        lt->count_down(a0);
                        nt("ret", o, 0);
                    }
                    else if (op.name == "aw")
                    {
                        pt("inv.aw", o, a0);
                        lt->arrive_and_wait(a0);
                        nt("ret", o, 0);
                    }
                    else if (op.name == "ewait")
                    {
                        pt("inv.ewait", o);
                        ev->wait();
                        nt("ret", o, 0);
                    }
                    else if (op.name == "eset")
                    {
                        pt("inv.eset", o);
                        ev->set();
                        nt("ret", o, 0);
                    }
                    else if (op.name == "ereset")
                    {
                        // reset() is a single atomic store
                        pt("inv.ereset", o);
                        ev->reset();
                        nt("event.stored", o, 0);
                        nt("ret", o, 0);
                    }
                    else if (op.name == "eocc")
                    {
                        // occurred() is a single atomic load
                        pt("inv.eocc", o);
                        bool r = ev->occurred();
                        nt("ret", o, r);
                    }
                    else if (op.name == "call")
                    {
                        pt("inv.call", o, a0);
                        bool threw = false;
                        try
                        {
                            pika::call_once(*fl, [&] {
                                pt("once.body", o, a0);
                                if (a0 != 0)
                                {
                                    nt("once.body.end", o, 1);
                                    throw std::runtime_error("callable failed");
                                }
                                nt("once.body.end", o, 0);
                            });
                        }
                        catch (std::runtime_error const&)
                        {
                            threw = true;
                        }
                        nt("ret", o, threw ? 2 : 0);
                    }
                }
                catch (std::exception const& e)
                {
                    nt("exc", o);
                }
            }
        });
    }
    run_os_threads(*ctl, bodies);
}

int main(int argc, char** argv)
{
    if (argc < 2) return 2;
    return run_case_file(argv[1], run_one);
}
