// E1 harness for C09 (latch / event / call_once part): the real pika::latch,
// pika::experimental::event and pika::call_once under the baton, callers on OS threads
// (default, agent=os) or on pika tasks of a live runtime (agent=task, follow-up C09p).
//
// case header: kind=latch init=<count> | kind=event | kind=once ; seed= strat= [agent=os|task]
// thread ops:  latch: wait ; try ; cd <n> ; aw <n>
//              event: ewait ; eset ; ereset ; eocc
//              once : call <throws 0|1>
#define VERIF_WITH_PIKA_TASKS
#include "../baton.hpp"
#include "../e1_main.hpp"

#include <pika/modules/thread_manager.hpp>
#include <pika/runtime/runtime.hpp>
#include <pika/synchronization/event.hpp>
#include <pika/synchronization/latch.hpp>
#include <pika/synchronization/once.hpp>

#include <pika/threading_base/thread_data.hpp>

#include <chrono>
#include <csignal>
#include <execinfo.h>
#include <memory>
#include <sstream>
#include <stdexcept>
#include <thread>

using namespace verif;

// ---- agent=task: every model thread is a pika task whose blocking goes through pika's own task
// agent -------------------------------------------------------------------------------------------
// The task installs a `task_agent` (derived from the baton's verif_agent) on top of its own
// pika execution_agent.  yield / yield_k / spin_k stay baton preemption points (a spinning task
// keeps its worker, as it does in pika below k = 16).  suspend() does the controller's book-keeping
// (same log lines `ag.suspend` / `ag.woke` as the OS-thread agent), hands the baton on WITHOUT
// blocking the worker and then really suspends the pika task (execution_agent::suspend: state
// `suspended`, context switch back into the scheduling loop of the worker).  resume() does the
// book-keeping (`ag.resume`, wake-up token) and then really resumes the target
// (execution_agent::resume -> set_thread_state(pending); if the target is still `active` - it has
// been popped from the condition variable before it got as far as its suspension - pika's
// set_active_state helper task carries the wake-up).  A resumed task continues on whichever worker
// picks it up and then waits for the baton.  With n tasks and n + 1 workers there is always a free
// worker (a suspended task holds none), so helper tasks and resumed tasks are always picked up.
//
// The log depends on the controller's choices only (thread states change inside controller calls,
// not when the real wake-up lands), so a case replays exactly; only the trailing `tk.stat` line
// (number of real suspensions, number of resumes that hit a still-active task) depends on timing.
//
// Hooks that fire inside the real suspend / resume calls (scheduler, state word, queues) and in the
// scheduling loops of the workers are not part of this model: `my_tid` is -1 there and the sink
// drops them.
//
// Lost real wake-up: declared from runtime state, never from elapsed time (see `watchdog`).
namespace {
    struct task_agent;
    struct task_shared    // guarded by controller::m
    {
        explicit task_shared(int n)
          : in_susp(n, 0)
          , at_point(n, 0)
          , res_started(n, 0)
          , res_done(n, 0)
          , ids(n)
          , agents(n, nullptr)
        {
        }
        std::vector<int> in_susp;     // 1 from the hand-over of the baton until the real suspend returned
        std::vector<int> at_point;    // lean mode: the task waits for the baton in a real suspension
                                      // and is owed one real resume by whoever grants it the baton
        std::vector<long> res_started, res_done;    // real resume calls aimed at the task
        std::vector<pika::threads::detail::thread_id_type> ids;
        std::vector<task_agent*> agents;
        std::vector<int> spurious;    // tasks whose real suspension ended without a resume
        long real_suspends = 0, resumes_on_active = 0, baton_suspends = 0;
        bool drop_real_resume = false;    // self-test of the watchdog (VERIF_C09P_DROP_RESUME=1)
        // lean mode (case header workers=<W>, any W >= 1, in particular W < number of tasks): a task
        // that waits for the baton does not block its worker either - it suspends itself through
        // pika's task agent and the thread that hands the baton to it resumes it.  No task ever
        // blocks a worker, so n tasks run on fewer than n workers ("more participants than workers").
        bool lean = false;
    };
    task_shared* g_sh = nullptr;

    pika::threads::detail::thread_schedule_state real_state(pika::threads::detail::thread_id_type const& id)
    {
        return pika::threads::detail::get_thread_id_data(id)->get_state().state();
    }

    // Make `a` the current agent of the calling OS thread and leave it there (no restore: pika's
    // own reset_agent in thread_data::call restores the worker's default agent whenever the task
    // switches out, and installs the task's execution_agent again whenever a worker - possibly another
    // one - switches the task in; a scoped reset_agent across a suspension would restore into the
    // thread-local slot of the wrong OS thread).
    void install_agent(pika::execution::detail::agent_base& a)
    {
        using ra = pika::execution::this_thread::detail::reset_agent;
        alignas(ra) unsigned char buf[sizeof(ra)];
        new (buf) ra(a);    // constructor swaps the slot; the destructor is deliberately never run
    }

    // (lock held) after controller::switch_from: the thread that now has the baton; if it waits for
    // the baton in a real suspension the caller owes it a real resume (to be issued without the lock)
    int grant(controller& c, task_shared& sh)
    {
        int const nx = c.current;
        if (!sh.lean || nx < 0 || nx >= c.n || !sh.at_point[nx]) return -1;
        sh.at_point[nx] = 0;
        ++sh.res_started[nx];
        return nx;
    }
    void real_resume(controller& c, task_shared& sh, int target, char const* desc, bool counted);

    struct task_agent : verif_agent
    {
        pika::execution::detail::agent_base& real;
        task_shared& sh;
        task_agent(int t, controller* cc, pika::execution::detail::agent_base& r, task_shared& s)
          : verif_agent(t, cc)
          , real(r)
          , sh(s)
        {
        }
        std::string description() const override { return "verif task_agent"; }

        // really suspend the calling task (it must have marked itself in_susp under the lock)
        void real_suspend(char const* desc)
        {
            my_tid = -1;
            real.suspend(desc);    // the pika task gives up its worker until somebody resumes it
            install_agent(*this);  // (possibly on another worker)
            my_tid = tid;
        }
        // (lock held via l) wait until the controller has granted the baton to this task
        void await_baton(std::unique_lock<std::mutex>& l)
        {
            if (sh.lean && c->current != tid)
            {
                sh.at_point[tid] = 1;
                sh.in_susp[tid] = 1;
                ++sh.baton_suspends;
                l.unlock();
                real_suspend("verif: waiting for the baton");
                l.lock();
                sh.in_susp[tid] = 0;
                if (c->current != tid) sh.spurious.push_back(tid);
            }
            c->th[tid].cv.wait(l, [&] { return c->current == tid; });
        }
        // lean mode: preemption point that holds no worker while it waits
        void lean_point(char const* site, void const* o, long long a, long long b, tstate st)
        {
            std::unique_lock<std::mutex> l(c->m);
            c->th[tid].st = st;
            c->switch_from(-1, l);
            int const r = grant(*c, sh);
            if (r >= 0)
            {
                l.unlock();
                real_resume(*c, sh, r, "verif: baton", true);
                l.lock();
            }
            await_baton(l);
            if (c->th[tid].st == tstate::sleeping) c->logf(tid, "ag.timeout", 0, 0, 0);
            c->th[tid].st = tstate::runnable;
            c->logf(tid, site, c->obj(o), a, b);
        }
        void yield(char const* d) override
        {
            if (sh.lean) lean_point("ag.yield", nullptr, 0, 0, tstate::spinning);
            else verif_agent::yield(d);
        }
        void yield_k(std::size_t k, char const* d) override
        {
            if (sh.lean) lean_point("ag.yield", nullptr, 0, 0, tstate::spinning);
            else verif_agent::yield_k(k, d);
        }
        void spin_k(std::size_t k, char const* d) override
        {
            if (sh.lean) lean_point("ag.yield", nullptr, 0, 0, tstate::spinning);
            else verif_agent::spin_k(k, d);
        }
        void suspend(char const* desc) override
        {
            int r = -1;
            {
                std::unique_lock<std::mutex> l(c->m);
                auto& me = c->th[tid];
                c->logf(tid, "ag.suspend", 0, me.tokens, 0);
                me.st = me.tokens > 0 ? tstate::runnable : tstate::parked;
                sh.in_susp[tid] = 1;
                ++sh.real_suspends;
                c->switch_from(-1, l);    // pick the next thread, do not wait for the baton here
                r = grant(*c, sh);
            }
            if (r >= 0) real_resume(*c, sh, r, "verif: baton", true);
            real_suspend(desc);
            {
                std::unique_lock<std::mutex> l(c->m);
                auto& me = c->th[tid];
                sh.in_susp[tid] = 0;
                if (me.tokens <= 0) sh.spurious.push_back(tid);
                await_baton(l);
                me.st = tstate::runnable;
                me.tokens--;
                c->logf(tid, "ag.woke", 0, me.tokens, me.aborted ? 1 : 0);
            }
        }
        void resume(char const* desc) override
        {
            c->agent_resume(tid, false);    // book-keeping + `ag.resume` line (tid = target)
            real_resume(*c, sh, tid, desc, false);
        }
        // first / last step of the task (lean mode; otherwise controller::thread_begin / thread_end)
        void lean_begin()
        {
            my_tid = tid;
            std::unique_lock<std::mutex> l(c->m);
            c->th[tid].st = tstate::runnable;
            await_baton(l);
        }
        void lean_end()
        {
            int r;
            {
                std::unique_lock<std::mutex> l(c->m);
                c->logf(tid, "done", 0, 0, 0);
                c->th[tid].st = tstate::done;
                my_tid = -1;
                c->switch_from(-1, l);
                r = grant(*c, sh);
            }
            if (r >= 0) real_resume(*c, sh, r, "verif: baton", true);
        }
    };

    // the real resume of `target` through its pika execution_agent; `counted`: res_started has
    // already been incremented under the lock that made the grant
    void real_resume(controller& c, task_shared& sh, int target, char const* desc, bool counted)
    {
        int const caller = my_tid;
        {
            std::unique_lock<std::mutex> l(c.m);
            if (!counted) ++sh.res_started[target];
            if (!counted && real_state(sh.ids[target]) == pika::threads::detail::thread_schedule_state::active)
                ++sh.resumes_on_active;
        }
        my_tid = -1;
        if (!sh.drop_real_resume || counted) sh.agents[target]->real.resume(desc);
        my_tid = caller;
        {
            std::unique_lock<std::mutex> l(c.m);
            ++sh.res_done[target];
        }
    }

#if defined(PIKA_VERIF_HOOKS)
    void lean_sink(int phase, char const* site, void const* o, std::uint64_t a, std::uint64_t b) noexcept
    {
        int tid = my_tid;
        if (tid < 0 || g_ctl == nullptr || g_ctl->finished) return;
        if (phase == 0) g_sh->agents[tid]->lean_point(site, o, (long long) a, (long long) b, tstate::runnable);
        else g_ctl->note(tid, site, o, (long long) a, (long long) b);
    }
#endif

    // A lost wake-up of pika's task agent is declared from state only: the baton has been granted to
    // task T (so no model thread runs or can run), every real resume call aimed at T has returned,
    // T's pika state is `suspended`, and the runtime holds nothing that could still wake it: no
    // pending and no staged task, and the active / suspended tasks are exactly the model threads that
    // wait for the baton / are suspended (no set_active_state helper alive).  The condition is
    // stable once true; it is required on 10 consecutive probes only because the four counters are
    // not read atomically.
    [[noreturn]] void watchdog(controller& c, task_shared& sh)
    {
        using st = pika::threads::detail::thread_schedule_state;
        auto& tm = pika::detail::get_runtime().get_thread_manager();
        int quiet = 0;
        for (;;)
        {
            std::this_thread::sleep_for(std::chrono::milliseconds(quiet > 0 ? 1 : 5));
            std::unique_lock<std::mutex> l(c.m);
            int const t = c.current;
            bool cand = t >= 0 && t < c.n && sh.in_susp[t] == 1 && sh.res_started[t] == sh.res_done[t] &&
                !sh.at_point[t] && c.th[t].st != tstate::done && real_state(sh.ids[t]) == st::suspended;
            if (cand)
            {
                long exp_active = 0, exp_susp = 0;
                for (int i = 0; i < c.n; ++i)
                {
                    if (sh.in_susp[i] == 1) ++exp_susp;
                    else if (c.th[i].st != tstate::done) ++exp_active;
                }
                cand = tm.get_thread_count(st::pending) == 0 && tm.get_thread_count(st::staged) == 0 &&
                    tm.get_thread_count(st::active) == exp_active &&
                    tm.get_thread_count(st::suspended) == exp_susp;
            }
            quiet = cand ? quiet + 1 : 0;
            if (quiet >= 10)
            {
                c.logf(t, "tk.lost", 0, sh.res_done[t], 0);
                c.status = "hang";
                c.finish(l);
            }
        }
    }

    [[noreturn]] void run_task_agents(controller& c, std::vector<std::function<void()>> bodies, int workers)
    {
        g_ctl = &c;
        auto* sh = new task_shared(c.n);
        g_sh = sh;
        sh->lean = workers > 0;
        sh->drop_real_resume = std::getenv("VERIF_C09P_DROP_RESUME") != nullptr;
        c.on_finish = [&c, sh] {
            for (int t : sh->spurious) c.logf(t, "tk.spurious", 0, 0, 0);
            c.logf(0, "tk.stat", 0, sh->real_suspends, sh->resumes_on_active);
        };
        std::string threads = "--pika:threads=" + std::to_string(sh->lean ? workers : c.n + 1);
        char const* argv[] = {"e1", threads.c_str(), "--pika:bind=none", nullptr};
        pika::start(nullptr, 3, argv);
        if (std::getenv("VERIF_C09P_BT") != nullptr)
            std::set_terminate([] {
                void* b[40];
                int n = backtrace(b, 40);
                backtrace_symbols_fd(b, n, 2);
                _exit(99);
            });
#if defined(PIKA_VERIF_HOOKS)
        pika::verif::sink.store(sh->lean ? &lean_sink : &e1_sink);
#endif
        namespace ex = pika::execution::experimental;
        for (int i = 0; i < c.n; ++i)
        {
            ex::start_detached(ex::schedule(ex::thread_pool_scheduler{}) | ex::then([&c, sh, i, &bodies] {
                auto real = pika::execution::this_thread::detail::agent();
                task_agent ag(i, &c, real.ref(), *sh);
                {
                    std::unique_lock<std::mutex> l(c.m);
                    sh->ids[i] = pika::threads::detail::get_self_id();
                    sh->agents[i] = &ag;
                }
                install_agent(ag);
                if (sh->lean) ag.lean_begin();
                else c.thread_begin(i);
                bodies[i]();
                if (sh->lean) ag.lean_end();
                else c.thread_end(i);
                install_agent(real.ref());
                // the task ends here and gives its worker back
            }));
        }
        c.start_all();
        {
            int r;
            {
                std::unique_lock<std::mutex> l(c.m);
                r = grant(c, *sh);
            }
            if (r >= 0) real_resume(c, *sh, r, "verif: baton", true);
        }
        watchdog(c, *sh);
    }

    // harness preemption point of a body
    inline void hpt(char const* site, void const* o = nullptr, long long a = 0, long long b = 0)
    {
        if (g_sh != nullptr && g_sh->lean) g_sh->agents[my_tid]->lean_point(site, o, a, b, tstate::runnable);
        else pt(site, o, a, b);
    }
}    // namespace

// Run the case in a child of its own with stdout captured; returns the wait status.
static void run_body(case_t const& c, bool task_mode, bool fell_back);
static int run_captured(case_t const& c, bool task_mode, unsigned wall, std::string& out)
{
    int fd[2];
    if (pipe(fd) != 0) _exit(3);
    std::fflush(stdout);
    pid_t pid = fork();
    if (pid == 0)
    {
        close(fd[0]);
        dup2(fd[1], 1);
        close(fd[1]);
        alarm(wall);
        run_body(c, task_mode, false);
        _exit(0);
    }
    close(fd[1]);
    char buf[4096];
    ssize_t n;
    while ((n = read(fd[0], buf, sizeof buf)) > 0) out.append(buf, std::size_t(n));
    close(fd[0]);
    int st = 0;
    waitpid(pid, &st, 0);
    return st;
}

static std::vector<std::string> log_lines(std::string const& out)
{
    std::vector<std::string> v;
    std::istringstream is(out);
    std::string l;
    while (std::getline(is, l))
        if (l.find(" tk.stat ") == std::string::npos) v.push_back(l);
    return v;
}

static void run_one(case_t const& c)
{
    if (c.gets("agent", "os") != "task") run_body(c, false, false);
    // agent=task.  The live runtime runs in a child of its own.  The only wall-clock limit is a
    // safety net against an unbounded run on an overloaded machine: if it fires (and the state-based
    // watchdog has declared nothing) the task-mode run is inconclusive - it gives NO verdict - and
    // the same case is run with the OS-thread agent instead; the log then starts with a
    // `tk.fallback` line, which the check counts.
    alarm(0);
    std::string tout;
    int st = run_captured(c, true, unsigned(c.geti("wall", 240)), tout);
    if (WIFSIGNALED(st) && WTERMSIG(st) == SIGALRM)
    {
        std::fprintf(stderr, "case %s: task-mode run inconclusive (wall-clock safety net), "
                             "falling back to the OS-thread agent\n", c.id.c_str());
        alarm(120);
        run_body(c, false, true);
    }
    if (WIFSIGNALED(st))
    {
        std::fputs(tout.c_str(), stdout);
        std::printf("end crash signal=%d\n", WTERMSIG(st));
        std::fflush(stdout);
        _exit(0);
    }
    // Differential monitor (independent of the Lean model): the log is a function of the
    // controller's choices and of what the primitives do, and neither may depend on the kind of
    // agent that carries the wake-up; so the OS-thread run of the same case (same program, same
    // schedule seed) must produce the same log line by line (the `tk.stat` line apart).  A
    // difference is reported as a `tk.diff <first differing line>` line in front of `end`.
    if (c.geti("diff", 1) != 0 && WIFEXITED(st) && WEXITSTATUS(st) == 0 && tout.find("\nend hang") == std::string::npos)
    {
        std::string oout;
        int st2 = run_captured(c, false, 120, oout);
        if (!(WIFSIGNALED(st2) && WTERMSIG(st2) == SIGALRM))
        {
            auto a = log_lines(tout), b = log_lines(oout);
            if (std::getenv("VERIF_C09P_DIFF_SELFTEST") != nullptr && b.size() > 3) b.erase(b.end() - 3);
            std::size_t i = 0;
            while (i < a.size() && i < b.size() && a[i] == b[i]) ++i;
            if (i < a.size() || i < b.size())
            {
                auto pos = tout.rfind("end ");
                if (pos == std::string::npos || (pos > 0 && tout[pos - 1] != '\n')) pos = tout.size();
                tout.insert(pos, "0 tk.diff 0 " + std::to_string(i + 1) + " 0\n");
            }
        }
    }
    std::fputs(tout.c_str(), stdout);
    std::fflush(stdout);
    _exit(WIFEXITED(st) ? WEXITSTATUS(st) : 0);
}

static void run_body(case_t const& c, bool task_mode, bool fell_back)
{
    int k = int(c.threads.size());
    auto* ctl = new controller(k, std::uint64_t(c.geti("seed", 1)), int(c.geti("strat", 0)));
    if (fell_back) ctl->logf(0, "tk.fallback", 0, 0, 0);
    ctl->max_steps = std::size_t(c.geti("maxsteps", 20000));
    std::string kind = c.gets("kind", "latch");
    auto* lt = new pika::latch(c.geti("init", 0));
    auto* ev = new pika::experimental::event();
    auto* fl = new pika::once_flag();
    void* o = kind == "latch" ? (void*) lt : kind == "event" ? (void*) ev : (void*) fl;
    ctl->name_obj(o);
    std::vector<std::function<void()>> bodies;
    for (int i = 0; i < k; ++i)
    {
        bodies.push_back([=, &c] {
            for (auto const& op : c.threads[i])
            {
                long long a0 = op.args.size() > 0 ? op.args[0] : 0;
                try
                {
                    if (op.name == "wait")
                    {
                        hpt("inv.wait", o);
                        lt->wait();
                        nt("ret", o, 0);
                    }
                    else if (op.name == "try")
                    {
                        // try_wait is a single atomic load: the invocation point is the
                        // preemption point in front of it
                        hpt("inv.try", o);
                        bool r = lt->try_wait();
                        nt("ret", o, r);
                    }
                    else if (op.name == "cd")
                    {
                        hpt("inv.cd", o, a0);
                        lt->count_down(a0);
                        nt("ret", o, 0);
                    }
                    else if (op.name == "aw")
                    {
                        hpt("inv.aw", o, a0);
                        lt->arrive_and_wait(a0);
                        nt("ret", o, 0);
                    }
                    else if (op.name == "ewait")
                    {
                        hpt("inv.ewait", o);
                        ev->wait();
                        nt("ret", o, 0);
                    }
                    else if (op.name == "eset")
                    {
                        hpt("inv.eset", o);
                        ev->set();
                        nt("ret", o, 0);
                    }
                    else if (op.name == "ereset")
                    {
                        // reset() is a single atomic store
                        hpt("inv.ereset", o);
                        ev->reset();
                        nt("event.stored", o, 0);
                        nt("ret", o, 0);
                    }
                    else if (op.name == "eocc")
                    {
                        // occurred() is a single atomic load
                        hpt("inv.eocc", o);
                        bool r = ev->occurred();
                        nt("ret", o, r);
                    }
                    else if (op.name == "call")
                    {
                        hpt("inv.call", o, a0);
                        bool threw = false;
                        try
                        {
                            pika::call_once(*fl, [&] {
                                hpt("once.body", o, a0);
                                if (a0 != 0)
                                {
                                    nt("once.body.end", o, 1);
                                    throw std::runtime_error("callable failed");
                                }
                                nt("once.body.end", o, 0);
                            });
                        }
                        catch (std::runtime_error const&)
                        {
                            threw = true;
                        }
                        nt("ret", o, threw ? 2 : 0);
                    }
                }
                catch (std::exception const& e)
                {
                    nt("exc", o);
                }
            }
        });
    }
    if (task_mode) run_task_agents(*ctl, bodies, int(c.geti("workers", 0)));
    run_os_threads(*ctl, bodies);
}

int main(int argc, char** argv)
{
    if (argc < 2) return 2;
    return run_case_file(argv[1], run_one);
}
