// E1 harness for C17: the lock-free deque (Michael's CAS deque) and the queue back-end
// adapters of lockfree_queue_backends.hpp under the baton.
//
// case keys: kind=deque|lifo|abp_fifo|abp_lifo|fifo  pool=<initial freelist nodes>
//            seed= strat=  script=<comma separated thread ids> (directed schedule prefix)
// thread ops (kind=deque):   pushl v ; pushr v ; popl ; popr
// thread ops (back-ends):    bpush v other_end ; bpop steal
// After the last thread finished the container is drained from the left end with the hooks
// off; the drained values are logged as `drain` lines (compared with the model's final chain).
#include "../baton.hpp"
#include "../e1_main.hpp"

#include <pika/concurrency/deque.hpp>
#include <pika/schedulers/lockfree_queue_backends.hpp>

#include <cstdint>
#include <memory>
#include <sstream>

using namespace verif;
using val_t = std::uint64_t;
using deque_t = pika::concurrency::detail::deque<val_t>;
using lifo_t = pika::threads::detail::lockfree_lifo_backend<val_t>;
using abp_fifo_t = pika::threads::detail::lockfree_abp_fifo_backend<val_t>;
using abp_lifo_t = pika::threads::detail::lockfree_abp_lifo_backend<val_t>;
using fifo_t = pika::threads::detail::lockfree_fifo_backend<val_t>;

static void run_one(case_t const& c)
{
    int k = int(c.threads.size());
    auto* ctl = new controller(k, std::uint64_t(c.geti("seed", 1)), int(c.geti("strat", 0)));
    ctl->max_steps = std::size_t(c.geti("maxsteps", 40000));
    {
        std::string sc = c.gets("script", "");
        std::istringstream is(sc);
        std::string tok;
        while (std::getline(is, tok, ','))
            if (!tok.empty()) ctl->script.push_back(std::atoi(tok.c_str()));
    }
    std::string kind = c.gets("kind", "deque");
    std::size_t pool = std::size_t(c.geti("pool", 8));
    deque_t* dq = nullptr;
    lifo_t* lifo = nullptr;
    abp_fifo_t* afifo = nullptr;
    abp_lifo_t* alifo = nullptr;
    fifo_t* fifo = nullptr;
    void* o = nullptr;
    if (kind == "deque") o = dq = new deque_t(pool);
    else if (kind == "lifo") o = lifo = new lifo_t(pool);
    else if (kind == "abp_fifo") o = afifo = new abp_fifo_t(pool);
    else if (kind == "abp_lifo") o = alifo = new abp_lifo_t(pool);
    else o = fifo = new fifo_t(pool);
    ctl->name_obj(o);

    auto bpush = [=](val_t v, bool other) {
        if (lifo) return lifo->push(val_t(v), other);
        if (afifo) return afifo->push(val_t(v), other);
        if (alifo) return alifo->push(val_t(v), other);
        return fifo->push(val_t(v), other);
    };
    auto bpop = [=](val_t& v, bool steal) {
        if (lifo) return lifo->pop(v, steal);
        if (afifo) return afifo->pop(v, steal);
        if (alifo) return alifo->pop(v, steal);
        return fifo->pop(v, steal);
    };
    int npush = 0;
    for (auto const& th : c.threads)
        for (auto const& op : th)
            if (op.name == "pushl" || op.name == "pushr" || op.name == "bpush") ++npush;
    ctl->on_finish = [=] {
        if (ctl->status != "ok") return;
        // quiescent: drain from the left end (back-ends: owner pop), hooks are off now
        for (int i = 0; i < npush + 2; ++i)    // a corrupted chain may be cyclic
        {
            val_t v = 0;
            bool ok = dq ? dq->pop_left(v) : bpop(v, false);
            if (!ok) break;
            ctl->logf(0, "drain", 0, (long long) v, 0);
        }
        if (dq) ctl->logf(0, "drainr", 0, 0, 0);
    };

    std::vector<std::function<void()>> bodies;
    for (int i = 0; i < k; ++i)
    {
        bodies.push_back([=, &c] {
            for (auto const& op : c.threads[i])
            {
                long long a0 = op.args.size() > 0 ? op.args[0] : 0;
                long long a1 = op.args.size() > 1 ? op.args[1] : 0;
                val_t v = 0;
                if (op.name == "pushl")
                {
                    pt("inv.pushl", o, a0);
                    bool r = dq->push_left(val_t(a0));
                    nt("ret", o, r, 0);
                }
                else if (op.name == "pushr")
                {
                    pt("inv.pushr", o, a0);
                    bool r = dq->push_right(val_t(a0));
                    nt("ret", o, r, 0);
                }
                else if (op.name == "popl")
                {
                    pt("inv.popl", o);
                    bool r = dq->pop_left(v);
                    nt("ret", o, r, r ? (long long) v : 0);
                }
                else if (op.name == "popr")
                {
                    pt("inv.popr", o);
                    bool r = dq->pop_right(v);
                    nt("ret", o, r, r ? (long long) v : 0);
                }
                else if (op.name == "bpush")
                {
                    pt("inv.bpush", o, a0, a1);
                    bool r = bpush(val_t(a0), a1 != 0);
                    nt("ret", o, r, 0);
                }
                else if (op.name == "bpop")
                {
                    pt("inv.bpop", o, a0);
                    bool r = bpop(v, a0 != 0);
                    nt("ret", o, r, r ? (long long) v : 0);
                }
            }
        });
    }
    run_os_threads(*ctl, bodies);
}

int main(int argc, char** argv)
{
    if (argc < 2) return 2;
    return run_case_file(argv[1], run_one);
}
