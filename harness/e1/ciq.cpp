// E1 harness for C11 / C17Index: contiguous_index_queue<> pop_left / pop_right under the baton.
//
// case <id> first=<f> last=<l> seed=<s> strat=<0|1|2>
// thread <i>: popl ; popr ; ...
// The queue is reset to [first, last) before the logical threads start.  Hook events compiled
// into contiguous_index_queue.hpp: ciq.load (point), ciq.loaded f l, ciq.iter f l, ciq.cas
// (point), ciq.ok f l.  Harness events: inv.popl / inv.popr (points), ret a b (a = 1 if an
// index was returned, b = the index).
#include "../baton.hpp"
#include "../e1_main.hpp"

#include <pika/concurrency/detail/contiguous_index_queue.hpp>

#include <optional>

using namespace verif;

static void run_one(case_t const& c)
{
    int k = int(c.threads.size());
    auto* ctl = new controller(k, std::uint64_t(c.geti("seed", 1)), int(c.geti("strat", 0)));
    ctl->max_steps = std::size_t(c.geti("maxsteps", 20000));
    auto* q = new pika::concurrency::detail::contiguous_index_queue<>();
    q->reset(std::uint32_t(c.geti("first", 0)), std::uint32_t(c.geti("last", 0)));
    ctl->name_obj(q);
    std::vector<std::function<void()>> bodies;
    for (int i = 0; i < k; ++i)
    {
        bodies.push_back([=, &c] {
            for (auto const& op : c.threads[i])
            {
                if (op.name == "popl")
                {
                    pt("inv.popl", q);
                    std::optional<std::uint32_t> r = q->pop_left();
                    nt("ret", q, r ? 1 : 0, r ? *r : 0);
                }
                else if (op.name == "popr")
                {
                    pt("inv.popr", q);
                    std::optional<std::uint32_t> r = q->pop_right();
                    nt("ret", q, r ? 1 : 0, r ? *r : 0);
                }
            }
        });
    }
    run_os_threads(*ctl, bodies);
}

int main(int argc, char** argv)
{
    if (argc < 2) return 2;
    return run_case_file(argv[1], run_one);
}
