#define VERIF_WITH_PIKA_TASKS
#include "../baton.hpp"
#include "../e1_main.hpp"
#include <pika/mutex.hpp>
using namespace verif;
static void run_one(case_t const& c)
{
    int k = int(c.threads.size());
    auto* ctl = new controller(k, std::uint64_t(c.geti("seed", 1)), int(c.geti("strat", 0)));
    auto* m = new pika::mutex;
    ctl->name_obj(m);
    std::vector<std::function<void()>> bodies;
    for (int i = 0; i < k; ++i)
        bodies.push_back([=, &c] {
            for (auto const& op : c.threads[i])
            {
                if (op.name == "lock") { pt("inv.lock", m); m->lock(); nt("ret", m, 1); }
                else if (op.name == "unlock") { pt("inv.unlock", m); m->unlock(); nt("ret", m, 0); }
            }
        });
    run_pika_tasks(*ctl, bodies);
}
int main(int argc, char** argv) { return run_case_file(argv[1], run_one); }
