// E1 harness for C09 (barrier part): pika::barrier<Completion> under the baton.
//
// Case header keys: n=<expected> seed= strat= maxsteps= tasks=0|1 (logical threads are OS threads
// or pika tasks).  Thread programs, ops:
//   arrive <u>   token = b.arrive(u)            (token kept by the thread)
//   wait         b.wait(token of the last arrive)
//   aw           b.arrive_and_wait()
//   drop         b.arrive_and_drop()
// The completion function is a preemption point (`bar.compl`), so the window between the last
// arrival and the phase publication is exposed to the scheduler.
#define VERIF_WITH_PIKA_TASKS
#include "../baton.hpp"
#include "../e1_main.hpp"

#include <pika/synchronization/barrier.hpp>

#include <cstdint>
#include <memory>

using namespace verif;

struct completion_fn
{
    void const** obj;
    void operator()() noexcept { pt("bar.compl", *obj); }
};

static void run_one(case_t const& c)
{
    int k = int(c.threads.size());
    auto* ctl = new controller(k, std::uint64_t(c.geti("seed", 1)), int(c.geti("strat", 0)));
    ctl->max_steps = std::size_t(c.geti("maxsteps", 20000));
    static void const* objp = nullptr;
    auto* bar = new pika::barrier<completion_fn>(c.geti("n", 1), completion_fn{&objp});
    // the hooks inside barrier name the object by the address of its private `base` member, the
    // harness' own events by the barrier's address: one barrier per case, two object ids (1 =
    // harness events, 2 = hook events); the driver does not compare them.
    objp = bar;
    void const* o = bar;
    ctl->name_obj(o);
    std::vector<std::function<void()>> bodies;
    for (int i = 0; i < k; ++i)
    {
        bodies.push_back([=, &c] {
            std::uint8_t token = 0;
            for (auto const& op : c.threads[i])
            {
                long long a0 = op.args.size() > 0 ? op.args[0] : 1;
                if (op.name == "arrive")
                {
                    pt("inv.arrive", o, a0);
                    token = bar->arrive(a0);
                    nt("ret", o, token);
                }
                else if (op.name == "wait")
                {
                    pt("inv.wait", o, token);
                    bar->wait(std::uint8_t(token));
                    nt("ret", o, token);
                }
                else if (op.name == "aw")
                {
                    pt("inv.aw", o);
                    bar->arrive_and_wait();
                    nt("ret", o, 0);
                }
                else if (op.name == "drop")
                {
                    pt("inv.drop", o);
                    bar->arrive_and_drop();
                    nt("ret", o, 0);
                }
            }
        });
    }
    if (c.geti("tasks", 0) != 0) run_pika_tasks(*ctl, bodies);
    run_os_threads(*ctl, bodies);
}

int main(int argc, char** argv)
{
    if (argc < 2) return 2;
    return run_case_file(argv[1], run_one);
}
