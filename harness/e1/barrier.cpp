// E1 harness for C09 (barrier part): pika::barrier<Completion> under the baton.
//
// Case header keys: n=<expected> seed= strat= maxsteps= tasks=0|1 (logical threads are OS threads
// or pika tasks).  Thread programs, ops:
//   arrive <u>   token = b.arrive(u)            (token kept by the thread)
//   wait         b.wait(token of the last arrive)
//   aw           b.arrive_and_wait()
//   drop         b.arrive_and_drop()
//   waitT <m>    b.wait(token, busy_wait_timeout)        (follow-up C09t)
//   awT <m>      b.arrive_and_wait(busy_wait_timeout)
//     m = 1: time-out 1 ns (fires at the first or second check), m = 2: 1e9 s (never fires: the
//     whole wait is the busy-wait phase), m >= 3: 3 ms, and the (m-2)-th spin_k call of the wait
//     sleeps 4 ms of real time while holding the baton, so the next time check fires (a planned,
//     replayable time-out after m-2 unsuccessful polls).  On a loaded machine the 3 ms can also
//     elapse earlier; the model accepts a time-out at every iteration, so no verdict depends on it.
// The completion function is a preemption point (`bar.compl`), so the window between the last
// arrival and the phase publication is exposed to the scheduler.
#define VERIF_WITH_PIKA_TASKS
#include "../baton.hpp"
#include "../e1_main.hpp"

#include <pika/synchronization/barrier.hpp>

#include <chrono>
#include <cstdint>
#include <memory>
#include <thread>

using namespace verif;

struct completion_fn
{
    void const** obj;
    void operator()() noexcept { pt("bar.compl", *obj); }
};

// agent of a logical thread that can let real time pass inside a chosen spin_k call
struct spin_agent : verif_agent
{
    int countdown = 0;
    using verif_agent::verif_agent;
    void spin_k(std::size_t k, char const* d) override
    {
        if (countdown > 0 && --countdown == 0) std::this_thread::sleep_for(std::chrono::milliseconds(4));
        verif_agent::spin_k(k, d);
    }
};

static std::chrono::duration<double> timeout_of(long long m, spin_agent& ag)
{
    ag.countdown = 0;
    if (m <= 1) return std::chrono::duration<double>(1e-9);
    if (m == 2) return std::chrono::duration<double>(1e9);
    ag.countdown = int(m - 2);
    return std::chrono::duration<double>(3e-3);
}

static void run_one(case_t const& c)
{
    int k = int(c.threads.size());
    auto* ctl = new controller(k, std::uint64_t(c.geti("seed", 1)), int(c.geti("strat", 0)));
    ctl->max_steps = std::size_t(c.geti("maxsteps", 20000));
    static void const* objp = nullptr;
    auto* bar = new pika::barrier<completion_fn>(c.geti("n", 1), completion_fn{&objp});
    // the hooks inside barrier name the object by the address of its private `base` member, the
    // harness' own events by the barrier's address: one barrier per case, two object ids (1 =
    // harness events, 2 = hook events); the driver does not compare them.
    objp = bar;
    void const* o = bar;
    ctl->name_obj(o);
    std::vector<std::function<void()>> bodies;
    for (int i = 0; i < k; ++i)
    {
        bodies.push_back([=, &c] {
            std::uint8_t token = 0;
            spin_agent sag(i, ctl);
            pika::execution::this_thread::detail::reset_agent sra(sag);
            for (auto const& op : c.threads[i])
            {
                long long a0 = op.args.size() > 0 ? op.args[0] : 1;
                if (op.name == "arrive")
                {
                    pt("inv.arrive", o, a0);
                    token = bar->arrive(a0);
                    nt("ret", o, token);
                }
                else if (op.name == "wait")
                {
                    pt("inv.wait", o, token);
                    bar->wait(std::uint8_t(token));
                    nt("ret", o, token);
                }
                else if (op.name == "aw")
                {
                    pt("inv.aw", o);
                    bar->arrive_and_wait();
                    nt("ret", o, 0);
                }
                else if (op.name == "waitT")
                {
                    pt("inv.waitT", o, token, a0);
                    bar->wait(std::uint8_t(token), timeout_of(a0, sag));
                    sag.countdown = 0;
                    nt("ret", o, token);
                }
                else if (op.name == "awT")
                {
                    pt("inv.awT", o, 0, a0);
                    bar->arrive_and_wait(timeout_of(a0, sag));
                    sag.countdown = 0;
                    nt("ret", o, 0);
                }
                else if (op.name == "drop")
                {
                    pt("inv.drop", o);
                    bar->arrive_and_drop();
                    nt("ret", o, 0);
                }
            }
        });
    }
    if (c.geti("tasks", 0) != 0) run_pika_tasks(*ctl, bodies);
    run_os_threads(*ctl, bodies);
}

int main(int argc, char** argv)
{
    if (argc < 2) return 2;
    return run_case_file(argv[1], run_one);
}
