// E1 harness for C03: the shared-state sender adaptors (split, split_tuple, ensure_started) and
// when_all under the baton.  The predecessor of every adaptor is a *manual* leaf sender whose
// completion is fired by a producer thread; consumers connect + start on their own threads.
//
// Build (from the framework root):
//   g++ -O1 harness/e1/split.cpp $(tools/pika_flags.sh hooks) -o build/bin/e1_split
//
// Case file:
//   case <id> kind=split|ensure_started|split_tuple seed=<n> strat=<0|1|2>
//   thread 0: complete_value <arg> ;      (or complete_error <arg> / complete_stopped <arg>)
//   thread 1: consume 0 ;
//   thread 2: consume 1 ;                 (split: 1..3 consumers; ensure_started: 1; split_tuple: <=2)
//   endcase
//   case <id> kind=when_all n=<2..4> seed=<n> strat=<..>
//   case <id> kind=when_all_vector n=<0..4> seed=<n> strat=<..>   (C03w; thread programs as for when_all)
//   thread 0: start ;
//   thread t+1: complete_<ch> <t> <arg> ;
//   endcase
//   case <id> kind=schedule_from|let_value|let_error seed=<n> strat=<..> [life=1] [sthrow=1] [fthrow=1]
//                                (C03x: life cycle of the schedule_from / let_value / let_error operation state;
//                                 let kinds: sched_<ch> completes the successor; sthrow: storing the value throws,
//                                 fthrow: the user function throws)
//   thread a: start ;   thread b: complete_<ch> 0 <arg> ;   thread c: sched_<ch> <arg> ;   (ops may share threads;
//   a completion requested before its operation state was started is delivered inline inside that start)
//   endcase
// Channels: 0 = value, 1 = stopped, 2 = error.
// Harness events: inv.complete idx arg / inv.consume k 0 / inv.start 0 0 / ret,
//   fire.value|fire.stopped|fire.error idx arg, rcv.value k v / rcv.error k code / rcv.stopped k 0.
#include "../baton.hpp"
#include "../e1_main.hpp"

#include <pika/execution.hpp>

#include <atomic>
#include <csignal>
#include <cstring>
#include <signal.h>
#include <sys/mman.h>
#include <exception>
#include <functional>
#include <memory>
#include <string>
#include <tuple>
#include <type_traits>
#include <utility>
#include <vector>

namespace ex = pika::execution::experimental;
using namespace verif;

struct verif_exc
{
    long long code;
};
static long long code_of(std::exception_ptr const& ep)
{
    try
    {
        std::rethrow_exception(ep);
    }
    catch (verif_exc const& e)
    {
        return e.code;
    }
    catch (...)
    {
        return -1;    // foreign exception
    }
}

// ---------------------------------------------------------------- COUNTED VALUE (C03x)
// The value type of the schedule_from cases: a copy / move construction is the adaptor storing the value in its
// operation state (`ts.emplace`): preemption point + line `sf.store`; the destruction of such a stored instance
// is the line `sf.tsdtor`.  Temporaries made from an int (the leaf's argument) are silent.
static bool g_store_throws = false;    // let kinds, case attribute sthrow=1: storing the value throws verif_exc{41}
static int store_point(int v, int copy)
{
    if (g_store_throws)
    {
        verif::pt("lt.storethrow", nullptr, 41, 0);
        throw verif_exc{41};
    }
    verif::pt("sf.store", nullptr, v, copy);
    return v;
}
struct cval
{
    int v;
    bool stored;
    explicit cval(int v_) noexcept
      : v(v_)
      , stored(false)
    {
    }
    cval(cval&& o)
      : v(store_point(o.v, 0))
      , stored(true)
    {
    }
    cval(cval const& o)
      : v(store_point(o.v, 1))
      , stored(true)
    {
    }
    cval& operator=(cval&&) = delete;
    cval& operator=(cval const&) = delete;
    ~cval()
    {
        if (stored) verif::nt("sf.tsdtor", nullptr, v, 0);
    }
};

// ---------------------------------------------------------------- MANUAL LEAF
struct trigger
{
    int idx;
    bool armed = false;
    bool has_pending = false;
    int pch = 0;
    long long parg = 0;
    std::function<void(int ch, long long arg)> fire_fn;
};

static void fire(trigger* t, int ch, long long arg)
{
    nt(ch == 0 ? "fire.value" : ch == 1 ? "fire.stopped" : "fire.error", nullptr, t->idx, arg);
    t->fire_fn(ch, arg);
}

template <class R, class Val>
struct manual_op
{
    std::decay_t<R> r;
    trigger* t;

    manual_op(manual_op&&) = delete;
    manual_op& operator=(manual_op&&) = delete;
    template <class R_>
    manual_op(R_&& r_, trigger* t_)
      : r(std::forward<R_>(r_))
      , t(t_)
    {
    }

    void start() & noexcept
    {
        // the lambda lives in the (leaked) trigger, not in this operation state: the adaptor may
        // destroy the operation state from inside the completion call (os.reset())
        t->fire_fn = [this](int ch, long long arg) {
            auto rr = std::move(r);    // receiver on the stack before it is completed
            if (ch == 0)
            {
                if constexpr (std::is_same_v<Val, int>) ex::set_value(std::move(rr), int(arg));
                else if constexpr (std::is_same_v<Val, cval>) ex::set_value(std::move(rr), cval(int(arg)));
                else ex::set_value(std::move(rr), std::tuple<int, int>(int(arg), int(arg) + 100));
            }
            else if (ch == 2)
                ex::set_error(std::move(rr), std::make_exception_ptr(verif_exc{arg}));
            else
                ex::set_stopped(std::move(rr));
        };
        t->armed = true;
        if (t->has_pending) fire(t, t->pch, t->parg);
    }
};

template <class Val>
struct manual_sender
{
    PIKA_STDEXEC_SENDER_CONCEPT
    template <template <class...> class Tuple, template <class...> class Variant>
    using value_types = Variant<Tuple<Val>>;
    template <template <class...> class Variant>
    using error_types = Variant<std::exception_ptr>;
    static constexpr bool sends_done = true;

    trigger* t;

    template <class R>
    manual_op<R, Val> connect(R&& r) const
    {
        return {std::forward<R>(r), t};
    }
};

// ---------------------------------------------------------------- TERMINAL RECEIVER
// payload encoding of a value completion: sum v_i * 16^i over the values (when_all) / the elements of the one
// vector (when_all_vector; the empty vector encodes as 0)
template <class T>
static void enc_add(long long& enc, long long& mul, T const& v)
{
    if constexpr (std::is_same_v<std::decay_t<T>, cval>)
    {
        enc += (long long) v.v * mul;
        mul *= 16;
    }
    else if constexpr (std::is_same_v<std::decay_t<T>, std::vector<int>>)
    {
        for (int x : v)
        {
            enc += (long long) x * mul;
            mul *= 16;
        }
    }
    else
    {
        enc += (long long) v * mul;
        mul *= 16;
    }
}

struct term_recv
{
    PIKA_STDEXEC_RECEIVER_CONCEPT
    int k;

    template <class... Ts>
    void set_value(Ts&&... ts) && noexcept
    {
        // one value: v; n values (when_all): sum v_i * 16^i
        long long enc = 0, mul = 1;
        (enc_add(enc, mul, ts), ...);
        nt("rcv.value", nullptr, k, enc);
    }
    template <class E>
    void set_error(E&& e) && noexcept
    {
        if constexpr (std::is_same_v<std::decay_t<E>, std::exception_ptr>)
            nt("rcv.error", nullptr, k, code_of(e));
        else
            nt("rcv.error", nullptr, k, -2);
    }
    void set_stopped() && noexcept { nt("rcv.stopped", nullptr, k, 0); }
    constexpr ex::empty_env get_env() const& noexcept { return {}; }
};

// ---------------------------------------------------------------- MANUAL SCHEDULER (C03x)
// `schedule(manual_scheduler)` is a sender whose operation state completes when the case's `sched_<ch>` op fires
// the trigger: on the thread of that op (= the target context), or inline inside `start()` if the op came first.
// Construction (`sf.conn`), `start()` (`sf.sstart`) and the point after arming (`sf.armed`: the completion may now
// run on another thread while this one is still inside `start()`) are preemption points; the destructor logs
// `sf.sopdtor`.  After arming `start()` does not touch its operation state again (the completion may destroy it).
template <class R, bool Succ = false>
struct sched_op
{
    std::decay_t<R> r;
    trigger* t;
    sched_op(sched_op&&) = delete;
    sched_op& operator=(sched_op&&) = delete;
    template <class R_>
    sched_op(R_&& r_, trigger* t_)
      : r(std::forward<R_>(r_))
      , t(t_)
    {
        pt(Succ ? "lt.conn" : "sf.conn", nullptr, 0, 0);
    }
    ~sched_op() { nt(Succ ? "lt.sopdtor" : "sf.sopdtor", nullptr, 0, 0); }
    void start() & noexcept
    {
        pt(Succ ? "lt.sstart" : "sf.sstart", nullptr, 0, 0);
        trigger* tt = t;
        tt->fire_fn = [this](int ch, long long arg) {
            auto rr = std::move(r);    // receiver on the stack before it is completed
            if (ch == 0)
            {
                if constexpr (Succ) ex::set_value(std::move(rr), int(arg));
                else
                    ex::set_value(std::move(rr));
            }
            else if (ch == 2)
                ex::set_error(std::move(rr), std::make_exception_ptr(verif_exc{arg}));
            else
                ex::set_stopped(std::move(rr));
        };
        tt->armed = true;
        if (tt->has_pending) fire(tt, tt->pch, tt->parg);
        else
            pt("sf.armed", nullptr, 0, 0);
    }
};
struct manual_scheduler
{
    trigger* t;
    struct sender
    {
        PIKA_STDEXEC_SENDER_CONCEPT
        template <template <class...> class Tuple, template <class...> class Variant>
        using value_types = Variant<Tuple<>>;
        template <template <class...> class Variant>
        using error_types = Variant<std::exception_ptr>;
        static constexpr bool sends_done = true;
        trigger* t;
        template <class R>
        sched_op<R> connect(R&& r) const
        {
            return {std::forward<R>(r), t};
        }
        struct env
        {
            trigger* t;
            friend manual_scheduler tag_invoke(ex::get_completion_scheduler_t<ex::set_value_t>, env const& e) noexcept
            {
                return {e.t};
            }
        };
        env get_env() const& noexcept { return {t}; }
    };
    friend sender tag_invoke(ex::schedule_t, manual_scheduler s) { return {s.t}; }
    bool operator==(manual_scheduler const& o) const noexcept { return t == o.t; }
    bool operator!=(manual_scheduler const& o) const noexcept { return !(*this == o); }
};

// ---------------------------------------------------------------- SUCCESSOR OF let_value / let_error (C03x)
// The sender the user function returns: its operation state is a `sched_op<R, true>` (lines `lt.conn`, `lt.sstart`,
// `sf.armed`, `lt.sopdtor`), completed by the case's `sched_<ch> <arg>` op with the value `arg` / an error / stopped.
struct succ_sender
{
    PIKA_STDEXEC_SENDER_CONCEPT
    template <template <class...> class Tuple, template <class...> class Variant>
    using value_types = Variant<Tuple<int>>;
    template <template <class...> class Variant>
    using error_types = Variant<std::exception_ptr>;
    static constexpr bool sends_done = true;
    trigger* t;
    template <class R>
    sched_op<R, true> connect(R&& r) const
    {
        return {std::forward<R>(r), t};
    }
};
// the user function: reads the stored value THROUGH THE REFERENCE it is given (`lt.call v`), may throw verif_exc{42}
struct let_fn
{
    trigger* t;
    bool throws;
    succ_sender operator()(cval& v) const
    {
        pt(throws ? "lt.callthrow" : "lt.call", nullptr, v.v, 42);
        if (throws) throw verif_exc{42};
        return {t};
    }
    succ_sender operator()(std::exception_ptr& ep) const
    {
        pt(throws ? "lt.callthrow" : "lt.call", nullptr, code_of(ep), 42);
        if (throws) throw verif_exc{42};
        return {t};
    }
};

// ---------------------------------------------------------------- ABORT HANDLER
// The unrepaired split/split_tuple reach PIKA_UNREACHABLE (std::terminate -> abort) when a
// consumer visits an empty variant: print what we have and report `end abort`.
static void on_abort(int)
{
    if (g_ctl != nullptr)
    {
        // no controller mutex here: the aborting thread holds the baton (and possibly the mutex)
        for (auto const& l : g_ctl->log) std::puts(l.c_str());
    }
    std::puts("end abort");
    std::fflush(stdout);
    _exit(0);
}

// ---------------------------------------------------------------- LIFETIME MODE (life=1)
// The default cases leak every sender and operation state, so nothing is ever released.  With life=1 the
// shared state of split / split_tuple / ensure_started is allocated by a guard allocator (one mmap per
// allocation; deallocate turns the pages PROT_NONE), every consumer owns its own sender object, connects it
// into a self-deleting operation state (what start_detached does) or discards it unconnected, and the
// adaptor's handle is destroyed before the threads start.  Whoever touches the shared state after its last
// reference was released faults; the SIGSEGV handler reports it as `end crash`.
struct guard_region
{
    void* p;
    std::size_t n;
};
static guard_region g_guard[64];
static std::atomic<int> g_nguard{0};
static std::atomic<int> g_released{0};
static guard_region g_opguard[64];    // operation states of self-deleting consumers (see below)
static std::atomic<int> g_nopguard{0};
static std::atomic<int> g_opreleased{0};    // guarded operation states destroyed so far (note `life.oprel`)

template <class T>
struct guard_alloc
{
    using value_type = T;
    guard_alloc() = default;
    template <class U>
    guard_alloc(guard_alloc<U> const&) noexcept
    {
    }
    T* allocate(std::size_t n)
    {
        std::size_t bytes = ((n * sizeof(T) + 4095) / 4096) * 4096;
        void* p = mmap(nullptr, bytes, PROT_READ | PROT_WRITE, MAP_PRIVATE | MAP_ANONYMOUS, -1, 0);
        if (p == MAP_FAILED) throw std::bad_alloc();
        int i = g_nguard.fetch_add(1);
        if (i < 64) g_guard[i] = {p, bytes};
        return static_cast<T*>(p);
    }
    void deallocate(T* p, std::size_t n) noexcept
    {
        std::size_t bytes = ((n * sizeof(T) + 4095) / 4096) * 4096;
        mprotect(p, bytes, PROT_NONE);    // never unmapped: the address stays poisoned for the rest of the case
        g_released.fetch_add(1);
    }
    template <class U>
    bool operator==(guard_alloc<U> const&) const noexcept
    {
        return true;
    }
    template <class U>
    bool operator!=(guard_alloc<U> const&) const noexcept
    {
        return false;
    }
};

static void on_segv(int, siginfo_t* si, void*)
{
    bool guarded = false;
    int n = g_nguard.load();
    for (int i = 0; i < n && i < 64; ++i)
        if (si->si_addr >= g_guard[i].p && si->si_addr < static_cast<char*>(g_guard[i].p) + g_guard[i].n) guarded = true;
    n = g_nopguard.load();
    for (int i = 0; i < n && i < 64; ++i)
        if (si->si_addr >= g_opguard[i].p && si->si_addr < static_cast<char*>(g_opguard[i].p) + g_opguard[i].n) guarded = true;
    if (g_ctl != nullptr)
        for (auto const& l : g_ctl->log) std::puts(l.c_str());
    std::puts(guarded ? "0 life.touch-after-release 0 0 0" : "0 life.segv 0 0 0");
    std::puts("end crash");
    std::fflush(stdout);
    _exit(0);
}

// Operation states of self-deleting consumers live in guarded memory too (one mmap each, PROT_NONE once
// deleted): adaptor code that touches a consumer's operation state - or, for when_all with life=1, the
// when_all operation state - after the completion call that destroyed it faults like a touch of the shared state.
static void* op_guard_new(std::size_t n)
{
    std::size_t bytes = ((n + 4095) / 4096) * 4096;
    void* p = mmap(nullptr, bytes, PROT_READ | PROT_WRITE, MAP_PRIVATE | MAP_ANONYMOUS, -1, 0);
    if (p == MAP_FAILED) throw std::bad_alloc();
    int i = g_nopguard.fetch_add(1);
    if (i < 64) g_opguard[i] = {p, bytes};
    return p;
}
static void op_guard_delete(void* p, std::size_t n) noexcept
{
    mprotect(p, ((n + 4095) / 4096) * 4096, PROT_NONE);
    g_opreleased.fetch_add(1);
}

template <class S>
struct self_deleting_op;
template <class S>
struct self_deleting_recv
{
    PIKA_STDEXEC_RECEIVER_CONCEPT
    self_deleting_op<S>* h;
    int k;
    template <class... Ts>
    void set_value(Ts&&... ts) && noexcept
    {
        long long enc = 0, mul = 1;
        (enc_add(enc, mul, ts), ...);
        auto* hh = h;
        nt("rcv.value", nullptr, k, enc);
        delete hh;
    }
    template <class E>
    void set_error(E&& e) && noexcept
    {
        auto* hh = h;
        if constexpr (std::is_same_v<std::decay_t<E>, std::exception_ptr>) nt("rcv.error", nullptr, k, code_of(e));
        else
            nt("rcv.error", nullptr, k, -2);
        delete hh;
    }
    void set_stopped() && noexcept
    {
        auto* hh = h;
        nt("rcv.stopped", nullptr, k, 0);
        delete hh;
    }
    constexpr ex::empty_env get_env() const& noexcept { return {}; }
};
template <class S>
struct self_deleting_op
{
    std::decay_t<decltype(ex::connect(std::declval<S>(), std::declval<self_deleting_recv<S>>()))> op;
    self_deleting_op(S&& s, int k)
      : op(ex::connect(std::move(s), self_deleting_recv<S>{this, k}))
    {
    }
    static void* operator new(std::size_t n) { return op_guard_new(n); }
    static void operator delete(void* p, std::size_t n) noexcept { op_guard_delete(p, n); }
};
template <class S>
static void start_self_deleting(S&& s, int k)
{
    auto* h = new self_deleting_op<std::decay_t<S>>(std::move(s), k);
    ex::start(h->op);
}

// Reference count of the shared state once the set-up (construction of the adaptor, copies for the consumers,
// destruction of the handle) is through: first line of the log, `0 life.init <obj> <count> 0`.  The hooks
// sh.ref / sh.unref / sh.free log every later change, so the driver's ownership model starts from this count.
template <class State>
static void note_init(controller* ctl, State* st)
{
    ctl->name_obj(st);
    ctl->logf(0, "life.init", ctl->obj(st), static_cast<long>(st->reference_count), 0);
}

// ---------------------------------------------------------------- CASES
static int channel_of(std::string const& name)    // complete_<ch>
{
    if (name == "complete_value") return 0;
    if (name == "complete_stopped") return 1;
    if (name == "complete_error") return 2;
    return -1;
}

static void do_complete(trigger* t, int ch, long long arg)
{
    pt("inv.complete", nullptr, t->idx, arg);
    if (t->armed) fire(t, ch, arg);
    else
    {
        t->has_pending = true;
        t->pch = ch;
        t->parg = arg;
    }
    nt("ret", nullptr, 0, 0);
}

// schedule_from cases (C03x): a request that arrives before its operation state was started only marks the
// trigger (`ret.pending`: not a model event); otherwise the completion runs on this thread
static void do_complete_sf(trigger* t, int ch, long long arg)
{
    pt(t->idx == 0 ? "inv.complete" : "inv.sched", nullptr, t->idx, arg);
    if (t->armed)
    {
        fire(t, ch, arg);
        nt("ret", nullptr, 0, 0);
    }
    else
    {
        t->has_pending = true;
        t->pch = ch;
        t->parg = arg;
        nt("ret.pending", nullptr, 0, 0);
    }
}
static int sched_channel_of(std::string const& name)    // sched_<ch>
{
    if (name == "sched_value") return 0;
    if (name == "sched_stopped") return 1;
    if (name == "sched_error") return 2;
    return -1;
}

using consume_fn = std::function<void(int k)>;    // connect + start for consumer k

template <std::size_t... Is>
static std::function<void()> make_when_all(std::vector<trigger*> const& trg, std::index_sequence<Is...>)
{
    auto* op = new auto(ex::connect(ex::when_all(manual_sender<int>{trg[Is]}...), term_recv{0}));
    return [op] { ex::start(*op); };
}

// when_all with life=1: the when_all operation state is self-deleting (destroyed inside the completion call of
// the downstream receiver, by whichever predecessor thread finishes last) and lives in guarded memory
template <std::size_t... Is>
static std::function<void()> make_when_all_life(std::vector<trigger*> const& trg, std::index_sequence<Is...>)
{
    auto snd = ex::when_all(manual_sender<int>{trg[Is]}...);
    using S = decltype(snd);
    auto* h = new self_deleting_op<S>(std::move(snd), 0);
    return [h] { ex::start(h->op); };
}

// when_all_vector (C03w): any number of predecessors incl. none (`start()` then completes the receiver itself);
// life=1: self-deleting operation state in guarded memory, as for when_all
static std::function<void()> make_when_all_vector(std::vector<trigger*> const& trg, bool life)
{
    std::vector<manual_sender<int>> v;
    for (auto* t : trg) v.push_back(manual_sender<int>{t});
    auto snd = ex::when_all_vector(std::move(v));
    using S = decltype(snd);
    if (life)
    {
        auto* h = new self_deleting_op<S>(std::move(snd), 0);
        return [h] { ex::start(h->op); };
    }
    auto* op = new auto(ex::connect(std::move(snd), term_recv{0}));
    return [op] { ex::start(*op); };
}

static void install_segv_handler()
{
    struct sigaction sa;
    std::memset(&sa, 0, sizeof(sa));
    sa.sa_sigaction = on_segv;
    sa.sa_flags = SA_SIGINFO;
    sigaction(SIGSEGV, &sa, nullptr);
    sigaction(SIGBUS, &sa, nullptr);
}

static void run_one(case_t const& c)
{
    std::signal(SIGABRT, on_abort);
    int k = int(c.threads.size());
    auto* ctl = new controller(k, std::uint64_t(c.geti("seed", 1)), int(c.geti("strat", 0)));
    ctl->max_steps = std::size_t(c.geti("maxsteps", 20000));
    std::string kind = c.gets("kind", "split");

    std::vector<trigger*> trg;
    consume_fn consume, discard;
    std::function<void()> start_wa;

    if (kind == "let_value" || kind == "let_error")
    {
        // trg[0]: the predecessor (manual leaf sending a counted value), trg[1]: the successor the user function returns
        trg.push_back(new trigger{0});
        trg.push_back(new trigger{1});
        g_store_throws = c.geti("sthrow", 0) != 0;
        let_fn f{trg[1], c.geti("fthrow", 0) != 0};
        bool const life = c.geti("life", 0) != 0;
        if (life) install_segv_handler();
        auto mk = [&](auto snd) {
            using S = decltype(snd);
            if (life)
            {
                auto* h = new self_deleting_op<S>(std::move(snd), 0);
                start_wa = [h] { ex::start(h->op); };
            }
            else
            {
                auto* op = new auto(ex::connect(std::move(snd), term_recv{0}));
                start_wa = [op] { ex::start(*op); };
            }
        };
        if (kind == "let_value") mk(ex::let_value(manual_sender<cval>{trg[0]}, f));
        else
            mk(ex::let_error(manual_sender<cval>{trg[0]}, f));
    }
    else if (kind == "schedule_from")
    {
        // trg[0]: the predecessor (manual leaf sending a counted value), trg[1]: the scheduler
        trg.push_back(new trigger{0});
        trg.push_back(new trigger{1});
        // sthrow=1: storing the predecessor's value throws (finding C03x-1: schedule_from then terminates)
        g_store_throws = c.geti("sthrow", 0) != 0;
        auto snd = ex::schedule_from(manual_scheduler{trg[1]}, manual_sender<cval>{trg[0]});
        using S = decltype(snd);
        if (c.geti("life", 0) != 0)
        {
            install_segv_handler();
            auto* h = new self_deleting_op<S>(std::move(snd), 0);
            start_wa = [h] { ex::start(h->op); };
        }
        else
        {
            auto* op = new auto(ex::connect(std::move(snd), term_recv{0}));
            start_wa = [op] { ex::start(*op); };
        }
    }
    else if (kind == "when_all_vector")
    {
        int n = int(c.geti("n", 2));
        if (n < 0) n = 0;
        if (n > 4) n = 4;
        for (int i = 0; i < n; ++i) trg.push_back(new trigger{i});
        bool const life = c.geti("life", 0) != 0;
        if (life) install_segv_handler();
        start_wa = make_when_all_vector(trg, life);
    }
    else if (kind == "when_all")
    {
        int n = int(c.geti("n", 2));
        if (n < 2) n = 2;
        if (n > 4) n = 4;
        for (int i = 0; i < n; ++i) trg.push_back(new trigger{i});
        if (c.geti("life", 0) != 0)
        {
            install_segv_handler();
            if (n == 2) start_wa = make_when_all_life(trg, std::make_index_sequence<2>{});
            else if (n == 3) start_wa = make_when_all_life(trg, std::make_index_sequence<3>{});
            else start_wa = make_when_all_life(trg, std::make_index_sequence<4>{});
        }
        else if (n == 2) start_wa = make_when_all(trg, std::make_index_sequence<2>{});
        else if (n == 3) start_wa = make_when_all(trg, std::make_index_sequence<3>{});
        else start_wa = make_when_all(trg, std::make_index_sequence<4>{});
    }
    else
    {
        trg.push_back(new trigger{0});
        trigger* t0 = trg[0];
        bool const life = c.geti("life", 0) != 0;
        if (life)
        {
            struct sigaction sa;
            std::memset(&sa, 0, sizeof(sa));
            sa.sa_sigaction = on_segv;
            sa.sa_flags = SA_SIGINFO;
            sigaction(SIGSEGV, &sa, nullptr);
            sigaction(SIGBUS, &sa, nullptr);
        }
        if (life && kind == "split")
        {
            using S = decltype(ex::split(manual_sender<int>{t0}, guard_alloc<int>{}));
            auto* s = new auto(ex::split(manual_sender<int>{t0}, guard_alloc<int>{}));
            ctl->name_obj(s->state.get());
            // one copy per consumer index that the program consumes or discards (others would pin the state)
            auto* mine = new std::vector<S*>(4, nullptr);
            for (auto const& th : c.threads)
                for (auto const& op : th)
                    if ((op.name == "consume" || op.name == "discard") && !op.args.empty() &&
                        (*mine)[std::size_t(op.args[0]) & 3] == nullptr)
                        (*mine)[std::size_t(op.args[0]) & 3] = new S(*s);
            auto* st0 = s->state.get();
            delete s;    // the handle the user got is gone before anything starts
            note_init(ctl, st0);
            consume = [mine](int kk) {
                S* x = (*mine)[std::size_t(kk) & 3];
                (*mine)[std::size_t(kk) & 3] = nullptr;
                if (x == nullptr) return;
                start_self_deleting(std::move(*x), kk);
                delete x;
            };
            discard = [mine](int kk) {
                S* x = (*mine)[std::size_t(kk) & 3];
                (*mine)[std::size_t(kk) & 3] = nullptr;
                delete x;
            };
        }
        else if (life && kind == "ensure_started")
        {
            auto* s = new auto(ex::ensure_started(manual_sender<int>{t0}, guard_alloc<int>{}));
            ctl->name_obj(s->state.get());
            note_init(ctl, s->state.get());
            consume = [s](int kk) {
                start_self_deleting(std::move(*s), kk);
                delete s;
            };
            discard = [s](int) { delete s; };
        }
        else if (life && kind == "split_tuple")
        {
            auto* tup = new auto(ex::split_tuple(manual_sender<std::tuple<int, int>>{t0}, guard_alloc<int>{}));
            ctl->name_obj(std::get<0>(*tup).state.get());
            auto* e0 = new auto(std::get<0>(std::move(*tup)));
            auto* e1 = new auto(std::get<1>(std::move(*tup)));
            delete tup;
            note_init(ctl, e0->state.get());
            consume = [e0, e1](int kk) {
                if (kk == 0)
                {
                    start_self_deleting(std::move(*e0), kk);
                    delete e0;
                }
                else
                {
                    start_self_deleting(std::move(*e1), kk);
                    delete e1;
                }
            };
            discard = [e0, e1](int kk) {
                if (kk == 0) delete e0;
                else
                    delete e1;
            };
        }
        else if (kind == "split")
        {
            auto* s = new auto(ex::split(manual_sender<int>{t0}));
            ctl->name_obj(s->state.get());
            note_init(ctl, s->state.get());
            consume = [s](int kk) {
                auto copy = *s;
                auto* op = new auto(ex::connect(std::move(copy), term_recv{kk}));
                ex::start(*op);
            };
        }
        else if (kind == "ensure_started")
        {
            // starts the leaf right here: the trigger is armed during setup
            auto* s = new auto(ex::ensure_started(manual_sender<int>{t0}));
            ctl->name_obj(s->state.get());
            note_init(ctl, s->state.get());
            consume = [s](int kk) {
                auto* op = new auto(ex::connect(std::move(*s), term_recv{kk}));
                ex::start(*op);
            };
        }
        else if (kind == "split_tuple")
        {
            auto* tup = new auto(ex::split_tuple(manual_sender<std::tuple<int, int>>{t0}));
            ctl->name_obj(std::get<0>(*tup).state.get());
            note_init(ctl, std::get<0>(*tup).state.get());
            consume = [tup](int kk) {
                if (kk == 0)
                {
                    auto* op = new auto(ex::connect(std::get<0>(std::move(*tup)), term_recv{kk}));
                    ex::start(*op);
                }
                else
                {
                    auto* op = new auto(ex::connect(std::get<1>(std::move(*tup)), term_recv{kk}));
                    ex::start(*op);
                }
            };
        }
        else
        {
            std::printf("bad-case unknown kind %s\nend ok\n", kind.c_str());
            std::fflush(stdout);
            _exit(0);
        }
    }

    bool const sf = kind == "schedule_from" || kind == "let_value" || kind == "let_error";
    bool wa = kind == "when_all" || kind == "when_all_vector" || sf;
    bool const life_mode = !wa && c.geti("life", 0) != 0;
    bool const wa_life = wa && c.geti("life", 0) != 0;
    std::vector<std::function<void()>> bodies;
    for (int i = 0; i < k; ++i)
    {
        bodies.push_back([=, &c, &trg, &consume, &discard, &start_wa] {
            for (auto const& op : c.threads[i])
            {
                int ch = channel_of(op.name);
                if (sf && (ch >= 0 || sched_channel_of(op.name) >= 0))
                {
                    // complete_<ch> 0 arg (predecessor) / sched_<ch> arg (scheduler)
                    if (ch >= 0) do_complete_sf(trg[0], ch, op.args.size() > 1 ? op.args[1] : 0);
                    else
                        do_complete_sf(trg[1], sched_channel_of(op.name), op.args.size() > 0 ? op.args[0] : 0);
                }
                else if (ch >= 0)
                {
                    // when_all: complete_<ch> idx arg;  shared-state kinds: complete_<ch> arg
                    long long idx = 0, arg = 0;
                    if (wa)
                    {
                        idx = op.args.size() > 0 ? op.args[0] : 0;
                        arg = op.args.size() > 1 ? op.args[1] : 0;
                    }
                    else { arg = op.args.size() > 0 ? op.args[0] : 0; }
                    if (idx < 0 || idx >= (long long) trg.size()) idx = 0;
                    if (trg.empty()) continue;
                    do_complete(trg[std::size_t(idx)], ch, arg);
                }
                else if (op.name == "consume" && consume)
                {
                    int kk = int(op.args.size() > 0 ? op.args[0] : 0);
                    pt("inv.consume", nullptr, kk, 0);
                    consume(kk);
                    nt("ret", nullptr, kk, 0);
                }
                else if (op.name == "discard" && discard)
                {
                    // destroy consumer kk's sender without ever connecting it (life=1 only; not a model event)
                    int kk = int(op.args.size() > 0 ? op.args[0] : 0);
                    pt("inv.discard", nullptr, kk, 0);
                    discard(kk);
                    nt("ret.discard", nullptr, kk, 0);
                }
                else if (op.name == "start" && start_wa)
                {
                    pt("inv.start", nullptr, 0, 0);
                    start_wa();
                    nt("ret", nullptr, 0, 0);
                }
            }
            // life=1: how many guarded shared states exist / were released when this thread is through
            // (the last such note of the log is the final count)
            if (life_mode) nt("life.rel", nullptr, g_released.load(), g_nguard.load());
            // when_all / when_all_vector with life=1: guarded operation states destroyed / allocated so far
            if (wa_life) nt("life.oprel", nullptr, g_opreleased.load(), g_nopguard.load());
        });
    }
    run_os_threads(*ctl, bodies);
}

int main(int argc, char** argv)
{
    if (argc < 2)
    {
        std::fprintf(stderr, "usage: %s <case-file>\n", argv[0]);
        return 2;
    }
    return run_case_file(argv[1], run_one);
}
