// E1 harness for C14 (concurrency half): one stop state, real pika::stop_source /
// stop_token / stop_callback objects driven by logical threads under the baton.
//
// case <id> mode=os|pika seed=.. strat=.. ncb=M cb0=op:arg,op:arg cb1=...
// thread i: rs ; reg c ; unreg c ; q ; addsrc ; dropsrc ; pt ;
//
// `cbN=` is the script callback N runs when it is invoked (same operation vocabulary; an
// operation on a slot that is not in the right life-cycle state is skipped, which keeps every
// program legal: a callback is constructed once, destroyed at most once and only after its
// constructor returned).  Callback objects live in storage that is never released, so a late
// invocation is observed instead of crashing.
#define VERIF_WITH_PIKA_TASKS
#include "../baton.hpp"
#include "../e1_main.hpp"

#include <pika/synchronization/stop_token.hpp>

#include <memory>
#include <new>
#include <optional>
#include <sstream>

using namespace verif;

struct ctx;
struct fn
{
    ctx* c;
    int idx;
    void operator()() const;
};
using cb_t = pika::stop_callback<fn>;

struct slot_t
{
    alignas(alignof(cb_t)) unsigned char buf[sizeof(cb_t)];
    int life = 0;    // 0 new, 1 in constructor, 2 live, 3 in destructor, 4 dead
    std::vector<op_t> script;
};

struct ctx
{
    std::optional<pika::stop_token> tok;
    std::vector<std::vector<pika::stop_source>> srcs;    // per logical thread
    std::vector<slot_t> slots;
    void run(op_t const& op);
};

void ctx::run(op_t const& op)
{
    int me = my_tid;
    long long a0 = op.args.empty() ? 0 : op.args[0];
    if (op.name == "rs")
    {
        if (srcs[me].empty()) return;
        pt("inv.rs");
        bool r = srcs[me].back().request_stop();
        nt("ret", nullptr, r);
    }
    else if (op.name == "reg")
    {
        if (a0 < 0 || a0 >= (long long) slots.size()) return;
        slot_t& s = slots[a0];
        if (s.life != 0) return;
        s.life = 1;
        pt("inv.reg", s.buf);
        new (s.buf) cb_t(*tok, fn{this, int(a0)});
        s.life = 2;
        nt("ret", s.buf, 0);
    }
    else if (op.name == "unreg")
    {
        if (a0 < 0 || a0 >= (long long) slots.size()) return;
        slot_t& s = slots[a0];
        if (s.life != 2) return;
        s.life = 3;
        pt("inv.unreg", s.buf);
        reinterpret_cast<cb_t*>(s.buf)->~cb_t();
        s.life = 4;
        nt("ret", s.buf, 0);
    }
    else if (op.name == "q")
    {
        pt("inv.q");
        nt("q", nullptr, tok->stop_requested(), tok->stop_possible());
    }
    else if (op.name == "addsrc")
    {
        if (srcs[me].empty()) return;
        pt("src.inc");
        srcs[me].push_back(srcs[me].front());
    }
    else if (op.name == "dropsrc")
    {
        if (srcs[me].empty()) return;
        pt("src.dec");
        srcs[me].pop_back();
    }
    else if (op.name == "pt") { pt("nop"); }
}

void fn::operator()() const
{
    ctx* cc = c;
    int i = idx;
    void* addr = cc->slots[i].buf;
    pt("cb.begin", addr);
    for (auto const& op : cc->slots[i].script) cc->run(op);
    nt("cb.end", addr);
}

static std::vector<op_t> parse_script(std::string const& s)
{
    std::vector<op_t> out;
    std::istringstream is(s);
    std::string item;
    while (std::getline(is, item, ','))
    {
        if (item.empty()) continue;
        op_t o;
        auto p = item.find(':');
        o.name = item.substr(0, p);
        if (p != std::string::npos) o.args.push_back(std::atoll(item.c_str() + p + 1));
        out.push_back(o);
    }
    return out;
}

static void run_one(case_t const& c)
{
    int k = int(c.threads.size());
    auto* ctl = new controller(k, std::uint64_t(c.geti("seed", 1)), int(c.geti("strat", 0)));
    ctl->max_steps = std::size_t(c.geti("maxsteps", 20000));
    int m = int(c.geti("ncb", 4));
    auto* cx = new ctx;
    cx->slots.resize(m);
    for (int i = 0; i < m; ++i)
    {
        cx->slots[i].script = parse_script(c.gets("cb" + std::to_string(i), ""));
        ctl->name_obj(cx->slots[i].buf);    // object id of callback i is i+1
    }
    {
        pika::stop_source main_src;
        cx->tok.emplace(main_src.get_token());
        cx->srcs.resize(k);
        for (int i = 0; i < k; ++i) cx->srcs[i].push_back(main_src);
    }    // K sources remain, one per logical thread
    std::vector<std::function<void()>> bodies;
    for (int i = 0; i < k; ++i)
    {
        bodies.push_back([=, &c] {
            for (auto const& op : c.threads[i]) cx->run(op);
        });
    }
    if (c.gets("mode", "os") == "pika") run_pika_tasks(*ctl, bodies);
    else run_os_threads(*ctl, bodies);
}

int main(int argc, char** argv)
{
    if (argc < 2) return 2;
    return run_case_file(argv[1], run_one);
}
