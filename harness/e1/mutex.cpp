// E1 harness for C06: pika::mutex / timed_mutex (pika tasks: the code compares task ids),
// recursive_mutex and the bare spinlock (plain OS threads) under the baton.
//
// Case header: kind=mutex|timed|recursive|spin seed=.. strat=..
// Thread programs: lock | trylock | timed | unlock | yield      (mutex, timed)
//                  rlock | rtry | runlock | yield               (recursive)
//                  slock | stry | sunlock | yield               (spin)
// Critical sections are marked from the program's point of view only (reported results):
// after a lock-type call reported success the task passes the point `cs.pre`, increments the
// shared occupancy counter and logs `cs.enter <occupancy>`; it reads the unprotected datum,
// and before it invokes the releasing call it writes datum = read value + 1, decrements the
// counter and logs `cs.exit <occupancy> <datum>`.
#define VERIF_WITH_PIKA_TASKS
#include "../baton.hpp"
#include "../e1_main.hpp"

#include <pika/concurrency/spinlock.hpp>
#include <pika/modules/errors.hpp>
#include <pika/mutex.hpp>
#include <pika/synchronization/recursive_mutex.hpp>

#include <chrono>
#include <exception>

using namespace verif;

static int occupancy = 0;      // tasks inside a critical section (harness bookkeeping)
static long long datum = 0;    // unprotected shared datum, only touched inside critical sections

struct local_t
{
    bool in_cs = false;
    int depth = 0;
    long long seen = 0;
};

static void cs_enter(void* o, local_t& st)
{
    if (st.in_cs) return;
    pt("cs.pre", o);
    st.in_cs = true;
    st.seen = datum;
    nt("cs.enter", o, ++occupancy, st.seen);
}
static void cs_exit(void* o, local_t& st)
{
    if (!st.in_cs) return;
    st.in_cs = false;
    datum = st.seen + 1;
    nt("cs.exit", o, --occupancy, datum);
}

static int err_code(std::exception_ptr ep)
{
    try
    {
        std::rethrow_exception(ep);
    }
    catch (pika::exception const& e)
    {
        if (e.get_error() == pika::error::deadlock) return 2;
        if (e.get_error() == pika::error::lock_error) return 3;
        return 9;
    }
    catch (...)
    {
        return 8;
    }
}

static int ec_code(pika::error_code const& ec)
{
    if (!ec) return 1;
    if (ec.value() == static_cast<int>(pika::error::deadlock)) return 2;
    if (ec.value() == static_cast<int>(pika::error::lock_error)) return 3;
    return 9;
}

static void run_one(case_t const& c)
{
    // ec=1: the case uses the non-throwing overloads (caller-supplied error_code); the log is the same
    bool const use_ec = c.geti("ec", 0) != 0;
    int k = int(c.threads.size());
    auto* ctl = new controller(k, std::uint64_t(c.geti("seed", 1)), int(c.geti("strat", 0)));
    ctl->max_steps = std::size_t(c.geti("maxsteps", 20000));
    std::string kind = c.gets("kind", "mutex");
    auto* mx = new pika::mutex;
    auto* tmx = new pika::timed_mutex;
    auto* rmx = new pika::detail::recursive_mutex_impl<>;
    auto* sl = new pika::concurrency::detail::spinlock;
    bool timed = kind == "timed";
    void* o = kind == "mutex" ? (void*) mx :
        kind == "timed"       ? (void*) tmx :
        kind == "recursive"   ? (void*) rmx :
                                (void*) sl;
    ctl->name_obj(o);
    std::vector<std::function<void()>> bodies;
    for (int i = 0; i < k; ++i)
    {
        bodies.push_back([=, &c] {
            local_t st;
            for (auto const& op : c.threads[i])
            {
                try
                {
                    if (op.name == "yield") { pt("cs.yield", o); }
                    // ---- pika::mutex / pika::timed_mutex --------------------------------
                    else if (op.name == "lock")
                    {
                        pt("inv.lock", o);
                        int r = 1;
                        try
                        {
                            if (use_ec)
                            {
                                pika::error_code ec(pika::throwmode::lightweight);
                                if (timed) tmx->lock(ec);
                                else mx->lock(ec);
                                r = ec_code(ec);
                            }
                            else if (timed) tmx->lock();
                            else mx->lock();
                        }
                        catch (...)
                        {
                            r = err_code(std::current_exception());
                        }
                        nt("ret", o, r);
                        if (r == 1) cs_enter(o, st);
                    }
                    else if (op.name == "trylock")
                    {
                        pt("inv.trylock", o);
                        bool r;
                        if (use_ec)
                        {
                            pika::error_code ec(pika::throwmode::lightweight);
                            r = timed ? tmx->try_lock(ec) : mx->try_lock(ec);
                        }
                        else
                            r = timed ? tmx->try_lock() : mx->try_lock();
                        nt("ret", o, r);
                        if (r) cs_enter(o, st);
                    }
                    else if (op.name == "timed")
                    {
                        pt("inv.timed", o);
                        bool r = tmx->try_lock_for(std::chrono::seconds(1));
                        nt("ret", o, r);
                        if (r) cs_enter(o, st);
                    }
                    else if (op.name == "unlock")
                    {
                        cs_exit(o, st);
                        pt("inv.unlock", o);
                        int r = 1;
                        try
                        {
                            if (use_ec)
                            {
                                pika::error_code ec(pika::throwmode::lightweight);
                                if (timed) tmx->unlock(ec);
                                else mx->unlock(ec);
                                r = ec_code(ec);
                            }
                            else if (timed) tmx->unlock();
                            else mx->unlock();
                        }
                        catch (...)
                        {
                            r = err_code(std::current_exception());
                        }
                        nt("ret", o, r);
                    }
                    // ---- recursive mutex ------------------------------------------------
                    else if (op.name == "rlock")
                    {
                        pt("inv.rlock", o);
                        rmx->lock();
                        nt("ret", o, 1);
                        ++st.depth;
                        cs_enter(o, st);
                    }
                    else if (op.name == "rtry")
                    {
                        pt("inv.rtry", o);
                        bool r = rmx->try_lock();
                        nt("ret", o, r);
                        if (r)
                        {
                            ++st.depth;
                            cs_enter(o, st);
                        }
                    }
                    else if (op.name == "runlock")
                    {
                        // unlock() by a non-owner is outside recursive_mutex' contract (and is
                        // not detected by the code): the program only unlocks what it holds
                        if (st.depth > 0)
                        {
                            if (st.depth == 1) cs_exit(o, st);
                            --st.depth;
                            pt("inv.runlock", o);
                            rmx->unlock();
                            nt("ret", o, 1);
                        }
                    }
                    // ---- bare spinlock --------------------------------------------------
                    else if (op.name == "slock")
                    {
                        if (st.depth == 0)    // re-locking a held spinlock spins for ever
                        {
                            pt("inv.slock", o);
                            sl->lock();
                            nt("ret", o, 1);
                            st.depth = 1;
                            cs_enter(o, st);
                        }
                    }
                    else if (op.name == "stry")
                    {
                        pt("inv.stry", o);
                        bool r = sl->try_lock();
                        nt("ret", o, r);
                        if (r)
                        {
                            st.depth = 1;
                            cs_enter(o, st);
                        }
                    }
                    else if (op.name == "sunlock")
                    {
                        if (st.depth > 0)
                        {
                            cs_exit(o, st);
                            st.depth = 0;
                            pt("inv.sunlock", o);
                            sl->unlock();
                            nt("ret", o, 1);
                        }
                    }
                }
                catch (...)
                {
                    nt("exc", o, err_code(std::current_exception()));
                }
            }
        });
    }
    if (kind == "mutex" || kind == "timed") run_pika_tasks(*ctl, bodies);
    else run_os_threads(*ctl, bodies);
}

int main(int argc, char** argv)
{
    if (argc < 2) return 2;
    return run_case_file(argv[1], run_one);
}
