// E1 harness for C07: pika::condition_variable / condition_variable_any under the baton.
//
// Case header keys:
//   cv=plain|any      which class (pika::condition_variable with std::unique_lock<M>, or
//                     pika::condition_variable_any)
//   lock=user|userraw|spin
//                     user    : std::unique_lock<ulock_t> (ulock_t = harness-defined lock)
//                     userraw : ulock_t itself as the Lock of condition_variable_any
//                     spin    : std::unique_lock<pika::concurrency::detail::spinlock>
//   flag=0|1          initial value of the shared variable the predicate reads
//   script=i,j,...    directed schedule prefix (thread ids; an id that is not schedulable is skipped)
//   mode=os|pika      logical threads are plain OS threads (default) or pika tasks (own task ids:
//                     the other branch of stop_state::remove_callback's thread comparison)
//   cv=detail         (follow-up C07d) one pika::detail::condition_variable used directly with its spinlock,
//                     ops dwait ; dtwait ; dn1 ; dnall ; abortall  (model=cvabort, Model/CVAbort.lean):
//                     dwait/dtwait = lock; cond.wait(l) / wait_for(l, 1s); the exception of an aborted
//                     suspend is caught (note `cv.threw`, logged while the lock is held again), result
//                     0 signaled / 1 timeout / 2 threw; abortall = lock; cond.abort_all(std::move(l))
// Thread ops: lock ; unlock ; set v ; n1 ; nall ; wait ; waitp ; twait ; twaitp
//   swaitp ; stwaitp ; stop
//                     (condition_variable_any only: wait(lock, stop_token, pred), wait_for(lock, stop_token,
//                     d, pred) and request_stop on one shared stop_source; part of the Lean model since
//                     follow-up C07s)
//
// Events logged by the harness itself (besides the hook events compiled into pika):
//   inv.<op> (point)   ul.lock (point) / ul.spin (point, spinning) / ul.acq / ul.rel
//   set v   pred v (point)   ret r
#define VERIF_WITH_PIKA_TASKS
#include "../baton.hpp"
#include "../e1_main.hpp"

#include <pika/concurrency/spinlock.hpp>
#include <pika/synchronization/condition_variable.hpp>
#include <pika/synchronization/detail/condition_variable.hpp>
#include <pika/synchronization/stop_token.hpp>

#include <chrono>
#include <csignal>
#include <memory>
#include <mutex>

using namespace verif;

// A user-defined lock.  One logical thread runs at a time and only gives the baton away at
// points, so test-and-set after a point is atomic.
struct ulock_t
{
    bool held = false;
    void lock()
    {
        pt("ul.lock", this);
        while (held) g_ctl->point(my_tid, "ul.spin", this, 0, 0, tstate::spinning);
        held = true;
        nt("ul.acq", this);
    }
    void unlock()
    {
        held = false;
        nt("ul.rel", this);
    }
};

template <typename CV, typename M, typename L>
static void body(case_t const& c, int i, CV* cv, M* m, bool* flag, bool raw, pika::stop_source* ssrc)
{
    L lk = [&]() -> L {
        if constexpr (std::is_same_v<L, M&>) return *m;
        else return L(*m, std::defer_lock);
    }();
    (void) raw;
    auto pred = [&] {
        pt("pred", flag, *flag);
        return *flag;
    };
    for (auto const& op : c.threads[i])
    {
        long long a0 = op.args.size() > 0 ? op.args[0] : 0;
        try
        {
            if (op.name == "lock")
            {
                pt("inv.lock", m);
                lk.lock();
            }
            else if (op.name == "unlock")
            {
                pt("inv.unlock", m);
                lk.unlock();
            }
            else if (op.name == "set")
            {
                pt("inv.set", flag, a0);
                *flag = a0 != 0;
                nt("set", flag, a0);
            }
            else if (op.name == "n1")
            {
                pt("inv.n1", cv);
                cv->notify_one();
                nt("ret", cv, 0);
            }
            else if (op.name == "nall")
            {
                pt("inv.nall", cv);
                cv->notify_all();
                nt("ret", cv, 0);
            }
            else if (op.name == "wait")
            {
                pt("inv.wait", cv);
                cv->wait(lk);
                nt("ret", cv, 0);
            }
            else if (op.name == "waitp")
            {
                pt("inv.waitp", cv);
                cv->wait(lk, pred);
                nt("ret", cv, 1);
            }
            else if (op.name == "twait")
            {
                pt("inv.twait", cv);
                pika::cv_status r = cv->wait_for(lk, std::chrono::seconds(1));
                nt("ret", cv, r == pika::cv_status::timeout ? 1 : r == pika::cv_status::no_timeout ? 0 : 2);
            }
            else if (op.name == "twaitp")
            {
                pt("inv.twaitp", cv);
                bool r = cv->wait_for(lk, std::chrono::seconds(1), pred);
                nt("ret", cv, r ? 1 : 0);
            }
            else if constexpr (std::is_same_v<CV, pika::condition_variable_any>)
            {
                if (op.name == "swaitp")
                {
                    pt("inv.swaitp", cv);
                    bool r = cv->wait(lk, ssrc->get_token(), pred);
                    nt("ret", cv, r ? 1 : 0);
                }
                else if (op.name == "stwaitp")
                {
                    pt("inv.stwaitp", cv);
                    bool r = cv->wait_for(lk, ssrc->get_token(), std::chrono::seconds(1), pred);
                    nt("ret", cv, r ? 1 : 0);
                }
                else if (op.name == "stop")
                {
                    pt("inv.stop", cv);
                    bool r = ssrc->request_stop();
                    nt("ret", cv, r ? 1 : 0);
                }
            }
        }
        catch (std::exception const& e)
        {
            nt("exc", cv);
        }
    }
}

template <typename CV, typename M, typename L>
static void run_with(case_t const& c, controller* ctl)
{
    int k = int(c.threads.size());
    auto* m = new M;
    auto* cv = new CV;
    auto* flag = new bool(c.geti("flag", 0) != 0);
    auto* ssrc = new pika::stop_source;
    // stable object ids: 1 = user lock, 2 = cv object, 3 = flag; the internal spinlock and the
    // detail cv get the next ids at first use
    ctl->name_obj(m);
    ctl->name_obj(cv);
    ctl->name_obj(flag);
    std::vector<std::function<void()>> bodies;
    for (int i = 0; i < k; ++i)
        bodies.push_back([=, &c] { body<CV, M, L>(c, i, cv, m, flag, false, ssrc); });
    if (c.gets("mode", "os") == "pika") run_pika_tasks(*ctl, bodies);
    run_os_threads(*ctl, bodies);
}

// ---- follow-up C07d: detail::condition_variable with abort_all ----------------------------
static void body_detail(case_t const& c, int i, pika::detail::condition_variable* cv,
    pika::concurrency::detail::spinlock* m)
{
    using spin = pika::concurrency::detail::spinlock;
    using rs = pika::threads::detail::thread_restart_state;
    for (auto const& op : c.threads[i])
    {
        try
        {
            if (op.name == "dwait" || op.name == "dtwait")
            {
                bool tm = op.name == "dtwait";
                pt(tm ? "inv.dtwait" : "inv.dwait", cv);
                long long r = 3;
                {
                    std::unique_lock<spin> l(*m);
                    try
                    {
                        rs st = tm ? cv->wait_for(l, pika::chrono::steady_duration(std::chrono::seconds(1))) :
                                     cv->wait(l);
                        r = st == rs::timeout ? 1 : st == rs::signaled ? 0 : 3;
                    }
                    catch (std::exception const&)
                    {
                        // suspend threw (restart state abort); the unlock_guard has re-taken the lock and
                        // ~reset_queue_entry has run: no preemption point since the sl.acq
                        nt("cv.threw", cv);
                        r = 2;
                    }
                }
                nt("ret", cv, r);
            }
            else if (op.name == "dn1" || op.name == "dnall")
            {
                bool all = op.name == "dnall";
                pt(all ? "inv.dnall" : "inv.dn1", cv);
                {
                    std::unique_lock<spin> l(*m);
                    if (all) cv->notify_all(std::move(l));
                    else cv->notify_one(std::move(l));
                }
                nt("ret", cv, 0);
            }
            else if (op.name == "abortall")
            {
                pt("inv.abortall", cv);
                {
                    std::unique_lock<spin> l(*m);
                    cv->abort_all(std::move(l));
                }
                nt("ret", cv, 0);
            }
        }
        catch (std::exception const& e)
        {
            nt("exc", cv);
        }
    }
}

// As verif::run_os_threads, but the agents are never destroyed: abort_all calls ctx.abort() AFTER it has
// released the internal lock, so the target may already have left its wait and finished (finding
// abort-after-wait-returned); with the agent on the finished thread's stack that call is a use after
// scope.  `agents=stack` in the case header selects the ordinary runner (reproduces the crash).
[[noreturn]] static void run_os_threads_leaky(controller& c, std::vector<std::function<void()>> bodies)
{
    g_ctl = &c;
#if defined(PIKA_VERIF_HOOKS)
    pika::verif::sink.store(&e1_sink);
#endif
    std::vector<std::thread> ts;
    for (int i = 0; i < c.n; ++i)
    {
        ts.emplace_back([&c, i, &bodies] {
            auto* ag = new verif_agent(i, &c);
            auto* ra = new pika::execution::this_thread::detail::reset_agent(*ag);
            (void) ra;
            c.thread_begin(i);
            bodies[i]();
            c.thread_end(i);
        });
    }
    c.start_all();
    for (;;) pause();
}

static void run_detail(case_t const& c, controller* ctl)
{
    int k = int(c.threads.size());
    auto* m = new pika::concurrency::detail::spinlock;
    auto* cv = new pika::detail::condition_variable;
    ctl->name_obj(m);
    ctl->name_obj(cv);
    std::vector<std::function<void()>> bodies;
    for (int i = 0; i < k; ++i) bodies.push_back([=, &c] { body_detail(c, i, cv, m); });
    if (c.gets("agents", "heap") == "stack") run_os_threads(*ctl, bodies);
    run_os_threads_leaky(*ctl, bodies);
}

// A crash inside the real code (e.g. a use-after-return) would lose the log; print what was logged so
// far, then die with the original signal so that the runner reports `end crash signal=N`.
static void crash_dump(int sig)
{
    if (g_ctl != nullptr)
        for (auto const& l : g_ctl->log) std::puts(l.c_str());
    std::fflush(stdout);
    signal(sig, SIG_DFL);
    raise(sig);
}

static void run_one(case_t const& c)
{
    signal(SIGSEGV, crash_dump);
    signal(SIGBUS, crash_dump);
    signal(SIGABRT, crash_dump);
    int k = int(c.threads.size());
    auto* ctl = new controller(k, std::uint64_t(c.geti("seed", 1)), int(c.geti("strat", 0)));
    ctl->max_steps = std::size_t(c.geti("maxsteps", 20000));
    {
        // script=<comma separated thread ids>: directed schedule prefix (PRNG choices afterwards)
        std::string sc = c.gets("script", "");
        std::size_t pos = 0;
        while (pos < sc.size())
        {
            std::size_t q = sc.find(',', pos);
            if (q == std::string::npos) q = sc.size();
            std::string tok = sc.substr(pos, q - pos);
            if (!tok.empty()) ctl->script.push_back(std::atoi(tok.c_str()));
            pos = q + 1;
        }
    }
    std::string cvk = c.gets("cv", "plain");
    std::string lk = c.gets("lock", "user");
    using spin = pika::concurrency::detail::spinlock;
    if (cvk == "detail") run_detail(c, ctl);
    else if (cvk == "plain")
    {
        if (lk == "spin") run_with<pika::condition_variable, spin, std::unique_lock<spin>>(c, ctl);
        else run_with<pika::condition_variable, ulock_t, std::unique_lock<ulock_t>>(c, ctl);
    }
    else
    {
        if (lk == "spin") run_with<pika::condition_variable_any, spin, std::unique_lock<spin>>(c, ctl);
        else if (lk == "userraw") run_with<pika::condition_variable_any, ulock_t, ulock_t&>(c, ctl);
        else run_with<pika::condition_variable_any, ulock_t, std::unique_lock<ulock_t>>(c, ctl);
    }
}

int main(int argc, char** argv)
{
    if (argc < 2) return 2;
    return run_case_file(argv[1], run_one);
}
