// E1 harness for C04: pika::execution::experimental::async_rw_mutex under the baton.
//
// The header under test is compiled with `std::atomic` replaced by an instrumented wrapper
// (only inside that header: everything it includes is included first), so that *every* access
// to `op_state_head` - wherever the source puts it - is a preemption point (before) and a
// logged payload (after).  No hook line is needed inside `add_op_state`, and a change of the
// loop shape is observed as it is.  The shared-state destructor and the loop in `done()` carry
// ordinary PIKA_VERIF hooks (`arw.dtor`, `arw.cont`).
//
// Program (case file): thread 0 is the owner (the only thread that calls read()/readwrite() and
// destroys the mutex).  Ops:
//   r | w            owner: request the next access (index = number of requests so far)
//   destroy          owner: destroy the mutex object
//   start a          connect the sender of access a to a logging receiver and start it
//   drop a           destroy the unstarted sender of access a (=> start_detached)
//   copy a k         copy a wrapper of (read) access a          (k = per-access sequence number)
//   write a k        ++value through the wrapper of (readwrite) access a
//   readv a k        read the value through a wrapper of access a
//   rel a k          destroy one wrapper of access a
// `start/drop a` wait for the request of a; the wrapper ops wait until access a has been granted
// and the per-access sequence number k is reached (so that the ops on one access happen in the
// order of the generated sequential history; ops on different accesses are unordered).
#include "../baton.hpp"
#include "../e1_main.hpp"

#include <pika/allocator_support/internal_allocator.hpp>
#include <pika/assert.hpp>
#include <pika/execution/algorithms/start_detached.hpp>
#include <pika/execution_base/operation_state.hpp>
#include <pika/execution_base/receiver.hpp>
#include <pika/execution_base/sender.hpp>

#include <atomic>
#include <cstddef>
#include <exception>
#include <memory>
#include <optional>
#include <type_traits>
#include <utility>
#include <vector>

namespace verif {
    inline std::ptrdiff_t g_head_off = 0;    // offset of op_state_head inside the shared state

    inline bool hooks_on() { return my_tid >= 0 && g_ctl != nullptr && !g_ctl->finished; }
}    // namespace verif

namespace std {
    // instrumented stand-in for std::atomic<void*> (the only atomic of async_rw_mutex.hpp)
    template <typename T>
    struct verif_atomic
    {
        std::atomic<T> v;
        verif_atomic() noexcept = default;
        constexpr verif_atomic(T x) noexcept
          : v(x)
        {
        }
        verif_atomic(verif_atomic const&) = delete;
        verif_atomic& operator=(verif_atomic const&) = delete;

        void const* owner() const { return reinterpret_cast<char const*>(this) - verif::g_head_off; }
        long long cls(T x) const
        {
            if (x == nullptr) return 0;
            return static_cast<void const*>(x) == owner() ? 2 : 1;
        }
        T load(std::memory_order o = std::memory_order_seq_cst) const noexcept
        {
            if (verif::hooks_on()) verif::g_ctl->point(verif::my_tid, "arw.load", owner(), 0, 0);
            T r = v.load(o);
            if (verif::hooks_on()) verif::g_ctl->note(verif::my_tid, "arw.loaded", owner(), cls(r), 0);
            return r;
        }
        template <typename E>
        bool compare_exchange_weak(E& e, T d, std::memory_order o = std::memory_order_seq_cst) noexcept
        {
            if (verif::hooks_on()) verif::g_ctl->point(verif::my_tid, "arw.cas", owner(), cls(static_cast<T>(e)), 0);
            T ex = static_cast<T>(e);
            bool ok = v.compare_exchange_strong(ex, d, o);
            e = static_cast<E>(ex);
            if (verif::hooks_on()) verif::g_ctl->note(verif::my_tid, "arw.casd", owner(), ok ? 1 : 0, cls(ex));
            return ok;
        }
        template <typename E>
        bool compare_exchange_strong(E& e, T d, std::memory_order o = std::memory_order_seq_cst) noexcept
        {
            return compare_exchange_weak(e, d, o);
        }
        T exchange(T d, std::memory_order o = std::memory_order_seq_cst) noexcept
        {
            if (verif::hooks_on()) verif::g_ctl->point(verif::my_tid, "arw.xchg", owner(), 0, 0);
            T r = v.exchange(d, o);
            if (verif::hooks_on()) verif::g_ctl->note(verif::my_tid, "arw.xchgd", owner(), cls(r), cls(d));
            return r;
        }
        void store(T d, std::memory_order o = std::memory_order_seq_cst) noexcept
        {
            if (verif::hooks_on()) verif::g_ctl->point(verif::my_tid, "arw.store", owner(), 0, 0);
            v.store(d, o);
            if (verif::hooks_on()) verif::g_ctl->note(verif::my_tid, "arw.stored", owner(), cls(d), 0);
        }
    };
}    // namespace std

#define atomic verif_atomic
#include <pika/execution/async_rw_mutex.hpp>
#undef atomic

using namespace verif;
namespace ex = pika::execution::experimental;

// allocator that never returns memory: shared-state addresses (= object ids in the log) are unique
template <typename T>
struct leak_alloc
{
    using value_type = T;
    leak_alloc() = default;
    template <typename U>
    leak_alloc(leak_alloc<U> const&) noexcept
    {
    }
    T* allocate(std::size_t n) { return static_cast<T*>(::operator new(n * sizeof(T))); }
    void deallocate(T*, std::size_t) noexcept {}
    template <typename U>
    bool operator==(leak_alloc<U> const&) const noexcept
    {
        return true;
    }
    template <typename U>
    bool operator!=(leak_alloc<U> const&) const noexcept
    {
        return false;
    }
};

struct val
{
    long v = 0;
    std::shared_ptr<void> tok;    // its deleter logs the destruction of the wrapped value
};

template <typename W>
struct slot_t
{
    bool requested = false;
    bool granted = false;
    long seq = 0;
    std::vector<W> wr;
};

template <typename W>
struct recv
{
    using is_receiver = void;
    int a;
    slot_t<W>* sl;
    void set_value(W w) && noexcept
    {
        nt("granted", nullptr, a, 0);
        sl->wr.push_back(std::move(w));
        sl->granted = true;
    }
    void set_error(std::exception_ptr) && noexcept { nt("error", nullptr, a, 0); }
    void set_stopped() && noexcept { nt("stopped", nullptr, a, 0); }
};

static void spin_until(std::function<bool()> const& c)
{
    while (!c()) g_ctl->point(my_tid, "spin", nullptr, 0, 0, tstate::spinning);
}

template <typename Mutex, bool IsVoid>
static void run_typed(case_t const& c, controller* ctl)
{
    using rsender = decltype(std::declval<Mutex&>().read());
    using wsender = decltype(std::declval<Mutex&>().readwrite());
    using rwrap = typename Mutex::read_access_type;
    using wwrap = typename Mutex::readwrite_access_type;
    using base = ex::detail::async_rw_mutex_shared_state_base;

    int k = int(c.threads.size());
    std::size_t total = 0;
    for (auto const& op : c.threads[0])
        if (op.name == "r" || op.name == "w") ++total;

    auto* rs = new std::vector<std::optional<rsender>>(total);
    auto* ws = new std::vector<std::optional<wsender>>(total);
    auto* rsl = new std::vector<slot_t<rwrap>>(total);
    auto* wsl = new std::vector<slot_t<wwrap>>(total);
    auto* isw = new std::vector<int>(total, 0);
    auto* mtx = new std::optional<Mutex>();
    auto* ext = new long(0);    // the externally managed resource of a void mutex
    // the mutex object accesses are requested from: the original, or the newest move-constructed one (op mvmtx); moved-from
    // objects stay alive until the end of the case (a moved-from mutex must not hold on to anything)
    auto* cur = new Mutex*(nullptr);
    auto* nreq = new std::size_t(0);

    auto requested = [=](std::size_t a) { return (*isw)[a] ? (*wsl)[a].requested : (*rsl)[a].requested; };
    auto ready = [=](std::size_t a, long q) {
        return (*isw)[a] ? ((*wsl)[a].granted && (*wsl)[a].seq == q) : ((*rsl)[a].granted && (*rsl)[a].seq == q);
    };
    auto bump = [=](std::size_t a) { (*isw)[a] ? ++(*wsl)[a].seq : ++(*rsl)[a].seq; };

    std::vector<std::function<void()>> bodies;
    for (int i = 0; i < k; ++i)
    {
        bodies.push_back([=, &c] {
            if (i == 0)
            {
                if constexpr (IsVoid) { mtx->emplace(leak_alloc<int>{}); }
                else
                {
                    std::shared_ptr<void> tok(static_cast<void*>(ext), [](void*) { nt("vfree", nullptr, 0, 0); });
                    mtx->emplace(val{0, std::move(tok)}, leak_alloc<int>{});
                }
                *cur = &**mtx;
            }
            for (auto const& op : c.threads[i])
            {
                std::size_t a = op.args.size() > 0 ? std::size_t(op.args[0]) : 0;
                long q = op.args.size() > 1 ? long(op.args[1]) : 0;
                if (op.name == "r" || op.name == "w")
                {
                    bool w = op.name == "w";
                    a = (*nreq)++;
                    (*isw)[a] = w;
                    pt("op", nullptr, a, 0);
                    nt("req", nullptr, a, w);
                    if (w)
                    {
                        auto s = (*cur)->readwrite();
                        nt("reqd", static_cast<base*>(s.state.get()), a, w);
                        (*ws)[a].emplace(std::move(s));
                        (*wsl)[a].requested = true;
                    }
                    else
                    {
                        auto s = (*cur)->read();
                        nt("reqd", static_cast<base*>(s.state.get()), a, w);
                        (*rs)[a].emplace(std::move(s));
                        (*rsl)[a].requested = true;
                    }
                }
                else if (op.name == "mvmtx")
                {
                    // owner: move-construct a new mutex from the current one; the moved-from object stays alive
                    pt("op", nullptr, 0, 0);
                    *cur = new Mutex(std::move(**cur));
                }
                else if (op.name == "destroy")
                {
                    pt("op", nullptr, 0, 0);
                    nt("destroy", nullptr, 0, 0);
                    if (*cur == &**mtx) mtx->reset();
                    else delete *cur;    // the live mutex is a moved-to object; the moved-from ones stay alive
                    *cur = nullptr;
                }
                else if (op.name == "start" || op.name == "drop")
                {
                    spin_until([&] { return a < *nreq && requested(a); });
                    pt("op", nullptr, a, 0);
                    bool det = op.name == "drop";
                    nt("start", nullptr, a, det);
                    if ((*isw)[a])
                    {
                        if (det) { (*ws)[a].reset(); }
                        else
                        {
                            auto* o = new auto(std::move(*(*ws)[a]).connect(recv<wwrap>{int(a), &(*wsl)[a]}));
                            (*ws)[a].reset();
                            o->start();
                        }
                    }
                    else
                    {
                        if (det) { (*rs)[a].reset(); }
                        else
                        {
                            auto* o = new auto(std::move(*(*rs)[a]).connect(recv<rwrap>{int(a), &(*rsl)[a]}));
                            (*rs)[a].reset();
                            o->start();
                        }
                    }
                }
                else if (op.name == "copy" || op.name == "write" || op.name == "readv" || op.name == "rel")
                {
                    spin_until([&] { return a < *nreq && ready(a, q); });
                    pt("op", nullptr, a, 0);
                    if (op.name == "copy")
                    {
                        nt("copy", nullptr, a, 0);
                        if constexpr (std::is_copy_constructible_v<rwrap>)
                        {
                            if (!(*isw)[a]) (*rsl)[a].wr.push_back((*rsl)[a].wr.front());
                        }
                    }
                    else if (op.name == "write")
                    {
                        long nv;
                        if constexpr (IsVoid) { nv = ++*ext; }
                        else { nv = ++(*wsl)[a].wr.front().get().v; }
                        nt("write", nullptr, a, nv);
                    }
                    else if (op.name == "readv")
                    {
                        long nv;
                        if constexpr (IsVoid) { nv = *ext; }
                        else { nv = (*isw)[a] ? (*wsl)[a].wr.front().get().v : (*rsl)[a].wr.back().get().v; }
                        nt("readv", nullptr, a, nv);
                    }
                    else
                    {
                        nt("rel", nullptr, a, 0);
                        if ((*isw)[a]) (*wsl)[a].wr.pop_back();
                        else (*rsl)[a].wr.pop_back();
                    }
                    bump(a);
                }
            }
        });
    }
    run_os_threads(*ctl, bodies);
}

static void run_one(case_t const& c)
{
    int k = int(c.threads.size());
    auto* ctl = new controller(k, std::uint64_t(c.geti("seed", 1)), int(c.geti("strat", 0)));
    ctl->max_steps = std::size_t(c.geti("maxsteps", 200000));
    ctl->max_spin_streak = std::size_t(c.geti("maxspin", 400));
    {
        ex::detail::async_rw_mutex_shared_state<void> dummy;
        g_head_off = reinterpret_cast<char*>(&dummy.op_state_head) -
            reinterpret_cast<char*>(static_cast<ex::detail::async_rw_mutex_shared_state_base*>(&dummy));
    }
    if (c.geti("void", 0) != 0) run_typed<ex::async_rw_mutex<void, void, leak_alloc<int>>, true>(c, ctl);
    else run_typed<ex::async_rw_mutex<val, val, leak_alloc<int>>, false>(c, ctl);
}

int main(int argc, char** argv)
{
    if (argc < 2) return 2;
    return run_case_file(argv[1], run_one);
}
