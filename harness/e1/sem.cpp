// E1 harness for C08: counting / binary / sliding semaphores under the baton.
#include "../baton.hpp"
#include "../e1_main.hpp"

#include <pika/synchronization/counting_semaphore.hpp>
#include <pika/synchronization/sliding_semaphore.hpp>

#include <chrono>
#include <memory>

using namespace verif;

static void run_one(case_t const& c)
{
    int k = int(c.threads.size());
    auto* ctl = new controller(k, std::uint64_t(c.geti("seed", 1)), int(c.geti("strat", 0)));
    ctl->max_steps = std::size_t(c.geti("maxsteps", 20000));
    std::string kind = c.gets("kind", "counting");
    auto* sem = new pika::counting_semaphore<>(c.geti("init", 0));
    auto* bsem = new pika::binary_semaphore<>(c.geti("init", 0));
    // viaset=1: the configuration of the case is established through set_max_difference(max_difference, lower_limit) on
    // an object constructed with other values (before any thread starts), not through the constructor
    auto* ssem = c.geti("viaset", 0) != 0 ? new pika::sliding_semaphore(c.geti("maxdiff", 1) + 7, c.geti("lower", 0) - 3) :
                                            new pika::sliding_semaphore(c.geti("maxdiff", 1), c.geti("lower", 0));
    if (c.geti("viaset", 0) != 0) ssem->set_max_difference(c.geti("maxdiff", 1), c.geti("lower", 0));
    void* o = kind == "sliding" ? (void*) ssem : kind == "binary" ? (void*) bsem : (void*) sem;
    ctl->name_obj(o);
    std::vector<std::function<void()>> bodies;
    for (int i = 0; i < k; ++i)
    {
        bodies.push_back([=, &c] {
            for (auto const& op : c.threads[i])
            {
                long long a0 = op.args.size() > 0 ? op.args[0] : 0;
                try
                {
                    if (op.name == "acq")
                    {
                        pt("inv.acq", o);
                        if (kind == "binary") bsem->acquire();
                        else sem->acquire();
                        nt("ret", o, 1);
                    }
                    else if (op.name == "tryacq")
                    {
                        pt("inv.tryacq", o);
                        bool r = kind == "binary" ? bsem->try_acquire() : sem->try_acquire();
                        nt("ret", o, r);
                    }
                    else if (op.name == "timed")
                    {
                        pt("inv.timed", o);
                        bool r = kind == "binary" ? bsem->try_acquire_for(std::chrono::seconds(1)) :
                                                    sem->try_acquire_for(std::chrono::seconds(1));
                        nt("ret", o, r);
                    }
                    else if (op.name == "timed0" || op.name == "timedneg")
                    {
                        // deadline already expired at the call (zero / negative duration): the permit test comes first,
                        // so the result is still "a permit was available"; logged as an ordinary timed acquire
                        pt("inv.timed", o);
                        auto d = op.name == "timed0" ? std::chrono::milliseconds(0) : std::chrono::milliseconds(-5);
                        bool r = kind == "binary" ? bsem->try_acquire_for(d) : sem->try_acquire_for(d);
                        nt("ret", o, r);
                    }
                    else if (op.name == "rel")
                    {
                        pt("inv.rel", o, a0);
                        if (kind == "binary") bsem->release(a0);
                        else sem->release(a0);
                        nt("ret", o, 0);
                    }
                    else if (op.name == "swait")
                    {
                        pt("inv.swait", o, a0);
                        ssem->wait(a0);
                        nt("ret", o, 1);
                    }
                    else if (op.name == "strywait")
                    {
                        pt("inv.strywait", o, a0);
                        bool r = ssem->try_wait(a0);
                        nt("ret", o, r);
                    }
                    else if (op.name == "ssignal")
                    {
                        pt("inv.ssignal", o, a0);
                        ssem->signal(a0);
                        nt("ret", o, 0);
                    }
                }
                catch (std::exception const& e)
                {
                    nt("exc", o);
                }
            }
        });
    }
    run_os_threads(*ctl, bodies);
}

int main(int argc, char** argv)
{
    if (argc < 2) return 2;
    return run_case_file(argv[1], run_one);
}
