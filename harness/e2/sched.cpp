// E2 harness for C01 / C02: generated task programs on the live runtime, exact event log.
// usage: e2_sched <seed> <perturb_per_1024> <prog> <size> [pika options...]
//   prog: fanout | pingpong | mixed | zoo | meet | stale     extra option: --verif:nosteal
// Prints: log lines, then `monitor <text>` lines (observable violations), then `end ok|hang`.
#include "../e2_log.hpp"

#include <pika/barrier.hpp>
#include <pika/condition_variable.hpp>
#include <pika/execution.hpp>
#include <pika/init.hpp>
#include <pika/latch.hpp>
#include <pika/modules/thread_manager.hpp>
#include <pika/mutex.hpp>
#include <pika/runtime/runtime.hpp>
#include <pika/runtime/thread_pool_helpers.hpp>
#include <pika/modules/resource_partitioner.hpp>
#include <pika/semaphore.hpp>
#include <pika/stop_token.hpp>
#include <pika/thread.hpp>
#include <pika/threading_base/register_thread.hpp>
#include <pika/threading_base/thread_init_data.hpp>

#include <algorithm>
#include <exception>
#include <unistd.h>
#include <atomic>
#include <chrono>
#include <cstring>
#include <memory>
#include <mutex>
#include <pthread.h>
#include <time.h>
#include <string>
#include <thread>
#include <vector>

namespace ex = pika::execution::experimental;
namespace e2 = verif::e2;

struct rng
{
    std::uint64_t s;
    std::uint64_t next()
    {
        std::uint64_t z = (s += 0x9e3779b97f4a7c15ull);
        z = (z ^ (z >> 30)) * 0xbf58476d1ce4e5b9ull;
        z = (z ^ (z >> 27)) * 0x94d049bb133111ebull;
        return z ^ (z >> 31);
    }
    std::uint32_t below(std::uint32_t n) { return n ? std::uint32_t(next() % n) : 0; }
};

static std::atomic<long> g_total{0}, g_done{0}, g_ids{0};
static std::vector<std::string> g_monitor;
static std::atomic<bool> g_mon_lock{false};
static void monitor(std::string s)
{
    while (g_mon_lock.exchange(true)) {}
    if (g_monitor.size() < 20) g_monitor.push_back(std::move(s));
    g_mon_lock.store(false);
}

// per logical task: observable single-runner / exactly-once monitors
struct tinfo
{
    std::atomic<int> entered{0};
    std::atomic<int> running{0};
    std::atomic<int> finished{0};
};
static std::vector<tinfo>* g_tasks = nullptr;

// Flags polled by spinning tasks are set by a plain OS thread, so a spinner (re-queued with boosted
// priority) can never starve the one that releases it.
static std::mutex g_flag_mtx;
static std::vector<std::shared_ptr<std::atomic<bool>>> g_flags;
static std::atomic<bool> g_flag_stop{false};
// semaphores on which a task waits through the TIMED overload are released by the same OS thread (a task polling its
// deadline is re-queued with boosted priority and could starve a releasing task)
static std::vector<std::shared_ptr<pika::counting_semaphore<>>> g_sems;
// two tasks wait on ONE condition_variable_any, each with its own stop token and a predicate that never holds; the OS thread
// requests stop for the waiter that enqueued LAST first, then for the other: every stop request must resume its own waiter
struct stop_pair
{
    pika::condition_variable_any cv;
    std::mutex m;
    pika::stop_source src[2];
    int order = 0;    // under m: number of waiters that are about to wait (wait releases m once enqueued)
};
static std::vector<std::shared_ptr<stop_pair>> g_pairs;
// a task that must act only once ANOTHER task is suspended (an interrupt aimed at a blocked task) waits on a semaphore that
// the OS thread releases when it sees that task suspended at the wanted stage; polling this with yields from a task would
// make the run depend on the scheduler's fairness towards the watched task, which is not what is checked here.  With a
// budget the release also comes after that many looks (the release is then correct either way).
struct watch
{
    pika::threads::detail::thread_id_type id;
    std::shared_ptr<std::atomic<int>> stage;
    int want;
    std::shared_ptr<pika::counting_semaphore<>> sem;
    int budget;    // < 0: unbounded
    bool terminated = false;    // wait for `terminated` instead of `suspended`
};
static std::vector<watch> g_watches;
static void flag_setter()
{
    std::uint64_t k = 0;
    while (!g_flag_stop.load())
    {
        std::vector<std::shared_ptr<std::atomic<bool>>> todo;
        std::vector<std::shared_ptr<pika::counting_semaphore<>>> sems;
        std::vector<std::shared_ptr<stop_pair>> pairs;
        std::vector<watch> watches;
        {
            std::lock_guard<std::mutex> l(g_flag_mtx);
            todo.swap(g_flags);
            sems.swap(g_sems);
            pairs.swap(g_pairs);
            watches.swap(g_watches);
        }
        for (auto& w : watches)
        {
            bool there = w.stage->load() >= w.want &&
                pika::threads::detail::get_thread_state(w.id).state() ==
                    (w.terminated ? pika::threads::detail::thread_schedule_state::terminated : pika::threads::detail::thread_schedule_state::suspended);
            if (there || w.budget == 0) { w.sem->release(); continue; }
            if (w.budget > 0) --w.budget;
            std::lock_guard<std::mutex> l(g_flag_mtx);
            g_watches.push_back(w);
        }
        for (auto& p : pairs)
        {
            bool ready = false;
            {
                std::lock_guard<std::mutex> l(p->m);    // both waiters have released m, i.e. are enqueued
                ready = p->order == 2;
            }
            if (!ready)
            {
                std::lock_guard<std::mutex> l(g_flag_mtx);
                g_pairs.push_back(p);
                continue;
            }
            p->src[1].request_stop();    // the waiter that enqueued last
            std::this_thread::sleep_for(std::chrono::microseconds(30));
            p->src[0].request_stop();
        }
        if (todo.empty() && sems.empty()) { std::this_thread::sleep_for(std::chrono::microseconds(50)); continue; }
        // varying delay: the release lands before, around and after the waiter's deadline
        std::this_thread::sleep_for(std::chrono::microseconds(20 + 37 * (k++ % 9)));
        for (auto& f : todo) f->store(true);
        for (auto& sm : sems) sm->release();
    }
}

static void* self_obj()
{
    return pika::threads::detail::get_thread_id_data(pika::threads::detail::get_self_id());
}

struct body_guard
{
    long id;
    explicit body_guard(long i)
      : id(i)
    {
        auto& t = (*g_tasks)[id];
        if (t.entered.fetch_add(1) != 0) monitor("task " + std::to_string(id) + " body entered twice");
        if (t.running.fetch_add(1) != 0)
            monitor("task " + std::to_string(id) + " runs on two workers at once");
        e2::note("body.enter", self_obj(), std::uint64_t(id));
    }
    void pause()    // about to yield / block
    {
        (*g_tasks)[id].running.fetch_sub(1);
    }
    void resume_()    // running again
    {
        if ((*g_tasks)[id].running.fetch_add(1) != 0)
            monitor("task " + std::to_string(id) + " runs on two workers at once (after resume)");
    }
    ~body_guard()
    {
        auto& t = (*g_tasks)[id];
        e2::note("body.exit", self_obj(), std::uint64_t(id));
        t.running.fetch_sub(1);
        t.finished.fetch_add(1);
        g_done.fetch_add(1);
    }
};

static ex::thread_pool_scheduler sched_with(rng& r)
{
    ex::thread_pool_scheduler s{};
    switch (r.below(6))
    {
    case 0: s = ex::with_priority(s, pika::execution::thread_priority::high); break;
    case 1: s = ex::with_priority(s, pika::execution::thread_priority::low); break;
    case 2: s = ex::with_stacksize(s, pika::execution::thread_stacksize::medium); break;
    case 3: s = ex::with_stacksize(s, pika::execution::thread_stacksize::nostack); break;
    default: break;
    }
    return s;
}

static long new_task_id()
{
    long id = g_ids.fetch_add(1);
    g_total.fetch_add(1);
    return id;
}

static void spawn(std::uint64_t seed, int depth, int maxdepth, int width);

static void task_body(long id, std::uint64_t seed, int depth, int maxdepth, int width, bool nostack)
{
    rng r{seed};
    body_guard g(id);
    int yields = nostack ? 0 : int(r.below(4));
    for (int i = 0; i < yields; ++i)
    {
        g.pause();
        pika::this_thread::yield();
        g.resume_();
    }
    if (depth < maxdepth)
    {
        int w = 1 + int(r.below(std::uint32_t(width)));
        // hand-shake with the first child: the parent blocks, the child releases it - possibly before
        // the parent has finished suspending (the lost-wake-up window)
        bool shake = !nostack && r.below(3) != 0;
        // spin = the parent polls a flag through yield_while (boosted yields after 16 polls)
        bool spin = shake && r.below(3) == 0;
        // timed = the parent blocks through the TIMED overload (registers in the cv queue, then polls its deadline by
        // yielding pending_boost); the release may land while the worker is still switching the yielded task off
        bool timed = shake && !spin && r.below(3) == 0;
        // stopw = parent and first child both block in condition_variable_any::wait(lock, stop_token, pred) on one cv
        bool stopw = shake && !spin && !timed && r.below(4) == 0;
        auto pair = stopw ? std::make_shared<stop_pair>() : std::shared_ptr<stop_pair>();
        long timed_us = 20 + long(r.below(300));
        auto sem = std::make_shared<pika::counting_semaphore<>>(0);
        auto flag = std::make_shared<std::atomic<bool>>(false);
        for (int c = 0; c < w; ++c)
        {
            std::uint64_t cs = r.next();
            if (c == 0 && shake)
            {
                long cid = new_task_id();
                rng rr{cs};
                ex::start_detached(ex::schedule(ex::thread_pool_scheduler{}) |
                    ex::then([=] {
                        rng r2{cs};
                        body_guard cg(cid);
                        if (r2.below(2))
                        {
                            cg.pause();
                            pika::this_thread::yield();
                            cg.resume_();
                        }
                        if (stopw)
                        {
                            cg.pause();
                            std::unique_lock<std::mutex> lk(pair->m);
                            int me = pair->order++;
                            pair->cv.wait(lk, pair->src[me].get_token(), [] { return false; });
                            lk.unlock();
                            cg.resume_();
                        }
                        else if (!spin && !timed) sem->release();
                        if (depth + 1 < maxdepth) spawn(r2.next(), depth + 1, maxdepth, width);
                    }));
            }
            else { spawn(cs, depth + 1, maxdepth, width); }
        }
        if (shake)
        {
            g.pause();
            if (spin)
            {
                {
                    std::lock_guard<std::mutex> l(g_flag_mtx);
                    g_flags.push_back(flag);
                }
                pika::util::yield_while([&] { return !flag->load(); }, "e2 spin");
            }
            else if (stopw)
            {
                {
                    std::lock_guard<std::mutex> l(g_flag_mtx);
                    g_pairs.push_back(pair);
                }
                std::unique_lock<std::mutex> lk(pair->m);
                int me = pair->order++;
                pair->cv.wait(lk, pair->src[me].get_token(), [] { return false; });
            }
            else if (timed)
            {
                {
                    std::lock_guard<std::mutex> l(g_flag_mtx);
                    g_sems.push_back(sem);
                }
                // the external thread releases exactly once: a timed-out attempt is repeated until the permit is taken
                while (!sem->try_acquire_for(std::chrono::microseconds(timed_us))) {}
            }
            else sem->acquire();
            g.resume_();
        }
    }
    if (!nostack && r.below(4) == 0)
    {
        g.pause();
        pika::this_thread::yield();
        g.resume_();
    }
}

static void spawn(std::uint64_t seed, int depth, int maxdepth, int width)
{
    rng r{seed};
    long id = new_task_id();
    auto s = sched_with(r);
    bool nostack = ex::get_stacksize(s) == pika::execution::thread_stacksize::nostack;
    std::uint64_t bs = r.next();
    if (depth > 0 && r.below(5) == 0 && !nostack)
    {
        pika::thread t([=] { task_body(id, bs, depth, maxdepth, width, false); });
        t.detach();
    }
    else
    {
        ex::start_detached(
            ex::schedule(s) | ex::then([=] { task_body(id, bs, depth, maxdepth, width, nostack); }));
    }
}


// ------------------------------------------------------------------------------------------------
// Follow-up C01b: programs "zoo" (scenario diversity) and "meet" (more blocked tasks than the
// queue's soft limit).  Every logical task still runs under a body_guard, so the per-task monitors
// (entered once, one runner at a time, finished) and the model's body layer apply unchanged.

static pika::execution::thread_stacksize const zoo_stacks[] = {pika::execution::thread_stacksize::small_,
    pika::execution::thread_stacksize::medium, pika::execution::thread_stacksize::large,
    pika::execution::thread_stacksize::huge, pika::execution::thread_stacksize::nostack};
static pika::execution::thread_priority const zoo_prios[] = {pika::execution::thread_priority::normal,
    pika::execution::thread_priority::low, pika::execution::thread_priority::high,
    pika::execution::thread_priority::high_recursive, pika::execution::thread_priority::boost};
static int g_workers = 1;
static bool g_no_join = false;    // thread::join on the shared-priority scheduler is a listed C13 finding: not used there

// a leaf task: optional yields, then an optional release of the semaphore its creator waits on
static void zoo_leaf(long id, std::uint64_t seed, bool may_yield, std::shared_ptr<pika::counting_semaphore<>> done)
{
    rng r{seed};
    body_guard g(id);
    int yields = may_yield ? int(r.below(3)) : 0;
    for (int i = 0; i < yields; ++i)
    {
        g.pause();
        pika::this_thread::yield();
        g.resume_();
    }
    if (done) done->release();
}

// create one leaf through one of the creation paths; returns false if the path needs a pika thread
static void zoo_create(rng& r, int how, pika::execution::thread_stacksize ss, pika::execution::thread_priority pr,
    std::shared_ptr<pika::counting_semaphore<>> done)
{
    long id = new_task_id();
    std::uint64_t cs = r.next();
    bool nostack = ss == pika::execution::thread_stacksize::nostack;
    auto s = ex::with_stacksize(ex::with_priority(ex::thread_pool_scheduler{}, pr), ss);
    switch (how)
    {
    case 0:    // scheduled sender
        ex::start_detached(ex::schedule(s) | ex::then([=] { zoo_leaf(id, cs, !nostack, done); }));
        break;
    case 1:    // executed callable
        ex::execute(s, [=] { zoo_leaf(id, cs, !nostack, done); });
        break;
    case 2:    // scheduled sender with a worker hint
        s = ex::with_hint(s, pika::execution::thread_schedule_hint(std::int16_t(r.below(std::uint32_t(g_workers)))));
        ex::start_detached(ex::schedule(s) | ex::then([=] { zoo_leaf(id, cs, !nostack, done); }));
        break;
    case 3:    // register_work with run_now: the thread object is created at once (not staged)
    case 4:    // register_work, staged, with a worker hint
    {
        pika::execution::thread_schedule_hint hint;
        if (how == 4) hint = pika::execution::thread_schedule_hint(std::int16_t(r.below(std::uint32_t(g_workers))));
        pika::threads::detail::thread_init_data data(
            pika::threads::detail::make_thread_function_nullary([=] { zoo_leaf(id, cs, !nostack, done); }),
            "e2 zoo", pr, hint, ss, pika::threads::detail::thread_schedule_state::pending, how == 3);
        pika::threads::detail::register_work(data);
        break;
    }
    default:    // pika::thread (detached); always a stackful default-size thread
    {
        pika::thread t([=] { zoo_leaf(id, cs, true, done); });
        t.detach();
        break;
    }
    }
}

// a root task of the zoo: runs several scenarios in sequence, each blocking through a real primitive
static void zoo_root(long id, std::uint64_t seed, int rounds)
{
    rng r{seed};
    body_guard g(id);
    for (int round = 0; round < rounds; ++round)
    {
        int scen = int(r.below(8));
        if (scen == 0)
        {
            // recycling wave: one child per stack class after the other, each awaited before the next is
            // created, so that terminated objects (and their stacks) of every class get reused
            for (auto ss : zoo_stacks)
            {
                auto done = std::make_shared<pika::counting_semaphore<>>(0);
                zoo_create(r, int(r.below(5)), ss, zoo_prios[r.below(5)], done);
                g.pause();
                done->acquire();
                g.resume_();
            }
        }
        else if (scen == 1)
        {
            // burst: nested creation under load through every creation path, then wait for all
            int n = 4 + int(r.below(8));
            auto done = std::make_shared<pika::counting_semaphore<>>(0);
            for (int i = 0; i < n; ++i) zoo_create(r, int(r.below(6)), zoo_stacks[r.below(5)], zoo_prios[r.below(5)], done);
            g.pause();
            for (int i = 0; i < n; ++i) done->acquire();
            g.resume_();
        }
        else if (scen == 2)
        {
            // mutex + condition variable hand-shake (both can suspend: contended lock, wait)
            auto mtx = std::make_shared<pika::mutex>();
            auto cv = std::make_shared<pika::condition_variable>();
            auto flag = std::make_shared<bool>(false);
            long cid = new_task_id();
            std::uint64_t cs = r.next();
            ex::execute(ex::with_priority(ex::thread_pool_scheduler{}, zoo_prios[r.below(5)]), [=] {
                rng r2{cs};
                body_guard cg(cid);
                if (r2.below(2))
                {
                    cg.pause();
                    pika::this_thread::yield();
                    cg.resume_();
                }
                cg.pause();
                {
                    std::unique_lock<pika::mutex> l(*mtx);
                    *flag = true;
                    cv->notify_one();
                }
                cg.resume_();
            });
            g.pause();
            {
                std::unique_lock<pika::mutex> l(*mtx);
                cv->wait(l, [&] { return *flag; });
            }
            g.resume_();
        }
        else if (scen == 3)
        {
            // latch: children count down, the parent waits
            int n = 2 + int(r.below(4));
            auto l = std::make_shared<pika::latch>(n + 1);
            for (int i = 0; i < n; ++i)
            {
                long cid = new_task_id();
                auto s = ex::with_stacksize(ex::thread_pool_scheduler{}, zoo_stacks[r.below(4)]);
                ex::start_detached(ex::schedule(s) | ex::then([=] {
                    body_guard cg(cid);
                    l->count_down(1);
                }));
            }
            g.pause();
            l->arrive_and_wait();
            g.resume_();
        }
        else if (scen == 4)
        {
            // joined pika::thread: join suspends the parent until the exit callback wakes it
            long cid = new_task_id();
            std::uint64_t cs = r.next();
            if (g_no_join)
            {
                auto done = std::make_shared<pika::counting_semaphore<>>(0);
                pika::thread t([=] { zoo_leaf(cid, cs, true, done); });
                t.detach();
                g.pause();
                done->acquire();
                g.resume_();
            }
            else if (r.below(2) == 0)
            {
                // interrupt() on a thread whose function has already finished (state terminated, handle still joinable):
                // the request must die with that incarnation - the object is recycled for unrelated tasks that yield
                auto stage = std::make_shared<std::atomic<int>>(1);
                auto gone = std::make_shared<pika::counting_semaphore<>>(0);
                pika::thread t([=] { zoo_leaf(cid, cs, true, nullptr); });
                {
                    std::lock_guard<std::mutex> l(g_flag_mtx);
                    watch w{t.native_handle(), stage, 1, gone, -1};
                    w.terminated = true;
                    g_watches.push_back(w);
                }
                g.pause();
                gone->acquire();
                t.interrupt();
                t.join();
                g.resume_();
            }
            else
            {
                pika::thread t([=] { zoo_leaf(cid, cs, true, nullptr); });
                g.pause();
                t.join();
                g.resume_();
            }
        }
        else if (scen == 5 && !g_no_join)    // (shared-priority: a fresh pika::thread can carry an invalid id, listed C13 finding)
        {
            // cancelled and carries on: the child blocks in a condition-variable wait that only an interrupt ends
            // (wake-up with restart state `abort`), handles pika::thread_interrupted, then blocks a second time in
            // the same phase on a semaphore, which is released only after it has been seen suspended again.  The
            // interrupt is aimed at a suspended task only (an interrupt that hits a running task may surface in a
            // later wait as yield_aborted: not this property).
            struct ish
            {
                pika::mutex m;
                pika::condition_variable cv;
                pika::counting_semaphore<> go{0};
            };
            auto sh = std::make_shared<ish>();
            auto stage = std::make_shared<std::atomic<int>>(0);
            auto done = std::make_shared<pika::counting_semaphore<>>(0);
            auto asleep1 = std::make_shared<pika::counting_semaphore<>>(0);
            auto asleep2 = std::make_shared<pika::counting_semaphore<>>(0);
            long cid = new_task_id();
            pika::thread t([=] {
                body_guard cg(cid);
                try
                {
                    std::unique_lock<pika::mutex> lk(sh->m);
                    stage->store(1);
                    cg.pause();
                    sh->cv.wait(lk, [] { return false; });
                    cg.resume_();
                    monitor("task " + std::to_string(cid) + " left a wait nobody notified");
                }
                catch (pika::thread_interrupted const&)
                {
                    cg.resume_();
                    stage->store(2);
                }
                cg.pause();
                stage->store(3);
                sh->go.acquire();
                cg.resume_();
                stage->store(4);
                done->release();
            });
            {
                std::lock_guard<std::mutex> l(g_flag_mtx);
                g_watches.push_back(watch{t.native_handle(), stage, 1, asleep1, -1});
            }
            g.pause();
            asleep1->acquire();    // the child sleeps in the condition-variable wait
            t.interrupt();
            {
                std::lock_guard<std::mutex> l(g_flag_mtx);
                g_watches.push_back(watch{t.native_handle(), stage, 3, asleep2, 400});
            }
            asleep2->acquire();    // ... and (normally) sleeps again in the semaphore wait
            sh->go.release();
            t.join();
            g.resume_();
            if (stage->load() != 4) monitor("task " + std::to_string(cid) + " joined before its body finished");
        }
        else if (scen == 6 && !g_no_join)    // (needs valid pika::thread ids, see scenario 5)
        {
            // several tasks blocked on ONE facility, released by one call: k children wait on a latch that the parent
            // counts down once they are all suspended there, then the same k children block in acquire() on one semaphore
            // that the parent releases with a single release(k).  Every child must run again (both wake-up loops of the
            // facilities go through condition_variable::notify_one's "more waiters?" answer).
            int k = 2 + int(r.below(3));
            auto gate = std::make_shared<pika::latch>(1);
            auto sem = std::make_shared<pika::counting_semaphore<>>(0);
            auto done = std::make_shared<pika::counting_semaphore<>>(0);
            auto at = std::make_shared<std::atomic<int>>(0);
            auto asleep = std::make_shared<pika::counting_semaphore<>>(0);
            std::vector<pika::thread> kids;
            std::vector<long> cids;
            for (int i = 0; i < k; ++i)
            {
                long cid = new_task_id();
                cids.push_back(cid);
                kids.emplace_back([=] {
                    body_guard cg(cid);
                    cg.pause();
                    at->fetch_add(1);
                    gate->wait();
                    at->fetch_add(1);
                    sem->acquire();
                    cg.resume_();
                    done->release();
                });
            }
            g.pause();
            // the OS thread releases `asleep` when child i is suspended with the shared stage counter >= want
            auto wait_all_asleep = [&](int want) {
                for (int i = 0; i < k; ++i)
                {
                    {
                        std::lock_guard<std::mutex> l(g_flag_mtx);
                        g_watches.push_back(watch{kids[std::size_t(i)].native_handle(), at, want, asleep, -1});
                    }
                    asleep->acquire();
                }
            };
            wait_all_asleep(k);
            gate->count_down(1);
            wait_all_asleep(2 * k);
            sem->release(k);
            for (int i = 0; i < k; ++i) done->acquire();
            for (auto& t : kids) t.join();
            g.resume_();
        }
        else
        {
            // boosted spin-wait released by the external flag setter
            auto flag = std::make_shared<std::atomic<bool>>(false);
            {
                std::lock_guard<std::mutex> l(g_flag_mtx);
                g_flags.push_back(flag);
            }
            g.pause();
            pika::util::yield_while([&] { return !flag->load(); }, "e2 zoo spin");
            g.resume_();
        }
    }
}

// "meet": n tasks count themselves in and block on one latch of size n.  With n above
// thread_queue's max_thread_count (1000) per queue all earlier tasks are suspended when the limit is
// reached, so the remaining staged tasks can only be converted through the "desperate" branch of
// add_new_always (empty work queue).
static std::atomic<long> g_meet_in{0};
static void meet_task(long id, std::shared_ptr<pika::latch> l)
{
    body_guard g(id);
    g_meet_in.fetch_add(1);
    g.pause();
    l->arrive_and_wait();
    g.resume_();
}

// scheduling-loop iterations per worker (site el.top, counted and dropped): lets the hang probe of
// "meet" require that every worker went round its loop many times while nothing changed
static std::atomic<long> g_loop_iter[64];
static bool meet_drop(char const* site, void const*, std::uint64_t a, std::uint64_t)
{
    if (site[0] == 'e' && site[1] == 'l')
    {
        if (a < 64) g_loop_iter[a].fetch_add(1, std::memory_order_relaxed);
        return true;
    }
    return false;
}

// CPU time of every worker OS thread of the default pool (for the "work is queued but nobody takes it" probe):
// a poll counts as quiet only if every worker has itself burnt >= 0.5 ms of CPU since the previous quiet poll, so a
// starved worker on an overloaded machine can never turn into a verdict
static std::vector<long long> worker_cpu_ns()
{
    std::vector<long long> v;
    auto& p = pika::resource::get_thread_pool("default");
    for (std::size_t i = 0; i < p.get_os_thread_count(); ++i)
    {
        clockid_t cid;
        struct timespec ts;
        if (pthread_getcpuclockid(p.get_os_thread_handle(p.get_thread_offset() + i).native_handle(), &cid) != 0 ||
            clock_gettime(cid, &ts) != 0)
            v.push_back(-1);
        else
            v.push_back(ts.tv_sec * 1000000000LL + ts.tv_nsec);
    }
    return v;
}
static bool all_workers_advanced(std::vector<long long> const& before, std::vector<long long> const& now)
{
    if (before.size() != now.size() || now.empty()) return false;
    for (std::size_t i = 0; i < now.size(); ++i)
        if (now[i] < 0 || before[i] < 0 || now[i] - before[i] < 500000LL) return false;
    return true;
}

int main(int argc, char** argv)
{
    if (argc < 5) return 2;
    std::uint64_t seed = std::strtoull(argv[1], nullptr, 10);
    std::uint32_t perturb = std::uint32_t(std::atoi(argv[2]));
    std::string prog = argv[3];
    int size = std::atoi(argv[4]);
    g_tasks = new std::vector<tinfo>(200000);
    // coroutine layer sites co.enter / co.yield / co.resume / co.return (model `schedco`; the base
    // model `sched` skips them)
    e2::g_wanted_extra = +[](char const* s) { return s[0] == 'c' && s[1] == 'o' && s[2] == '.'; };
    bool const meet = prog == "meet";
    if (meet)
    {
        // also take el.top (top of the scheduling loop): counted per worker and dropped by meet_drop
        e2::g_wanted_extra = +[](char const* s) {
            return (s[0] == 'c' && s[1] == 'o' && s[2] == '.') || std::strcmp(s, "el.top") == 0;
        };
        e2::g_drop = &meet_drop;
    }
    e2::install(seed, perturb);
    // std::terminate (e.g. an exception leaving the noexcept this_thread::yield): report it with the log instead of ending in
    // pika's abort handling (seen to hang for half an hour on a seeded tree); SIGALRM's default action bounds the dump itself
    {
        static std::string hdr;
        hdr = "case e2 prog=" + prog + " seed=" + std::to_string(seed) + " size=" + std::to_string(size) + " tasks=0";
        std::set_terminate([] {
            alarm(60);
            e2::g_enabled.store(false);
            std::string what = "no active exception";
            if (auto ep = std::current_exception())
            {
                try { std::rethrow_exception(ep); }
                catch (std::exception const& e) { what = e.what(); }
                catch (...) { what = "an exception that is not derived from std::exception (e.g. pika::thread_interrupted)"; }
            }
            std::printf("%s\n", hdr.c_str());
            e2::dump(stdout);
            for (auto const& m : g_monitor) std::printf("monitor %s\n", m.c_str());
            std::printf("monitor std::terminate was called while the program ran: %s\n", what.substr(0, 300).c_str());
            std::printf("end crash terminate\nendcase\n");
            std::fflush(stdout);
            _exit(0);
        });
    }

    std::vector<char const*> av{argv[0]};
    bool nosteal = false;
    for (int i = 5; i < argc; ++i)
    {
        if (std::strcmp(argv[i], "--verif:nosteal") == 0) nosteal = true;    // stealing off via the scheduler mode
        else av.push_back(argv[i]);
        if (std::strcmp(argv[i], "--pika:scheduler=shared-priority") == 0) g_no_join = true;
        if (std::strncmp(argv[i], "--pika:threads=", 15) == 0) g_workers = std::max(1, std::atoi(argv[i] + 15));
    }
    pika::start(nullptr, int(av.size()), av.data());
    if (nosteal)
    {
        pika::detail::get_runtime().get_thread_manager().remove_scheduler_mode(
            pika::threads::scheduler_mode::enable_stealing);
    }

    std::thread setter(flag_setter);
    rng r{seed * 7919 + 13};
    int roots = (prog == "pingpong" || prog == "zoo") ? size : 1 + size / 4;
    int maxdepth = prog == "fanout" ? 3 + int(r.below(3)) : 2 + int(r.below(2));
    int width = prog == "fanout" ? 2 + int(r.below(3)) : 2;
    // root tasks are submitted from this (non-pika) thread and from extra OS threads
    std::vector<std::thread> ext;
    int next = 1 + int(r.below(3));
    long meet_n = 0;
    if (meet)
    {
        // size = tasks per worker queue (above the soft limit of 1000); all submitted from this OS thread
        meet_n = long(size) * g_workers;
        auto l = std::make_shared<pika::latch>(meet_n);
        for (long i = 0; i < meet_n; ++i)
        {
            long id = new_task_id();
            ex::execute(ex::thread_pool_scheduler{}, [=] { meet_task(id, l); });
        }
        next = 0;
    }
    for (int e = 0; e < next; ++e)
    {
        std::uint64_t es = r.next();
        if (prog == "zoo")
        {
            ext.emplace_back([=] {
                rng rr{es};
                for (int i = 0; i < roots; ++i)
                {
                    long id = new_task_id();
                    std::uint64_t rs = rr.next();
                    int rounds = 2 + int(rr.below(3));
                    auto s = ex::with_priority(ex::thread_pool_scheduler{}, zoo_prios[rr.below(5)]);
                    if (rr.below(2)) ex::execute(s, [=] { zoo_root(id, rs, rounds); });
                    else ex::start_detached(ex::schedule(s) | ex::then([=] { zoo_root(id, rs, rounds); }));
                }
            });
            continue;
        }
        if (prog == "stale")
        {
            // directed: interruption requests aimed at threads whose function has already finished (terminated, handle still
            // joinable) must die with those incarnations; afterwards batches of unrelated yielding threads of the same stack
            // class are created so that the victims' thread objects come round through the recycling heap.  Every one of them
            // must run to completion (a stale request would be delivered at the first yield: noexcept -> std::terminate)
            ext.emplace_back([=] {
                rng rr{es};
                long id = new_task_id();
                std::uint64_t cs = rr.next();
                int const victims = 6 + size;
                ex::start_detached(ex::schedule(ex::thread_pool_scheduler{}) | ex::then([=] {
                    rng r2{cs};
                    body_guard g(id);
                    for (int v = 0; v < victims; ++v)
                    {
                        long cid = new_task_id();
                        std::uint64_t ls = r2.next();
                        auto stage = std::make_shared<std::atomic<int>>(1);
                        auto gone = std::make_shared<pika::counting_semaphore<>>(0);
                        pika::thread t([=] { zoo_leaf(cid, ls, false, nullptr); });
                        {
                            std::lock_guard<std::mutex> l(g_flag_mtx);
                            watch w{t.native_handle(), stage, 1, gone, -1};
                            w.terminated = true;
                            g_watches.push_back(w);
                        }
                        g.pause();
                        gone->acquire();
                        t.interrupt();
                        t.join();
                        g.resume_();
                    }
                    for (int batch = 0; batch < 4 + 4 * size; ++batch)
                    {
                        int m = 16 + int(r2.below(9));
                        std::vector<pika::thread> later;
                        for (int i = 0; i < m; ++i)
                        {
                            long cid = new_task_id();
                            std::uint64_t ls = r2.next() | 1;
                            later.emplace_back([=] {
                                body_guard cg(cid);
                                cg.pause();
                                pika::this_thread::yield();
                                cg.resume_();
                                (void) ls;
                            });
                        }
                        g.pause();
                        for (auto& t : later) t.join();
                        g.resume_();
                    }
                }));
            });
            continue;
        }
        if (prog == "burst")
        {
            // one parent task spawns a burst of children in a tight loop: far more staged tasks in one queue than a
            // worker converts (or steals) in one batch (64 / 32 per batch in the schedulers of this tree)
            ext.emplace_back([=] {
                rng rr{es};
                long id = new_task_id();
                int const n = 150 + 25 * size;
                std::uint64_t cs = rr.next();
                ex::start_detached(ex::schedule(ex::thread_pool_scheduler{}) | ex::then([=] {
                    rng r2{cs};
                    body_guard g(id);
                    for (int k = 0; k < n; ++k)
                    {
                        long cid = new_task_id();
                        auto s = ex::thread_pool_scheduler{};
                        bool const high = r2.below(8) == 0;
                        bool const yields = r2.below(16) == 0;
                        auto body = [cid, yields] {
                            body_guard cg(cid);
                            if (yields)
                            {
                                cg.pause();
                                pika::this_thread::yield();
                                cg.resume_();
                            }
                        };
                        if (high) ex::start_detached(ex::schedule(ex::with_priority(s, pika::execution::thread_priority::high)) | ex::then(body));
                        else ex::start_detached(ex::schedule(s) | ex::then(body));
                    }
                }));
            });
            continue;
        }
        ext.emplace_back([=] {
            rng rr{es};
            for (int i = 0; i < roots; ++i) spawn(rr.next(), 0, maxdepth, width);
        });
    }
    for (auto& t : ext) t.join();
    long const expected_roots = long(next) * roots;
    (void) expected_roots;

    // wait for completion; a hang is declared from runtime state (not from elapsed time):
    // nothing pending/staged/active twice in a row while tasks are unfinished
    auto& tm = pika::detail::get_runtime().get_thread_manager();
    using st = pika::threads::detail::thread_schedule_state;
    bool hang = false, overflow = false;
    int quiet = 0;
    std::size_t last_log = 0;
    long last_done = -1;
    for (;;)
    {
        std::this_thread::sleep_for(std::chrono::milliseconds(2));
        long d = g_done.load(), t = g_total.load();
        if (e2::g_overflow.load())
        {
            overflow = true;    // the bounded program produced an unbounded log: livelock
            break;
        }
        if (d == t)
        {
            // all known tasks finished and none can be created any more (creators are tasks)
            std::this_thread::sleep_for(std::chrono::milliseconds(2));
            if (g_done.load() == g_total.load()) break;
            continue;
        }
        // quiescent = no task is running, nothing is staged, every queue is empty and the log has
        // stopped growing (a pending thread that sits in no queue does not count as work)
        long ql = 0;
        try { ql = tm.get_queue_length(false); } catch (...) { ql = tm.get_thread_count(st::pending); }
        long busy = tm.get_thread_count(st::active) + tm.get_thread_count(st::staged) + ql;
        std::size_t logsz = e2::g_log->size();
        if (meet)
        {
            // staged tasks that are never converted must count as a hang, not as work in progress:
            // nothing active, every pending queue empty, log and counters unchanged, and every
            // worker has gone round its scheduling loop at least 2000 times since the last change
            static long base_iter[64];
            static bool have_base = false;
            // (get_queue_length counts staged descriptions too, so pending thread objects are counted instead)
            long nobusy = tm.get_thread_count(st::active) + tm.get_thread_count(st::pending);
            if (nobusy == 0 && logsz == last_log && d == last_done)
            {
                if (!have_base)
                {
                    for (int w = 0; w < g_workers && w < 64; ++w) base_iter[w] = g_loop_iter[w].load();
                    have_base = true;
                }
                bool all = true;
                for (int w = 0; w < g_workers && w < 64; ++w) all = all && g_loop_iter[w].load() - base_iter[w] >= 2000;
                if (all && ++quiet >= 50 && g_done.load() != g_total.load())
                {
                    long stg = tm.get_thread_count(st::staged);
                    if (stg > 0)
                        monitor("meet: " + std::to_string(stg) + " staged tasks are never converted although every worker is idle (" +
                            std::to_string(g_meet_in.load()) + " of " + std::to_string(meet_n) + " tasks arrived)");
                    hang = true;
                    break;
                }
                std::this_thread::sleep_for(std::chrono::milliseconds(20));
            }
            else
            {
                quiet = 0;
                have_base = false;
            }
            last_log = logsz;
            last_done = d;
            continue;
        }
        if (busy == 0 && logsz == last_log && d == last_done)
        {
            if (++quiet >= 150 && g_done.load() != g_total.load())
            {
                hang = true;
                break;
            }
            std::this_thread::sleep_for(std::chrono::milliseconds(20));
        }
        else quiet = 0;
        // second probe: work IS queued (busy != 0) but no task is active, neither the log nor the ledger moves, and every
        // worker keeps burning CPU in its scheduling loop: nobody takes the queued work (e.g. a queue no worker looks at)
        {
            static std::vector<long long> cpu_base;
            static int starved_quiet = 0;
            if (busy != 0 && tm.get_thread_count(st::active) == 0 && logsz == last_log && d == last_done)
            {
                std::vector<long long> c = worker_cpu_ns();
                if (cpu_base.empty()) cpu_base = c;
                else if (all_workers_advanced(cpu_base, c))
                {
                    cpu_base = c;
                    if (++starved_quiet >= 300 && g_done.load() != g_total.load())
                    {
                        monitor("queued work is never taken: " + std::to_string(tm.get_thread_count(st::pending)) + " pending / " +
                            std::to_string(tm.get_thread_count(st::staged)) + " staged task(s), no task active, every worker spinning");
                        hang = true;
                        break;
                    }
                }
                std::this_thread::sleep_for(std::chrono::milliseconds(10));
            }
            else
            {
                starved_quiet = 0;
                cpu_base.clear();
            }
        }
        last_log = logsz;
        last_done = d;
    }
    g_flag_stop.store(true);
    setter.join();
    if (!hang && !overflow)
    {
        // let the workers finish storing the last states so that the log ends at rest
        std::size_t prev = 0;
        int stable = 0;
        for (int i = 0; i < 2000 && stable < 10; ++i)
        {
            std::this_thread::sleep_for(std::chrono::milliseconds(1));
            std::size_t cur = e2::g_log->size();
            // internal helper tasks (set_thread_state for a thread that was still active) are not counted by the harness:
            // the log ends at rest only when nothing is pending, staged or active any more
            if (cur == prev && tm.get_thread_count(st::active) == 0 && tm.get_thread_count(st::pending) == 0 &&
                tm.get_thread_count(st::staged) == 0)
                ++stable;
            else stable = 0;
            prev = cur;
        }
    }
    e2::g_enabled.store(false);
    long total = g_total.load();
    for (long i = 0; i < total; ++i)
    {
        auto& t = (*g_tasks)[i];
        if (!hang && t.entered.load() != 1)
            monitor("task " + std::to_string(i) + " entered " + std::to_string(t.entered.load()) + " times");
        if (hang && meet && t.entered.load() == 0)
        {
            monitor("task " + std::to_string(i) + " was never started although the runtime is quiescent");
        }
        if ((hang || overflow) && t.finished.load() == 0 && t.entered.load() > 0)
        {
            monitor("task " + std::to_string(i) + " never finished although the runtime is quiescent (entered " +
                std::to_string(t.entered.load()) + ")");
        }
    }
    std::printf("case e2 prog=%s seed=%llu size=%d tasks=%ld\n", prog.c_str(), (unsigned long long) seed, size, total);
    e2::dump(stdout);
    for (auto const& m : g_monitor) std::printf("monitor %s\n", m.c_str());
    std::printf("end %s\nendcase\n", overflow ? "livelock" : hang ? "hang" : "ok");
    std::fflush(stdout);
    if (hang || overflow) _exit(0);
    pika::finalize();
    pika::stop();
    return 0;
}
