// E2 harness for C01 / C02: generated task programs on the live runtime, exact event log.
// usage: e2_sched <seed> <perturb_per_1024> <prog> <size> [pika options...]
//   prog: fanout | pingpong | mixed
// Prints: log lines, then `monitor <text>` lines (observable violations), then `end ok|hang`.
#include "../e2_log.hpp"

#include <pika/barrier.hpp>
#include <pika/condition_variable.hpp>
#include <pika/execution.hpp>
#include <pika/init.hpp>
#include <pika/latch.hpp>
#include <pika/modules/thread_manager.hpp>
#include <pika/mutex.hpp>
#include <pika/runtime/runtime.hpp>
#include <pika/semaphore.hpp>
#include <pika/thread.hpp>

#include <atomic>
#include <chrono>
#include <memory>
#include <mutex>
#include <string>
#include <thread>
#include <vector>

namespace ex = pika::execution::experimental;
namespace e2 = verif::e2;

struct rng
{
    std::uint64_t s;
    std::uint64_t next()
    {
        std::uint64_t z = (s += 0x9e3779b97f4a7c15ull);
        z = (z ^ (z >> 30)) * 0xbf58476d1ce4e5b9ull;
        z = (z ^ (z >> 27)) * 0x94d049bb133111ebull;
        return z ^ (z >> 31);
    }
    std::uint32_t below(std::uint32_t n) { return n ? std::uint32_t(next() % n) : 0; }
};

static std::atomic<long> g_total{0}, g_done{0}, g_ids{0};
static std::vector<std::string> g_monitor;
static std::atomic<bool> g_mon_lock{false};
static void monitor(std::string s)
{
    while (g_mon_lock.exchange(true)) {}
    if (g_monitor.size() < 20) g_monitor.push_back(std::move(s));
    g_mon_lock.store(false);
}

// per logical task: observable single-runner / exactly-once monitors
struct tinfo
{
    std::atomic<int> entered{0};
    std::atomic<int> running{0};
    std::atomic<int> finished{0};
};
static std::vector<tinfo>* g_tasks = nullptr;

// Flags polled by spinning tasks are set by a plain OS thread, so a spinner (re-queued with boosted
// priority) can never starve the one that releases it.
static std::mutex g_flag_mtx;
static std::vector<std::shared_ptr<std::atomic<bool>>> g_flags;
static std::atomic<bool> g_flag_stop{false};
static void flag_setter()
{
    while (!g_flag_stop.load())
    {
        std::vector<std::shared_ptr<std::atomic<bool>>> todo;
        {
            std::lock_guard<std::mutex> l(g_flag_mtx);
            todo.swap(g_flags);
        }
        if (todo.empty()) { std::this_thread::sleep_for(std::chrono::microseconds(50)); continue; }
        std::this_thread::sleep_for(std::chrono::microseconds(100));
        for (auto& f : todo) f->store(true);
    }
}

static void* self_obj()
{
    return pika::threads::detail::get_thread_id_data(pika::threads::detail::get_self_id());
}

struct body_guard
{
    long id;
    explicit body_guard(long i)
      : id(i)
    {
        auto& t = (*g_tasks)[id];
        if (t.entered.fetch_add(1) != 0) monitor("task " + std::to_string(id) + " body entered twice");
        if (t.running.fetch_add(1) != 0)
            monitor("task " + std::to_string(id) + " runs on two workers at once");
        e2::note("body.enter", self_obj(), std::uint64_t(id));
    }
    void pause()    // about to yield / block
    {
        (*g_tasks)[id].running.fetch_sub(1);
    }
    void resume_()    // running again
    {
        if ((*g_tasks)[id].running.fetch_add(1) != 0)
            monitor("task " + std::to_string(id) + " runs on two workers at once (after resume)");
    }
    ~body_guard()
    {
        auto& t = (*g_tasks)[id];
        e2::note("body.exit", self_obj(), std::uint64_t(id));
        t.running.fetch_sub(1);
        t.finished.fetch_add(1);
        g_done.fetch_add(1);
    }
};

static ex::thread_pool_scheduler sched_with(rng& r)
{
    ex::thread_pool_scheduler s{};
    switch (r.below(6))
    {
    case 0: s = ex::with_priority(s, pika::execution::thread_priority::high); break;
    case 1: s = ex::with_priority(s, pika::execution::thread_priority::low); break;
    case 2: s = ex::with_stacksize(s, pika::execution::thread_stacksize::medium); break;
    case 3: s = ex::with_stacksize(s, pika::execution::thread_stacksize::nostack); break;
    default: break;
    }
    return s;
}

static long new_task_id()
{
    long id = g_ids.fetch_add(1);
    g_total.fetch_add(1);
    return id;
}

static void spawn(std::uint64_t seed, int depth, int maxdepth, int width);

static void task_body(long id, std::uint64_t seed, int depth, int maxdepth, int width, bool nostack)
{
    rng r{seed};
    body_guard g(id);
    int yields = nostack ? 0 : int(r.below(4));
    for (int i = 0; i < yields; ++i)
    {
        g.pause();
        pika::this_thread::yield();
        g.resume_();
    }
    if (depth < maxdepth)
    {
        int w = 1 + int(r.below(std::uint32_t(width)));
        // hand-shake with the first child: the parent blocks, the child releases it - possibly before
        // the parent has finished suspending (the lost-wake-up window)
        bool shake = !nostack && r.below(3) != 0;
        // spin = the parent polls a flag through yield_while (boosted yields after 16 polls)
        bool spin = shake && r.below(3) == 0;
        auto sem = std::make_shared<pika::counting_semaphore<>>(0);
        auto flag = std::make_shared<std::atomic<bool>>(false);
        for (int c = 0; c < w; ++c)
        {
            std::uint64_t cs = r.next();
            if (c == 0 && shake)
            {
                long cid = new_task_id();
                rng rr{cs};
                ex::start_detached(ex::schedule(ex::thread_pool_scheduler{}) |
                    ex::then([=] {
                        rng r2{cs};
                        body_guard cg(cid);
                        if (r2.below(2))
                        {
                            cg.pause();
                            pika::this_thread::yield();
                            cg.resume_();
                        }
                        if (!spin) sem->release();
                        if (depth + 1 < maxdepth) spawn(r2.next(), depth + 1, maxdepth, width);
                    }));
            }
            else { spawn(cs, depth + 1, maxdepth, width); }
        }
        if (shake)
        {
            g.pause();
            if (spin)
            {
                {
                    std::lock_guard<std::mutex> l(g_flag_mtx);
                    g_flags.push_back(flag);
                }
                pika::util::yield_while([&] { return !flag->load(); }, "e2 spin");
            }
            else sem->acquire();
            g.resume_();
        }
    }
    if (!nostack && r.below(4) == 0)
    {
        g.pause();
        pika::this_thread::yield();
        g.resume_();
    }
}

static void spawn(std::uint64_t seed, int depth, int maxdepth, int width)
{
    rng r{seed};
    long id = new_task_id();
    auto s = sched_with(r);
    bool nostack = ex::get_stacksize(s) == pika::execution::thread_stacksize::nostack;
    std::uint64_t bs = r.next();
    if (depth > 0 && r.below(5) == 0 && !nostack)
    {
        pika::thread t([=] { task_body(id, bs, depth, maxdepth, width, false); });
        t.detach();
    }
    else
    {
        ex::start_detached(
            ex::schedule(s) | ex::then([=] { task_body(id, bs, depth, maxdepth, width, nostack); }));
    }
}

int main(int argc, char** argv)
{
    if (argc < 5) return 2;
    std::uint64_t seed = std::strtoull(argv[1], nullptr, 10);
    std::uint32_t perturb = std::uint32_t(std::atoi(argv[2]));
    std::string prog = argv[3];
    int size = std::atoi(argv[4]);
    g_tasks = new std::vector<tinfo>(200000);
    // coroutine layer sites co.enter / co.yield / co.resume / co.return (model `schedco`; the base
    // model `sched` skips them)
    e2::g_wanted_extra = +[](char const* s) { return s[0] == 'c' && s[1] == 'o' && s[2] == '.'; };
    e2::install(seed, perturb);

    std::vector<char const*> av{argv[0]};
    for (int i = 5; i < argc; ++i) av.push_back(argv[i]);
    pika::start(nullptr, int(av.size()), av.data());

    std::thread setter(flag_setter);
    rng r{seed * 7919 + 13};
    int roots = prog == "pingpong" ? size : 1 + size / 4;
    int maxdepth = prog == "fanout" ? 3 + int(r.below(3)) : 2 + int(r.below(2));
    int width = prog == "fanout" ? 2 + int(r.below(3)) : 2;
    // root tasks are submitted from this (non-pika) thread and from extra OS threads
    std::vector<std::thread> ext;
    int next = 1 + int(r.below(3));
    for (int e = 0; e < next; ++e)
    {
        std::uint64_t es = r.next();
        ext.emplace_back([=] {
            rng rr{es};
            for (int i = 0; i < roots; ++i) spawn(rr.next(), 0, maxdepth, width);
        });
    }
    for (auto& t : ext) t.join();
    long const expected_roots = long(next) * roots;
    (void) expected_roots;

    // wait for completion; a hang is declared from runtime state (not from elapsed time):
    // nothing pending/staged/active twice in a row while tasks are unfinished
    auto& tm = pika::detail::get_runtime().get_thread_manager();
    using st = pika::threads::detail::thread_schedule_state;
    bool hang = false, overflow = false;
    int quiet = 0;
    std::size_t last_log = 0;
    long last_done = -1;
    for (;;)
    {
        std::this_thread::sleep_for(std::chrono::milliseconds(2));
        long d = g_done.load(), t = g_total.load();
        if (e2::g_overflow.load())
        {
            overflow = true;    // the bounded program produced an unbounded log: livelock
            break;
        }
        if (d == t)
        {
            // all known tasks finished and none can be created any more (creators are tasks)
            std::this_thread::sleep_for(std::chrono::milliseconds(2));
            if (g_done.load() == g_total.load()) break;
            continue;
        }
        // quiescent = no task is running, nothing is staged, every queue is empty and the log has
        // stopped growing (a pending thread that sits in no queue does not count as work)
        long ql = 0;
        try { ql = tm.get_queue_length(false); } catch (...) { ql = tm.get_thread_count(st::pending); }
        long busy = tm.get_thread_count(st::active) + tm.get_thread_count(st::staged) + ql;
        std::size_t logsz = e2::g_log->size();
        if (busy == 0 && logsz == last_log && d == last_done)
        {
            if (++quiet >= 150 && g_done.load() != g_total.load())
            {
                hang = true;
                break;
            }
            std::this_thread::sleep_for(std::chrono::milliseconds(20));
        }
        else quiet = 0;
        last_log = logsz;
        last_done = d;
    }
    g_flag_stop.store(true);
    setter.join();
    if (!hang && !overflow)
    {
        // let the workers finish storing the last states so that the log ends at rest
        std::size_t prev = 0;
        int stable = 0;
        for (int i = 0; i < 2000 && stable < 10; ++i)
        {
            std::this_thread::sleep_for(std::chrono::milliseconds(1));
            std::size_t cur = e2::g_log->size();
            if (cur == prev && tm.get_thread_count(st::active) == 0) ++stable;
            else stable = 0;
            prev = cur;
        }
    }
    e2::g_enabled.store(false);
    long total = g_total.load();
    for (long i = 0; i < total; ++i)
    {
        auto& t = (*g_tasks)[i];
        if (!hang && t.entered.load() != 1)
            monitor("task " + std::to_string(i) + " entered " + std::to_string(t.entered.load()) + " times");
        if ((hang || overflow) && t.finished.load() == 0 && t.entered.load() > 0)
        {
            monitor("task " + std::to_string(i) + " never finished although the runtime is quiescent (entered " +
                std::to_string(t.entered.load()) + ")");
        }
    }
    std::printf("case e2 prog=%s seed=%llu size=%d tasks=%ld\n", prog.c_str(), (unsigned long long) seed, size, total);
    e2::dump(stdout);
    for (auto const& m : g_monitor) std::printf("monitor %s\n", m.c_str());
    std::printf("end %s\nendcase\n", overflow ? "livelock" : hang ? "hang" : "ok");
    std::fflush(stdout);
    if (hang || overflow) _exit(0);
    pika::finalize();
    pika::stop();
    return 0;
}
