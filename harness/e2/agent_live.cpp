// Live harness for C07 (follow-up C07h): REAL OS threads block on pika::condition_variable /
// condition_variable_any through the REAL pika default_agent (libs/pika/execution_base/src/this_thread.cpp)
// while other OS threads and pika tasks notify.  Engine E2 (harness/e2_log.hpp): every hook note is appended
// under one log lock, so the log is an exact linearisation of the instrumented steps; the default_agent notes
// (dag.*) are issued while the agent's std::mutex is held, the condition variable's notes (cv.*) while its
// internal spinlock is held.  The log of every iteration is replayed through the Lean acceptor of
// Model/Agent.lean (`driver agent`), which also runs the log monitors.
//
//   e2_agent_live <seed> <iterations> <budget_s> <mode> [pika options]
//     mode = mix      random programs, every 4th iteration a directed schedule (see below), some iterations an
//                     abort scenario (a detail::condition_variable destroyed under a blocked waiter) or a
//                     timeout-only scenario (timed waits nobody notifies)
//            directed only the directed schedule
//            finding  the directed reproduction of the timed-wait finding (see notes/C07.md): a timed waiter
//                     on an OS thread is notified before its deadline
//
// Directed schedule: the waiter is HELD at the hook point dag.s.lock - after it has enqueued itself and released
// the condition variable's internal lock, before it takes the agent's mutex in suspend() - until the notifier,
// which has popped its queue entry, is inside default_agent::resume() (dag.r.acq logged).  With the pinned
// tree's resume() the notifier then waits for the waiter's `running_ = false`; without that wait it stores
// `running_ = true`, notifies nobody and returns, and the waiter sleeps for ever.
//
// Verdicts never depend on elapsed time.  The controller (main thread) looks at the state derived from the log:
//   * quiescent  = every logical thread has finished, or is an OS-thread waiter whose agent's last hand-shake
//                  event is dag.s.park with no `running_ = true` stored since (nobody can change that but another
//                  thread, and all others have finished);
//   * at quiescence the controller sets the predicate flag, requests stop and calls notify_all ("rescue": waiters
//                  that were legitimately un-notified leave); a LOST WAKE-UP is: a waiter is still blocked at
//                  quiescence after 3 further notify_all calls found an empty queue and changed nothing;
//   * suspend() returning although nobody resumed, or resume() storing running_ = true for an agent that has not
//                  suspended, are reported from the log as they happen.
// The wall-clock budget only ends the run as `inconclusive` (exit 0).
#include <pika/config.hpp>
#include <pika/concurrency/spinlock.hpp>
#include <pika/execution.hpp>
#include <pika/execution_base/this_thread.hpp>
#include <pika/init.hpp>
#include <pika/synchronization/condition_variable.hpp>
#include <pika/synchronization/detail/condition_variable.hpp>
#include <pika/synchronization/stop_token.hpp>

#include "../e2_log.hpp"

#include <atomic>
#include <dlfcn.h>
#include <pthread.h>
#include <chrono>
#include <cstdint>
#include <cstdio>
#include <cstdlib>
#include <cstring>
#include <functional>
#include <memory>
#include <mutex>
#include <string>
#include <thread>
#include <unistd.h>
#include <vector>

namespace ex = pika::execution::experimental;
namespace e2 = verif::e2;
using spinlock = pika::concurrency::detail::spinlock;

struct rng
{
    std::uint64_t s;
    std::uint64_t next()
    {
        std::uint64_t z = (s += 0x9e3779b97f4a7c15ull);
        z = (z ^ (z >> 30)) * 0xbf58476d1ce4e5b9ull;
        z = (z ^ (z >> 27)) * 0x94d049bb133111ebull;
        return z ^ (z >> 31);
    }
    std::uint32_t below(std::uint32_t n) { return n ? std::uint32_t(next() % n) : 0; }
};

// ------------------------------------------------------------------------------------ user lock
// One BasicLockable over three real lock types; `owner` (log thread id) is the observable for "wait returned
// with the user lock held".
struct anylock
{
    int kind = 0;    // 0 pika spinlock, 1 harness test-and-set lock, 2 std::mutex
    spinlock sl;
    std::atomic<bool> tas{false};
    std::mutex sm;
    std::atomic<int> owner{-1};
    void lock()
    {
        if (kind == 0) sl.lock();
        else if (kind == 1)
        {
            while (tas.exchange(true, std::memory_order_acquire)) sched_yield();
        }
        else sm.lock();
        owner.store(e2::os_id(), std::memory_order_relaxed);
    }
    void unlock()
    {
        owner.store(-1, std::memory_order_relaxed);
        if (kind == 0) sl.unlock();
        else if (kind == 1) tas.store(false, std::memory_order_release);
        else sm.unlock();
    }
    bool mine() const { return owner.load(std::memory_order_relaxed) == e2::os_id(); }
};

// ------------------------------------------------------------------------------------ derived state
constexpr int MAXT = 8;
struct slot_t    // one per logical thread; the agent fields are meaningful for OS-thread waiters
{
    std::atomic<void const*> agent{nullptr};
    std::atomic<int> done{0};
    std::atomic<bool> is_waiter{false};
    // written under the log lock (g_drop)
    std::atomic<bool> parked{false}, go_since{false}, timed_enq{false};
    std::atomic<int> parks{0}, gos{0}, rets{0}, enqs{0}, r_seen{0};
    // OS-level notifications on the agent's two std::condition_variables (interposed pthread_cond_signal/broadcast)
    std::atomic<bool> sig_since_chk{false}, bc_since_acq{false};
    std::atomic<long> os_notifies{0}, os_waits{0};
};
struct iter_state
{
    slot_t slot[MAXT];
    int n = 0;
    std::atomic<bool> m1{false}, m2{false}, m5{false}, m6{false}, finding{false};
    std::atomic<int> m1_tid{-1}, m2_tid{-1}, m5_tid{-1}, m6_tid{-1};
    std::atomic<long> ctl_last_all{-1};    // queue size seen by the controller's last notify_all
    std::atomic<bool> release{false};      // ends every directed hold / state wait of this iteration
};
static iter_state* g_it = nullptr;
static std::atomic<bool> g_abort{false};
static thread_local int tl_slot = -1;
static thread_local bool tl_hold = false;
static thread_local bool tl_ctl = false;

static bool wanted(char const* s)
{
    return std::strncmp(s, "dag.", 4) == 0 || std::strncmp(s, "cv.", 3) == 0 || std::strncmp(s, "x.", 2) == 0;
}

static slot_t* slot_of_agent(void const* obj)
{
    iter_state* it = g_it;
    if (it == nullptr) return nullptr;
    for (int i = 0; i < it->n; ++i)
        if (it->slot[i].agent.load(std::memory_order_relaxed) == obj) return &it->slot[i];
    return nullptr;
}

// called under the log lock for every record: maintains the derived state; keeps every record
static bool on_record(char const* site, void const* obj, std::uint64_t a, std::uint64_t b)
{
    iter_state* it = g_it;
    if (it == nullptr) return false;
    if (site[0] == 'x')
    {
        // x.os.notify <agent> <0 signal | 1 broadcast> <offset of the cond> / x.os.wait <agent> <0 in | 1 out> <offset>
        if (std::strncmp(site, "x.os.", 5) != 0) return false;
        for (int i = 0; i < it->n; ++i)
        {
            if (it->slot[i].agent.load(std::memory_order_relaxed) != obj) continue;
            if (site[5] == 'n')
            {
                it->slot[i].sig_since_chk.store(true);
                it->slot[i].bc_since_acq.store(true);
                it->slot[i].os_notifies.fetch_add(1);
            }
            else it->slot[i].os_waits.fetch_add(1);
        }
        return false;
    }
    if (site[0] == 'c')
    {
        if (std::strcmp(site, "cv.all") == 0 && tl_ctl) it->ctl_last_all.store(long(a));
        if (tl_slot < 0) return false;
        slot_t& s = it->slot[tl_slot];
        if (std::strcmp(site, "cv.enq") == 0)
        {
            s.enqs.fetch_add(1);
            s.timed_enq.store(b != 0);
        }
        else if (std::strcmp(site, "cv.woke") == 0) s.timed_enq.store(false);
        return false;
    }
    if (site[0] != 'd') return false;
    slot_t* s = slot_of_agent(obj);
    if (s == nullptr) return false;
    char const* p = site + 4;
    if (std::strcmp(p, "s.acq") == 0) s->bc_since_acq.store(false);
    else if (std::strcmp(p, "r.chk") == 0 || std::strcmp(p, "a.chk") == 0) s->sig_since_chk.store(false);
    if (std::strcmp(p, "s.park") == 0)
    {
        if (!s->bc_since_acq.load())
        {
            it->m6.store(true);
            it->m6_tid.store(e2::tl_os);
        }
        s->parks.fetch_add(1);
        s->go_since.store(false);
        s->parked.store(true);
    }
    else if (std::strcmp(p, "s.woke") == 0)
    {
        if (s->parked.load() && !s->go_since.load())
        {
            it->m1.store(true);
            it->m1_tid.store(e2::tl_os);
        }
        s->parked.store(false);
    }
    else if (std::strcmp(p, "r.go") == 0 || std::strcmp(p, "a.go") == 0)
    {
        if (a != 0)    // the note carries running_ after the store
        {
            if (!s->parked.load() || s->go_since.load())
            {
                it->m2.store(true);
                it->m2_tid.store(e2::tl_os);
            }
            if (!s->sig_since_chk.load())
            {
                it->m5.store(true);
                it->m5_tid.store(e2::tl_os);
            }
            s->go_since.store(true);
            s->gos.fetch_add(1);
        }
    }
    else if (std::strcmp(p, "r.acq") == 0 || std::strcmp(p, "a.acq") == 0)
    {
        s->r_seen.store(1);
        // resumer about to wait for a suspension that cannot come: the owner is inside a TIMED wait (it will not
        // call suspend(), and it needs the internal lock the resumer is holding to get out)
        if (a != 0 && s->timed_enq.load()) it->finding.store(true);
    }
    else if (std::strcmp(p, "r.ret") == 0 || std::strcmp(p, "a.ret") == 0)
    {
        s->rets.fetch_add(1);
        s->r_seen.store(1);
    }
    return false;
}

// directed delay: hold the waiter between the release of the cv's internal lock and suspend()'s mutex
static void on_point(char const* site, void const*, std::uint64_t, std::uint64_t)
{
    if (!tl_hold || tl_slot < 0 || std::strcmp(site, "dag.s.lock") != 0) return;
    iter_state* it = g_it;
    e2::note("x.hold", nullptr, 1, 0);
    for (unsigned k = 0; !it->slot[tl_slot].r_seen.load() && !it->release.load() && !g_abort.load(); ++k)
    {
        if (k < 100) sched_yield();
        else usleep(20);
    }
    e2::note("x.hold", nullptr, 0, 0);
}

// ------------------------------------------------------------------------------------ OS condition variables
// std::condition_variable::notify_one / notify_all / wait (libstdc++) end in pthread_cond_signal / _broadcast / _wait;
// the executable's definitions below take precedence over libc's.  A notification / wait on a condition variable
// that lies inside a registered default_agent is noted in the log (the notes are issued while the agent's mutex is
// held by the caller: the agent's code notifies and waits under its mutex).
static void const* in_agent(void const* c)    // the registered agent object that contains c, or nullptr
{
    iter_state* it = g_it;
    if (it == nullptr || !e2::g_enabled.load(std::memory_order_relaxed)) return nullptr;
    for (int i = 0; i < it->n; ++i)
    {
        void const* ag = it->slot[i].agent.load(std::memory_order_relaxed);
        auto base = reinterpret_cast<std::uintptr_t>(ag);
        auto a = reinterpret_cast<std::uintptr_t>(c);
        if (base != 0 && a >= base && a < base + 512) return ag;
    }
    return nullptr;
}
static std::uint64_t off_in(void const* ag, void const* c)
{
    return std::uint64_t(reinterpret_cast<std::uintptr_t>(c) - reinterpret_cast<std::uintptr_t>(ag));
}
template <typename F>
static F real_fn(char const* name)
{
    void* f = dlvsym(RTLD_NEXT, name, "GLIBC_2.3.2");
    if (f == nullptr) f = dlsym(RTLD_NEXT, name);
    return reinterpret_cast<F>(f);
}
extern "C" int pthread_cond_signal(pthread_cond_t* c)
{
    static auto real = real_fn<int (*)(pthread_cond_t*)>("pthread_cond_signal");
    if (void const* ag = in_agent(c)) e2::note("x.os.notify", ag, 0, off_in(ag, c));
    return real(c);
}
extern "C" int pthread_cond_broadcast(pthread_cond_t* c)
{
    static auto real = real_fn<int (*)(pthread_cond_t*)>("pthread_cond_broadcast");
    if (void const* ag = in_agent(c)) e2::note("x.os.notify", ag, 1, off_in(ag, c));
    return real(c);
}
extern "C" int pthread_cond_wait(pthread_cond_t* c, pthread_mutex_t* m)
{
    static auto real = real_fn<int (*)(pthread_cond_t*, pthread_mutex_t*)>("pthread_cond_wait");
    void const* ag = in_agent(c);
    if (ag) e2::note("x.os.wait", ag, 0, off_in(ag, c));    // about to release the mutex and block
    int r = real(c, m);
    if (ag) e2::note("x.os.wait", ag, 1, off_in(ag, c));    // woken (notification or spurious), mutex re-acquired
    return r;
}

// ------------------------------------------------------------------------------------ monitors / output
static std::vector<std::string> g_mon;
static std::atomic<bool> g_mon_lock{false};
static void monitor(std::string s)
{
    while (g_mon_lock.exchange(true, std::memory_order_acquire)) {}
    if (g_mon.size() < 12) g_mon.push_back(std::move(s));
    g_mon_lock.store(false, std::memory_order_release);
}

static void dump_and_clear(FILE* f)
{
    e2::lock();
    std::vector<std::pair<void const*, int>> ids;
    for (auto const& r : *e2::g_log)
    {
        int id = 0;
        if (r.obj != nullptr)
        {
            for (auto const& p : ids)
                if (p.first == r.obj) id = p.second;
            if (id == 0)
            {
                id = int(ids.size()) + 1;
                ids.emplace_back(r.obj, id);
            }
        }
        std::fprintf(f, "%d %s %d %llu %llu\n", r.os, r.site, id, (unsigned long long) r.a, (unsigned long long) r.b);
    }
    e2::g_log->clear();
    e2::unlock();
}

// ------------------------------------------------------------------------------------ scenario
enum form_t { F_WAIT, F_WAITP, F_SWAITP, F_TWAIT, F_TWAITP, F_STWAITP, F_DWAIT };
static char const* form_name[] = {"wait", "waitp", "swaitp", "twait", "twaitp", "stwaitp", "dwait"};

struct op_t
{
    int kind;    // 0 lock, 1 unlock, 2 set flag, 3 notify_one, 4 notify_all, 5 request_stop, 6 wait until a waiter
                 // has enqueued (state wait), 7 short pause, 8 destroy the detail cv
    int arg;
};

struct thr_t
{
    bool waiter = false, pika_task = false, hold = false;
    form_t form = F_WAIT;
    int rounds = 1;
    int tmo_us = 1000;
    std::vector<op_t> ops;
};

struct scen_t
{
    std::string kind;
    int cvkind = 0;      // 0 pika::condition_variable + std::unique_lock<anylock>, 1 condition_variable_any +
                         // std::unique_lock<anylock>, 2 condition_variable_any + anylock itself, 3 detail cv (abort)
    anylock ul;
    int flag = 0;        // protected by ul
    pika::condition_variable cv;
    pika::condition_variable_any cva;
    pika::detail::condition_variable* dcv = nullptr;
    spinlock dmtx;
    pika::stop_source src;
    std::vector<thr_t> thr;
    iter_state st;
    std::atomic<bool> dcv_gone{false};
};

static void notify(scen_t& sc, bool all)
{
    if (sc.cvkind == 0) { all ? sc.cv.notify_all() : sc.cv.notify_one(); }
    else if (sc.cvkind == 3)
    {
        if (sc.dcv_gone.load()) return;
        std::unique_lock<spinlock> l(sc.dmtx);
        if (sc.dcv_gone.load()) return;
        all ? sc.dcv->notify_all(std::move(l)) : (void) sc.dcv->notify_one(std::move(l));
    }
    else { all ? sc.cva.notify_all() : sc.cva.notify_one(); }
}

static void state_wait(scen_t& sc, std::function<bool()> c)
{
    for (unsigned k = 0; !c() && !sc.st.release.load() && !g_abort.load(); ++k)
    {
        if (k < 50) sched_yield();
        else usleep(30);
    }
}

static void waiter_body(scen_t& sc, int i)
{
    thr_t& t = sc.thr[i];
    tl_slot = i;
    int me = e2::os_id();
    auto ag = pika::execution::this_thread::detail::agent();    // constructs this thread's default_agent (dag.new)
    sc.st.slot[i].agent.store(static_cast<void const*>(&ag.ref()));
    e2::note("x.w.begin", nullptr, std::uint64_t(i), std::uint64_t(t.form));
    tl_hold = t.hold;
    auto pred = [&] { return sc.flag != 0; };
    for (int r = 0; r < t.rounds; ++r)
    {
        if (t.form == F_DWAIT)
        {
            std::unique_lock<spinlock> l(sc.dmtx);
            bool threw = false;
            try
            {
                sc.dcv->wait(l);
            }
            catch (pika::exception const&)
            {
                threw = true;
            }
            e2::note("x.w.dwait", nullptr, threw, 0);
            if (!l.owns_lock()) monitor("thread " + std::to_string(me) + ": detail wait left without the lock");
            if (sc.dcv_gone.load() && !threw)
                monitor("thread " + std::to_string(me) + ": wait on a destroyed condition variable returned normally (abort() did not make suspend() throw)");
            continue;
        }
        auto check = [&](char const* what) {
            if (!sc.ul.mine())
                monitor("thread " + std::to_string(me) + ": " + what + " returned without the user lock");
        };
        auto deadline = std::chrono::microseconds(t.tmo_us);
        auto run = [&](auto& lk) {
            switch (t.form)
            {
            case F_WAIT:
                if (sc.cvkind == 0) { if constexpr (requires { sc.cv.wait(lk); }) sc.cv.wait(lk); }
                else sc.cva.wait(lk);
                check("wait");
                break;
            case F_WAITP:
                if (sc.cvkind == 0) { if constexpr (requires { sc.cv.wait(lk, pred); }) sc.cv.wait(lk, pred); }
                else sc.cva.wait(lk, pred);
                check("wait(pred)");
                if (sc.flag == 0) monitor("thread " + std::to_string(me) + ": wait(pred) returned although the predicate is false");
                break;
            case F_SWAITP:
            {
                bool res = sc.cva.wait(lk, sc.src.get_token(), pred);
                check("wait(stop_token, pred)");
                if (res != (sc.flag != 0)) monitor("thread " + std::to_string(me) + ": stop-token wait returned a value different from the predicate");
                if (!res && !sc.src.stop_requested()) monitor("thread " + std::to_string(me) + ": stop-token wait returned false although stop was never requested");
                break;
            }
            case F_TWAIT:
            {
                pika::cv_status res = pika::cv_status::timeout;
                if (sc.cvkind == 0) { if constexpr (requires { sc.cv.wait_for(lk, deadline); }) res = sc.cv.wait_for(lk, deadline); }
                else res = sc.cva.wait_for(lk, deadline);
                check("wait_for");
                e2::note("x.w.twait", nullptr, res == pika::cv_status::timeout, 0);
                break;
            }
            case F_TWAITP:
            {
                bool res = false;
                if (sc.cvkind == 0) { if constexpr (requires { sc.cv.wait_for(lk, deadline, pred); }) res = sc.cv.wait_for(lk, deadline, pred); }
                else res = sc.cva.wait_for(lk, deadline, pred);
                check("wait_for(pred)");
                if (res != (sc.flag != 0)) monitor("thread " + std::to_string(me) + ": wait_for(pred) returned a value different from the predicate");
                break;
            }
            case F_STWAITP:
            {
                bool res = sc.cva.wait_for(lk, sc.src.get_token(), deadline, pred);
                check("wait_for(stop_token, pred)");
                if (res != (sc.flag != 0)) monitor("thread " + std::to_string(me) + ": timed stop-token wait returned a value different from the predicate");
                break;
            }
            default: break;
            }
        };
        if (sc.cvkind == 2)
        {
            sc.ul.lock();
            run(sc.ul);
            sc.ul.unlock();
        }
        else
        {
            std::unique_lock<anylock> lk(sc.ul);
            run(lk);
        }
    }
    tl_hold = false;
    e2::note("x.w.end", nullptr, std::uint64_t(i), 0);
    sc.st.slot[i].done.store(1);
}

static void other_body(scen_t& sc, int i)
{
    thr_t& t = sc.thr[i];
    e2::note("x.n.begin", nullptr, std::uint64_t(i), t.pika_task);
    bool locked = false;
    for (op_t const& o : t.ops)
    {
        switch (o.kind)
        {
        case 0: sc.ul.lock(); locked = true; break;
        case 1: sc.ul.unlock(); locked = false; break;
        case 2: sc.flag = o.arg; break;
        case 3: notify(sc, false); break;
        case 4: notify(sc, true); break;
        case 5: sc.src.request_stop(); break;
        case 6: state_wait(sc, [&] { return sc.st.slot[o.arg].enqs.load() > 0 || sc.st.slot[o.arg].done.load() != 0; }); break;
        case 7: usleep(useconds_t(o.arg)); break;
        case 8:
        {
            // the waiter has enqueued and released dmtx (it is in suspend() or on its way there)
            {
                std::unique_lock<spinlock> l(sc.dmtx);
                sc.dcv_gone.store(true);
            }
            e2::note("x.dcv.destroy", nullptr, 0, 0);
            delete sc.dcv;    // ~condition_variable: queue not empty -> abort_all -> agent.abort()
            e2::note("x.dcv.destroyed", nullptr, 0, 0);
            break;
        }
        }
    }
    if (locked) sc.ul.unlock();
    e2::note("x.n.end", nullptr, std::uint64_t(i), 0);
    sc.st.slot[i].done.store(1);
}

static void spawn_task(std::function<void()> f)
{
    ex::start_detached(ex::schedule(ex::thread_pool_scheduler{}) | ex::then(std::move(f)));
}

static std::vector<op_t> notifier_ops(rng& g, int nwaiters, bool stopcase)
{
    std::vector<op_t> ops;
    int blocks = 1 + g.below(3);
    for (int b = 0; b < blocks; ++b)
    {
        int pre = g.below(5);
        if (pre == 0 && nwaiters > 0) ops.push_back({6, int(g.below(nwaiters))});
        else if (pre == 1) ops.push_back({7, int(g.below(150))});
        if (stopcase && g.below(3) == 0)
        {
            ops.push_back({5, 0});
            continue;
        }
        bool all = g.below(5) < 2;
        bool inside = g.below(2) == 0;
        bool bare = g.below(6) == 0;
        if (bare)
        {
            ops.push_back({all ? 4 : 3, 0});
            continue;
        }
        ops.push_back({0, 0});
        if (g.below(5) != 0) ops.push_back({2, 1});
        if (inside) ops.push_back({all ? 4 : 3, 0});
        ops.push_back({1, 0});
        if (!inside) ops.push_back({all ? 4 : 3, 0});
    }
    return ops;
}

static std::unique_ptr<scen_t> make_scen(std::uint64_t seed, int i, std::string const& mode)
{
    rng g{seed * 0x2545f4914f6cdd1dull + std::uint64_t(i) * 0x9e3779b97f4a7c15ull + 12345};
    auto sc = std::make_unique<scen_t>();
    sc->ul.kind = int(g.below(3));
    sc->cvkind = int(g.below(3));
    std::string kind = mode;
    if (mode == "mix")
    {
        int k = i % 4 == 0 ? 0 : int(1 + g.below(10));
        kind = k == 0 ? "directed" : k == 1 ? "abort" : k == 2 ? "timeout" : "random";
    }
    sc->kind = kind;
    if (kind == "directed")
    {
        // waiter held in the window; the notifier waits for the enqueue, sets the flag, notifies
        thr_t w;
        w.waiter = true;
        w.hold = true;
        w.form = g.below(3) == 0 ? F_WAIT : (sc->cvkind != 0 && g.below(3) == 0 ? F_SWAITP : F_WAITP);
        sc->thr.push_back(w);
        thr_t n;
        n.pika_task = g.below(3) == 0;
        bool all = g.below(2) == 0;
        bool inside = g.below(2) == 0;
        n.ops = {{6, 0}, {0, 0}, {2, 1}};
        if (inside) n.ops.push_back({all ? 4 : 3, 0});
        n.ops.push_back({1, 0});
        if (!inside) n.ops.push_back({all ? 4 : 3, 0});
        sc->thr.push_back(n);
        if (g.below(2) == 0)
        {
            // a second, un-held waiter and a second notifier
            thr_t w2;
            w2.waiter = true;
            w2.form = F_WAITP;
            sc->thr.push_back(w2);
            thr_t n2;
            n2.pika_task = g.below(2) == 0;
            n2.ops = {{6, 2}, {0, 0}, {2, 1}, {1, 0}, {4, 0}};
            sc->thr.push_back(n2);
        }
    }
    else if (kind == "finding")
    {
        sc->cvkind = int(g.below(3));
        thr_t w;
        w.waiter = true;
        w.form = F_TWAIT;
        w.tmo_us = 200000;
        sc->thr.push_back(w);
        thr_t n;
        n.ops = {{6, 0}, {3, 0}};
        sc->thr.push_back(n);
    }
    else if (kind == "abort")
    {
        sc->cvkind = 3;
        sc->dcv = new pika::detail::condition_variable;
        thr_t w;
        w.waiter = true;
        w.form = F_DWAIT;
        w.hold = g.below(2) == 0;
        sc->thr.push_back(w);
        thr_t d;
        d.pika_task = g.below(3) == 0;
        d.ops = {{6, 0}, {8, 0}};
        sc->thr.push_back(d);
    }
    else if (kind == "timeout")
    {
        int nw = 1 + int(g.below(3));
        for (int k = 0; k < nw; ++k)
        {
            thr_t w;
            w.waiter = true;
            w.form = sc->cvkind != 0 && g.below(4) == 0 ? F_STWAITP : (g.below(2) ? F_TWAIT : F_TWAITP);
            w.tmo_us = 200 + int(g.below(1500));
            w.rounds = 1 + int(g.below(2));
            sc->thr.push_back(w);
        }
    }
    else
    {
        bool stopcase = sc->cvkind != 0 && g.below(3) == 0;
        int nw = 1 + int(g.below(3));
        int nn = 1 + int(g.below(3));
        for (int k = 0; k < nw; ++k)
        {
            thr_t w;
            w.waiter = true;
            w.form = stopcase && g.below(3) != 0 ? F_SWAITP : (g.below(5) < 2 ? F_WAIT : F_WAITP);
            w.rounds = g.below(6) == 0 ? 2 : 1;
            sc->thr.push_back(w);
        }
        for (int k = 0; k < nn; ++k)
        {
            thr_t n;
            n.pika_task = g.below(3) == 0;
            n.ops = notifier_ops(g, nw, stopcase);
            sc->thr.push_back(n);
        }
    }
    sc->st.n = int(sc->thr.size());
    for (int k = 0; k < sc->st.n; ++k) sc->st.slot[k].is_waiter.store(sc->thr[k].waiter);
    return sc;
}

static std::string describe(scen_t const& sc)
{
    static char const* cvn[] = {"plain", "any", "anyraw", "detail"};
    static char const* lkn[] = {"spin", "user", "stdmutex"};
    std::string s = "kind=" + sc.kind + " cv=" + cvn[sc.cvkind] + " lock=" + lkn[sc.ul.kind] + " threads=" + std::to_string(sc.thr.size()) + " prog=";
    for (std::size_t k = 0; k < sc.thr.size(); ++k)
    {
        thr_t const& t = sc.thr[k];
        if (k) s += "|";
        if (t.waiter) s += std::string("W:") + form_name[t.form] + (t.hold ? ":held" : "") + (t.rounds > 1 ? "x2" : "");
        else
        {
            s += t.pika_task ? "T:" : "N:";
            for (op_t const& o : t.ops)
            {
                static char const* on[] = {"L", "U", "set", "n1", "nall", "stop", "waitenq", "pause", "destroy"};
                s += on[o.kind];
                s += ",";
            }
        }
    }
    return s;
}

int main(int argc, char** argv)
{
    if (argc < 5) return 2;
    std::uint64_t seed = std::strtoull(argv[1], nullptr, 10);
    int iters = std::atoi(argv[2]);
    double budget = std::atof(argv[3]);
    std::string mode = argv[4];
    std::vector<char const*> av{argv[0]};
    for (int i = 5; i < argc; ++i) av.push_back(argv[i]);

    e2::g_wanted = &wanted;
    e2::g_drop = &on_record;
    e2::g_on_point = &on_point;
    e2::install(seed, mode == "mix" || mode == "random" ? 200 : 0);
    tl_ctl = true;
    pika::start(nullptr, int(av.size()), av.data());

    auto t0 = std::chrono::steady_clock::now();
    auto over = [&] { return std::chrono::duration<double>(std::chrono::steady_clock::now() - t0).count() > budget; };
    int ran = 0, violations = 0, inconclusive = 0;
    for (int i = 0; i < iters; ++i)
    {
        auto scp = make_scen(seed, i, mode);
        scen_t& sc = *scp;
        g_mon.clear();
        {
            e2::lock();
            e2::g_log->clear();
            g_it = &sc.st;
            e2::unlock();
        }
        std::vector<std::thread> os;
        for (int k = 0; k < sc.st.n; ++k)
        {
            if (sc.thr[k].waiter) os.emplace_back([&sc, k] { waiter_body(sc, k); });
            else if (sc.thr[k].pika_task) spawn_task([&sc, k] { other_body(sc, k); });
            else os.emplace_back([&sc, k] { other_body(sc, k); });
        }
        // controller: verdicts from state only
        std::string status = "ok";
        int empty_rescues = 0, rescues = 0;
        bool stop_sent = false;
        for (unsigned spin = 0;; ++spin)
        {
            e2::lock();
            bool all_done = true, quiescent = true;
            int blocked = -1;
            for (int k = 0; k < sc.st.n; ++k)
            {
                slot_t& s = sc.st.slot[k];
                if (s.done.load()) continue;
                all_done = false;
                if (s.is_waiter.load() && s.parked.load() && !s.go_since.load()) blocked = k;
                else quiescent = false;
            }
            bool m1 = sc.st.m1.load(), fnd = sc.st.finding.load(), m5 = sc.st.m5.load(), m6 = sc.st.m6.load();
            e2::unlock();
            if (m5)
            {
                monitor("missing notification: resume()/abort() by thread " + std::to_string(sc.st.m5_tid.load()) +
                    " stored running_ = true for a suspended agent without notifying the condition variable the agent is "
                    "waiting on (the suspended thread is never woken)");
                status = "violation";
                break;
            }
            if (m6)
            {
                monitor("missing notification: suspend() of thread " + std::to_string(sc.st.m6_tid.load()) +
                    " stored running_ = false without notifying resume_cv_ (a resume() waiting for the suspension is never woken)");
                status = "violation";
                break;
            }
            if (m1)
            {
                monitor("suspend() of thread " + std::to_string(sc.st.m1_tid.load()) +
                    " returned although no resume()/abort() had stored running_ = true since it suspended");
                status = "violation";
                break;
            }
            if (fnd)
            {
                monitor("timed-wait-deadlock: a timed waiter on a plain OS thread was notified before its deadline: the notifier "
                        "is blocked in default_agent::resume() (it waits for the target's suspend(), which a timed wait never calls) "
                        "while it holds the condition variable's internal lock, which the waiter needs to leave wait_until");
                status = "deadlock";
                break;
            }
            if (all_done) break;
            if (quiescent)
            {
                if (sc.cvkind == 3 && sc.dcv_gone.load())
                {
                    monitor("lost wake-up: thread " + std::to_string(blocked) +
                        " is still blocked in default_agent::suspend() with running_ == false after the condition variable was "
                        "destroyed and abort() returned (abort did not wake the suspended agent)");
                    status = "lostwake";
                    break;
                }
                if (empty_rescues >= 3)
                {
                    monitor("lost wake-up: logical thread " + std::to_string(blocked) +
                        " is blocked in default_agent::suspend() with running_ == false at quiescence although its queue entry "
                        "is gone: 3 further notify_all calls found an empty queue and changed nothing");
                    status = "lostwake";
                    break;
                }
                // rescue: let legitimately un-notified waiters leave
                sc.ul.lock();
                sc.flag = 1;
                sc.ul.unlock();
                if (!stop_sent) sc.src.request_stop();
                stop_sent = true;
                sc.st.ctl_last_all.store(-1);
                e2::note("x.rescue", nullptr, std::uint64_t(rescues), 0);
                notify(sc, true);
                ++rescues;
                if (sc.st.ctl_last_all.load() == 0) ++empty_rescues;
                continue;
            }
            if ((spin & 31) == 31 && over())
            {
                status = sc.st.m2.load() ? "violation" : "inconclusive";
                break;
            }
            if (spin < 100) sched_yield();
            else usleep(100);
        }
        if (sc.st.m2.load())
            monitor("resume()/abort() by thread " + std::to_string(sc.st.m2_tid.load()) +
                " stored running_ = true although the target agent had not suspended");
        if (status == "ok" && !g_mon.empty()) status = "violation";
        ++ran;
        bool stuck = status != "ok";
        if (!stuck)
            for (auto& t : os) t.join();
        {
            e2::lock();
            g_it = nullptr;
            e2::unlock();
        }
        std::printf("case a%llu-%d %s rescues=%d\n", (unsigned long long) seed, i, describe(sc).c_str(), rescues);
        dump_and_clear(stdout);
        for (auto const& m : g_mon) std::printf("monitor %s\n", m.c_str());
        if (status == "inconclusive") std::printf("note wall-clock budget used up (slow machine?): no verdict\n");
        std::printf("end %s\nendcase\n", status.c_str());
        std::fflush(stdout);
        if (stuck)
        {
            if (status == "inconclusive") ++inconclusive;
            else ++violations;
            sc.st.release.store(true);
            g_abort.store(true);
            std::printf("summary seed=%llu mode=%s iterations=%d violations=%d inconclusive=%d\n", (unsigned long long) seed,
                mode.c_str(), ran, violations, inconclusive);
            std::fflush(stdout);
            _exit(status == "inconclusive" ? 0 : 3);
        }
        if (sc.cvkind == 3 && !sc.dcv_gone.load()) delete sc.dcv;
        if (over()) break;
    }
    std::printf("summary seed=%llu mode=%s iterations=%d violations=%d inconclusive=%d\n", (unsigned long long) seed, mode.c_str(),
        ran, violations, inconclusive);
    std::fflush(stdout);
    pika::finalize();
    pika::stop();
    return 0;
}
