// E2/E0 harness for C10 (placement): generated pipelines over several thread pools created through
// the resource partitioner; every body records where it runs at every phase.
// usage: e2_place <seed> <perturb_per_1024> <mode> <size> <layout> [pika options...]
//   mode  : mix (random concurrent pipelines, E2)  |  seq (one task at a time: placement function, E0)
//           susp (every body suspends at once; hinted tasks on static pools)  |  mixoob (mix, and out-of-range
//           worker hints also on shared-priority pools: reproduces the finding recorded in notes/C10.md)
//   layout: comma separated extra pools `name:policy:npus[:e]` (e = elasticity on), or `-` for none;
//           the default pool gets the remaining PUs and the policy given by --pika:scheduler
// Prints: `case …`, synthesized `x.pool` lines, the event log, `monitor …` lines, `end ok|hang`.
#include "../e2_log.hpp"

#include <pika/execution.hpp>
#include <pika/init.hpp>
#include <pika/modules/resource_partitioner.hpp>
#include <pika/modules/thread_manager.hpp>
#include <pika/runtime/runtime.hpp>
#include <pika/semaphore.hpp>
#include <pika/thread.hpp>

#include <atomic>
#include <chrono>
#include <map>
#include <memory>
#include <mutex>
#include <set>
#include <string>
#include <sys/syscall.h>
#include <thread>
#include <vector>

namespace ex = pika::execution::experimental;
namespace e2 = verif::e2;
using pika::threads::detail::thread_pool_base;

struct rng
{
    std::uint64_t s;
    std::uint64_t next()
    {
        std::uint64_t z = (s += 0x9e3779b97f4a7c15ull);
        z = (z ^ (z >> 30)) * 0xbf58476d1ce4e5b9ull;
        z = (z ^ (z >> 27)) * 0x94d049bb133111ebull;
        return z ^ (z >> 31);
    }
    std::uint32_t below(std::uint32_t n) { return n ? std::uint32_t(next() % n) : 0; }
};

// ---------------------------------------------------------------------------------- monitors
static std::vector<std::string> g_monitor;
static std::atomic<bool> g_mon_lock{false};
static void monitor(std::string s)
{
    while (g_mon_lock.exchange(true)) {}
    if (g_monitor.size() < 20) g_monitor.push_back(std::move(s));
    g_mon_lock.store(false);
}

struct pool_desc
{
    std::string name, policy;
    int npus = 0;
    bool elastic = false;
    // filled after start
    thread_pool_base* pool = nullptr;
    std::size_t index = 0, n = 0, offset = 0, nhp = 0;
    bool prioq = false, steal = true, opaque = false, is_static = false;
};
static std::vector<pool_desc> g_pools;    // [0] = default pool
static bool g_susp_mode = false;          // mode susp: every body suspends once, right away
static bool g_oob_hints = false;          // C10_OOB_HINTS=1: out-of-range hints also on shared-priority pools
static std::size_t g_nhp_opt = 0;          // --pika:high-priority-threads (0 = unset)

static pika::resource::scheduling_policy policy_of(std::string const& p)
{
    using namespace pika::resource;
    if (p == "local") return local;
    if (p == "local-priority-fifo") return local_priority_fifo;
    if (p == "local-priority-lifo") return local_priority_lifo;
    if (p == "static") return static_;
    if (p == "static-priority") return static_priority;
    if (p == "abp-priority-fifo") return abp_priority_fifo;
    if (p == "abp-priority-lifo") return abp_priority_lifo;
    if (p == "shared-priority") return shared_priority;
    return local_priority_fifo;
}

// OS thread -> (pool, local worker) as first observed through the pika API; must never change
static std::mutex g_tid_mtx;
static std::map<long, std::pair<long, long>> g_tid_where;
static std::set<long> g_submitter_tids;
static long os_tid() { return long(::syscall(SYS_gettid)); }

static std::atomic<long> g_expected{0}, g_done{0}, g_opk{0};

struct where
{
    long pool = -1, local = -1, global = -1;
    void* self = nullptr;
};
static where here()
{
    where w;
    w.self = pika::threads::detail::get_self_id_data();
    if (w.self != nullptr)
    {
        // physical placement: the pool number stored in the OS worker thread's TSS
        w.pool = long(pika::get_thread_pool_num());
        auto* p = pika::this_thread::get_pool();    // pool of the task's scheduler
        if (p == nullptr || long(p->get_pool_index()) != w.pool)
            monitor("task of a scheduler of pool " + std::to_string(p ? long(p->get_pool_index()) : -1) +
                " is executed by a worker of pool " + std::to_string(w.pool));
        w.local = long(pika::get_local_worker_thread_num());
        w.global = long(pika::get_worker_thread_num());
    }
    return w;
}

// what the pipeline denotes for a body
struct expect
{
    long pool = -1;      // pool index, or 99 = fresh non-pika thread
    long worker = -1;    // >= 0: exact local worker (static policy, normal priority, worker hint)
    long stage = 0;
};

// record + check one observation (called at body entry and after every yield / suspension)
static void observe(expect const& e, char const* what)
{
    where w = here();
    long tid = os_tid();
    if (e.pool == 99)
    {
        if (w.self != nullptr) monitor(std::string("std_thread_scheduler work runs on a pika task (") + what + ")");
        std::lock_guard<std::mutex> l(g_tid_mtx);
        if (g_tid_where.count(tid)) monitor("std_thread_scheduler work runs on a pool worker thread");
        if (g_submitter_tids.count(tid)) monitor("std_thread_scheduler work runs on the submitting thread");
        return;
    }
    if (w.self == nullptr)
    {
        monitor(std::string("pool work runs outside a pika task (inline in a non-pika thread) at ") + what);
        return;
    }
    e2::note("x.at", w.self, std::uint64_t(w.pool), std::uint64_t(w.local));
    if (w.pool != e.pool)
        monitor("work sent to pool " + std::to_string(e.pool) + " runs on pool " + std::to_string(w.pool) + " (" + what + ")");
    if (w.pool >= 0 && std::size_t(w.pool) < g_pools.size())
    {
        auto const& pd = g_pools[w.pool];
        if (w.local < 0 || std::size_t(w.local) >= pd.n || w.global != long(pd.offset) + w.local)
            monitor("worker numbers inconsistent: pool " + std::to_string(w.pool) + " local " + std::to_string(w.local) +
                " global " + std::to_string(w.global) + " offset " + std::to_string(pd.offset));
    }
    if (e.worker >= 0 && w.local != e.worker)
        monitor("task hinted to worker " + std::to_string(e.worker) + " of static pool " + std::to_string(e.pool) +
            " runs a phase on worker " + std::to_string(w.local) + " (" + what + ")");
    {
        std::lock_guard<std::mutex> l(g_tid_mtx);
        auto it = g_tid_where.find(tid);
        if (it == g_tid_where.end()) g_tid_where[tid] = {w.pool, w.local};
        else if (it->second != std::make_pair(w.pool, w.local))
            monitor("OS thread serves two workers: (" + std::to_string(it->second.first) + "," + std::to_string(it->second.second) +
                ") and (" + std::to_string(w.pool) + "," + std::to_string(w.local) + ")");
    }
}

// flags for spin-waits are set by a plain OS thread (never starved by boosted spinners)
static std::mutex g_flag_mtx;
static std::vector<std::shared_ptr<std::atomic<bool>>> g_flags;
static std::vector<std::shared_ptr<pika::counting_semaphore<>>> g_sems;
static std::atomic<bool> g_flag_stop{false};
static void flag_setter()
{
    while (!g_flag_stop.load())
    {
        std::vector<std::shared_ptr<std::atomic<bool>>> todo;
        std::vector<std::shared_ptr<pika::counting_semaphore<>>> sems;
        {
            std::lock_guard<std::mutex> l(g_flag_mtx);
            todo.swap(g_flags);
            sems.swap(g_sems);
        }
        if (todo.empty() && sems.empty()) { std::this_thread::sleep_for(std::chrono::microseconds(30)); continue; }
        for (auto& s : sems) s->release();
        std::this_thread::sleep_for(std::chrono::microseconds(60));
        for (auto& f : todo) f->store(true);
    }
}

// a body: observe, then a PRNG-chosen sequence of yields / suspensions / spins, observing after each
static void body(expect e, std::uint64_t seed, bool can_block)
{
    rng r{seed};
    observe(e, "entry");
    if (e.pool != 99 && can_block)
    {
        int steps = g_susp_mode ? 1 : int(r.below(4));
        for (int i = 0; i < steps; ++i)
        {
            switch (g_susp_mode ? 2u : r.below(4))
            {
            case 0:
            case 1:
                pika::this_thread::yield();
                observe(e, "after yield");
                break;
            case 2:
            {
                // suspension released by a plain OS thread - possibly before the suspension completed
                auto sem = std::make_shared<pika::counting_semaphore<>>(0);
                if (r.below(2) == 0)
                {
                    std::lock_guard<std::mutex> l(g_flag_mtx);
                    g_sems.push_back(sem);
                }
                else
                {
                    // released by a task on a (possibly different) pool
                    auto& pd = g_pools[r.below(std::uint32_t(g_pools.size()))];
                    ex::execute(ex::thread_pool_scheduler(pd.pool), [sem] { sem->release(); });
                }
                sem->acquire();
                observe(e, "after suspension");
                break;
            }
            default:
            {
                // a bounded spin-wait: boosted yields (pending_boost) exactly as yield_while issues them
                // from its 16th poll on (bounded, so that the log size does not depend on machine load)
                unsigned polls = 2 + r.below(4);
                for (unsigned k = 16; k < 16 + polls; ++k)
                    pika::execution::this_thread::detail::yield_k(k, "c10 spin");
                observe(e, "after boosted spin");
                break;
            }
            }
        }
    }
    g_done.fetch_add(1);
}

struct sched_pick
{
    ex::thread_pool_scheduler s;
    expect e;
    bool nostack = false;
};

// choose a scheduler on a random pool with random hint / priority; derive what that denotes
static sched_pick pick(rng& r)
{
    sched_pick sp;
    auto& pd = g_pools[r.below(std::uint32_t(g_pools.size()))];
    sp.s = ex::thread_pool_scheduler(pd.pool);
    sp.e.pool = long(pd.index);
    int prio = 2;
    switch (r.below(8))
    {
    case 0: sp.s = ex::with_priority(sp.s, pika::execution::thread_priority::high); prio = 5; break;
    case 1: sp.s = ex::with_priority(sp.s, pika::execution::thread_priority::low); prio = 1; break;
    default: break;
    }
    long hint = -1000;
    if (r.below(3) != 0)
    {
        hint = long(r.below(std::uint32_t(2 * pd.n + 1)));
        if (r.below(16) == 0) hint = -long(r.below(5)) - 1;
        // shared_priority_queue_scheduler indexes its lookup tables with the raw hint (no range check:
        // out-of-bounds read, see notes/C10.md); only valid worker numbers are generated for it unless asked
        if (pd.opaque && !g_oob_hints) hint = long(r.below(std::uint32_t(pd.n)));
        sp.s = ex::with_hint(sp.s, pika::execution::thread_schedule_hint(std::int16_t(hint)));
    }
    // static policy + normal priority + worker hint naming a worker: every phase on that worker.
    // (only when the pool cannot redirect: no elasticity; and every worker has a high priority queue,
    //  otherwise boosted re-queues go to queue `w mod nhp` - see notes/C10.md)
    if (pd.is_static && prio == 2 && hint >= 0 && !pd.elastic) sp.e.worker = hint % long(pd.n);
    return sp;
}

static void submit(std::uint64_t seed, int depth);

// one generated pipeline, started detached from the calling context
static void pipeline(std::uint64_t seed, int depth)
{
    rng r{seed};
    auto a = pick(r);
    auto b = pick(r);
    std::uint64_t s1 = r.next(), s2 = r.next(), s3 = r.next();
    bool nest = depth < 2 && r.below(3) == 0;
    auto tail = [=] {
        if (nest) submit(s3, depth + 1);
    };
    switch (g_susp_mode ? 0u : r.below(8))
    {
    case 0:    // schedule | then
        g_expected.fetch_add(1);
        ex::start_detached(ex::schedule(a.s) | ex::then([=] { body(a.e, s1, true); tail(); }));
        break;
    case 1:    // transfer_just | then | continues_on | then
        g_expected.fetch_add(2);
        ex::start_detached(ex::transfer_just(a.s, 7) | ex::then([=](int x) { body(a.e, s1, true); return x + 1; }) |
            ex::continues_on(b.s) | ex::then([=](int) { body(b.e, s2, true); tail(); }));
        break;
    case 2:    // execute
    {
        g_expected.fetch_add(1);
        long k = g_opk.fetch_add(1) + 1;
        e2::note("x.start", nullptr, std::uint64_t(k), std::uint64_t(a.e.pool));
        ex::execute(a.s, [=] {
            e2::note("x.run", pika::threads::detail::get_self_id_data(), std::uint64_t(k), 0);
            body(a.e, s1, true);
            tail();
        });
        e2::note("x.started", nullptr, std::uint64_t(k), 0);
        break;
    }
    case 3:    // just | continues_on (predecessor completes inline in the submitter) | then
        g_expected.fetch_add(1);
        ex::start_detached(ex::just() | ex::continues_on(a.s) | ex::then([=] { body(a.e, s1, true); tail(); }));
        break;
    case 4:    // std_thread_scheduler, then back to a pool
    {
        g_expected.fetch_add(2);
        expect es;
        es.pool = 99;
        long tid = os_tid();
        {
            std::lock_guard<std::mutex> l(g_tid_mtx);
            g_submitter_tids.insert(tid);
        }
        ex::start_detached(ex::schedule(ex::std_thread_scheduler{}) | ex::then([=] { body(es, s1, false); }) |
            ex::continues_on(b.s) | ex::then([=] { body(b.e, s2, true); tail(); }));
        break;
    }
    case 5:    // bulk on a pool: every index runs on a worker of that pool, on at most n tasks
    {
        g_expected.fetch_add(2);
        auto const& pd = g_pools[a.e.pool];
        int n = 1 + int(r.below(40));
        auto tasks = std::make_shared<std::mutex>();
        auto seen = std::make_shared<std::set<void*>>();
        long npool = long(pd.n);
        expect eb = a.e;
        eb.worker = -1;    // chunks are stolen between participants
        ex::start_detached(ex::schedule(a.s) | ex::then([=] { body(a.e, s1, false); }) |
            ex::bulk(n,
                [=](int) {
                    observe(eb, "bulk index");
                    std::lock_guard<std::mutex> l(*tasks);
                    seen->insert(pika::threads::detail::get_self_id_data());
                }) |
            ex::then([=] {
                if (long(seen->size()) > npool)
                    monitor("bulk on a pool of " + std::to_string(npool) + " workers ran on " +
                        std::to_string(seen->size()) + " tasks");
                g_done.fetch_add(1);
            }));
        break;
    }
    case 6:    // schedule(a) | then | continues_on(b) | bulk | then: the bulk and what follows belong to b's pool
    {
        g_expected.fetch_add(2);
        int n = 1 + int(r.below(40));
        expect eb = b.e;
        eb.worker = -1;    // chunks are stolen between participants
        ex::start_detached(ex::schedule(a.s) | ex::then([=] { body(a.e, s1, false); }) | ex::continues_on(b.s) |
            ex::bulk(n, [=](int) { observe(eb, "bulk index after continues_on"); }) |
            ex::then([=] {
                observe(eb, "continuation of a bulk after continues_on");
                g_done.fetch_add(1);
            }));
        break;
    }
    default:    // three hops over pools
        g_expected.fetch_add(3);
        {
            auto c = pick(r);
            std::uint64_t s4 = r.next();
            ex::start_detached(ex::schedule(a.s) | ex::then([=] { body(a.e, s1, true); }) | ex::continues_on(b.s) |
                ex::then([=] { body(b.e, s2, true); }) | ex::continues_on(c.s) | ex::then([=] { body(c.e, s4, true); tail(); }));
        }
        break;
    }
}

static void submit(std::uint64_t seed, int depth)
{
    rng r{seed};
    int k = 1 + int(r.below(2));
    for (int i = 0; i < k; ++i) pipeline(r.next(), depth);
}

// ---------------------------------------------------------------------------------- rp callback
static void rp_cb(pika::resource::partitioner& rp, pika::program_options::variables_map const&)
{
    for (std::size_t i = 1; i < g_pools.size(); ++i)
    {
        auto mode = pika::threads::scheduler_mode::default_mode;
        if (g_pools[i].elastic) mode = mode | pika::threads::scheduler_mode::enable_elasticity;
        rp.create_thread_pool(g_pools[i].name, policy_of(g_pools[i].policy), mode);
    }
    // the first PU stays with the default pool; the following PUs go to the extra pools in order
    std::size_t pi = 1;
    int left = pi < g_pools.size() ? g_pools[pi].npus : 0;
    bool first = true;
    for (auto const& s : rp.sockets())
        for (auto const& c : s.cores())
            for (auto const& p : c.pus())
            {
                if (first) { first = false; continue; }
                if (pi >= g_pools.size()) continue;
                rp.add_resource(p, g_pools[pi].name);
                if (--left == 0)
                {
                    ++pi;
                    left = pi < g_pools.size() ? g_pools[pi].npus : 0;
                }
            }
}

// dump with pointer payloads translated to the same first-seen ids as the objects
static void dump_place(FILE* f)
{
    e2::g_enabled.store(false);
    e2::lock();
    std::map<void const*, int> ids;
    auto idof = [&](void const* p) -> int {
        if (p == nullptr) return 0;
        auto it = ids.find(p);
        if (it != ids.end()) return it->second;
        int id = int(ids.size()) + 1;
        ids[p] = id;
        return id;
    };
    for (auto const& r : *e2::g_log)
    {
        std::string site = r.site;
        unsigned long long a = r.a, b = r.b;
        int o = idof(r.obj);
        if (site == "place.stage" || site == "place.push" || site == "place.pop" || site == "place.run")
            a = (unsigned long long) idof(reinterpret_cast<void const*>(std::uintptr_t(r.a)));
        if (site == "place.unstage")
        {
            a = (unsigned long long) idof(reinterpret_cast<void const*>(std::uintptr_t(r.a)));
            b = (unsigned long long) idof(reinterpret_cast<void const*>(std::uintptr_t(r.b)));
        }
        std::fprintf(f, "%d %s %d %llu %llu\n", r.os, r.site, o, a, b);
    }
    e2::unlock();
}

int main(int argc, char** argv)
{
    if (argc < 6) return 2;
    std::uint64_t seed = std::strtoull(argv[1], nullptr, 10);
    std::uint32_t perturb = std::uint32_t(std::atoi(argv[2]));
    std::string mode = argv[3];
    int size = std::atoi(argv[4]);
    std::string layout = argv[5];
    g_pools.push_back(pool_desc{"default", "local-priority-fifo"});
    if (layout != "-")
    {
        std::size_t pos = 0;
        while (pos < layout.size())
        {
            std::size_t e = layout.find(',', pos);
            if (e == std::string::npos) e = layout.size();
            std::string item = layout.substr(pos, e - pos);
            pos = e + 1;
            pool_desc pd;
            std::size_t c1 = item.find(':'), c2 = item.find(':', c1 + 1), c3 = item.find(':', c2 + 1);
            pd.name = item.substr(0, c1);
            pd.policy = item.substr(c1 + 1, c2 - c1 - 1);
            pd.npus = std::atoi(item.substr(c2 + 1, c3 == std::string::npos ? std::string::npos : c3 - c2 - 1).c_str());
            pd.elastic = c3 != std::string::npos && item.substr(c3 + 1) == "e";
            g_pools.push_back(pd);
        }
    }
    std::vector<char const*> av{argv[0]};
    for (int i = 6; i < argc; ++i)
    {
        av.push_back(argv[i]);
        std::string a = argv[i];
        if (a.rfind("--pika:scheduler=", 0) == 0) g_pools[0].policy = a.substr(17);
        if (a.rfind("--pika:high-priority-threads=", 0) == 0) g_nhp_opt = std::size_t(std::atoi(a.substr(29).c_str()));
        std::string const ini = "--pika:ini=pika.thread_queue.high_priority_queues!=";
        if (a.rfind(ini, 0) == 0) g_nhp_opt = std::size_t(std::atoi(a.substr(ini.size()).c_str()));
    }
    e2::g_place = true;
    g_susp_mode = mode == "susp";
    g_oob_hints = std::getenv("C10_OOB_HINTS") != nullptr || mode == "mixoob";
    if (mode == "mixoob") mode = "mix";
    e2::install(seed, perturb);
    pika::init_params ip;
    ip.rp_callback = &rp_cb;
    pika::start(nullptr, int(av.size()), av.data(), ip);

    // pool table from the running runtime
    for (auto& pd : g_pools)
    {
        pd.pool = &pika::resource::get_thread_pool(pd.name);
        pd.index = pd.pool->get_pool_index();
        pd.n = pd.pool->get_os_thread_count();
        pd.offset = pd.pool->get_thread_offset();
        auto m = pd.pool->get_scheduler()->get_scheduler_mode();
        bool mode_steal = (m & pika::threads::scheduler_mode::enable_stealing) != pika::threads::scheduler_mode{};
        pd.elastic = (m & pika::threads::scheduler_mode::enable_elasticity) != pika::threads::scheduler_mode{};
        pd.prioq = pd.policy.find("priority") != std::string::npos && pd.policy != "shared-priority";
        pd.opaque = pd.policy == "shared-priority";
        pd.is_static = pd.policy == "static" || pd.policy == "static-priority";
        // `local` steals regardless of the mode word; `static` never; the priority family follows the mode word
        pd.steal = pd.policy == "local" ? true : pd.policy == "static" ? false : mode_steal;
        if (pd.is_static && mode_steal) monitor("static policy " + pd.policy + " has the stealing mode enabled");
        pd.nhp = pd.prioq ? (g_nhp_opt ? g_nhp_opt : pd.n) : 0;
    }
    // a static pool whose high priority queues do not cover all workers re-queues boosted tasks elsewhere
    // (see notes): then no exact-worker expectation is generated

    std::thread setter(flag_setter);
    rng r{seed * 7919 + 13};
    if (mode == "seq")
    {
        // E0: one task at a time from this thread, hints enumerated; only the creation events matter
        for (auto& pd : g_pools)
        {
            if (pd.opaque) continue;
            for (int i = 0; i < size; ++i)
            {
                auto s = ex::thread_pool_scheduler(pd.pool);
                long hint = -1000;
                int kind = int(r.below(10));
                if (kind < 6) hint = long(r.below(std::uint32_t(3 * pd.n + 2)));
                else if (kind < 8) hint = -long(r.below(40)) - 1;
                else if (kind == 8) hint = 32767 - long(r.below(3));
                if (hint != -1000) s = ex::with_hint(s, pika::execution::thread_schedule_hint(std::int16_t(hint)));
                switch (r.below(6))
                {
                case 0: s = ex::with_priority(s, pika::execution::thread_priority::high); break;
                case 1: s = ex::with_priority(s, pika::execution::thread_priority::low); break;
                case 2: s = ex::with_priority(s, pika::execution::thread_priority::boost); break;
                default: break;
                }
                expect e;
                e.pool = long(pd.index);
                std::atomic<bool> done{false};
                g_expected.fetch_add(1);
                ex::start_detached(ex::schedule(s) | ex::then([&] { body(e, 0, false); done.store(true); }));
                while (!done.load()) std::this_thread::sleep_for(std::chrono::microseconds(20));
            }
        }
    }
    else
    {
        int next = 1 + int(r.below(3));
        std::vector<std::thread> ext;
        for (int t = 0; t < next; ++t)
        {
            std::uint64_t es = r.next();
            ext.emplace_back([=] {
                rng rr{es};
                for (int i = 0; i < size; ++i) pipeline(rr.next(), 0);
            });
        }
        for (auto& t : ext) t.join();
    }

    // wait for completion; a hang is declared from runtime state only
    auto& tm = pika::detail::get_runtime().get_thread_manager();
    using st = pika::threads::detail::thread_schedule_state;
    bool hang = false, overflow = false;
    int quiet = 0;
    std::size_t last_log = 0;
    long last_done = -1;
    for (;;)
    {
        std::this_thread::sleep_for(std::chrono::milliseconds(2));
        long d = g_done.load(), t = g_expected.load();
        if (e2::g_overflow.load()) { overflow = true; break; }
        if (d == t)
        {
            std::this_thread::sleep_for(std::chrono::milliseconds(2));
            if (g_done.load() == g_expected.load()) break;
            continue;
        }
        long ql = 0;
        try { ql = tm.get_queue_length(false); } catch (...) { ql = tm.get_thread_count(st::pending); }
        long busy = tm.get_thread_count(st::active) + tm.get_thread_count(st::staged) + ql;
        std::size_t logsz = e2::g_log->size();
        if (busy == 0 && logsz == last_log && d == last_done)
        {
            if (++quiet >= 150 && g_done.load() != g_expected.load()) { hang = true; break; }
            std::this_thread::sleep_for(std::chrono::milliseconds(20));
        }
        else quiet = 0;
        last_log = logsz;
        last_done = d;
    }
    g_flag_stop.store(true);
    setter.join();
    if (!hang && !overflow)
    {
        std::size_t prev = 0;
        int stable = 0;
        for (int i = 0; i < 2000 && stable < 10; ++i)
        {
            std::this_thread::sleep_for(std::chrono::milliseconds(1));
            std::size_t cur = e2::g_log->size();
            if (cur == prev && tm.get_thread_count(st::active) == 0) ++stable;
            else stable = 0;
            prev = cur;
        }
    }
    e2::g_enabled.store(false);
    if (hang) monitor("placement run did not finish: " + std::to_string(g_done.load()) + " of " + std::to_string(g_expected.load()) + " bodies ran although the runtime is quiescent");
    std::printf("case e2 mode=%s seed=%llu size=%d pools=%zu bodies=%ld\n", mode.c_str(), (unsigned long long) seed, size,
        g_pools.size(), g_expected.load());
    for (auto const& pd : g_pools)
        std::printf("0 x.pool 0 %llu %llu\n",
            (unsigned long long) (pd.index | (pd.n << 8) | (pd.nhp << 24)),
            (unsigned long long) ((pd.prioq ? 1 : 0) | (pd.steal ? 2 : 0) | (pd.elastic ? 4 : 0) | (pd.opaque ? 8 : 0) | (pd.offset << 8)));
    dump_place(stdout);
    for (auto const& m : g_monitor) std::printf("monitor %s\n", m.c_str());
    std::printf("end %s\nendcase\n", overflow ? "livelock" : hang ? "hang" : "ok");
    std::fflush(stdout);
    if (hang || overflow) _exit(0);
    pika::finalize();
    pika::stop();
    return 0;
}
