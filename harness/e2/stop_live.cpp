// Live-runtime monitor program for C14 (stop_token): pika tasks that SHARE an OS thread and pika
// tasks that CHANGE their OS thread in the middle of a stop callback.
//
//   e2_stop_live <A|B> <seed> <iterations> <min_exercised> <budget_s> [pika options, e.g. --pika:threads=1]
//
// The E1 harness (harness/e1/stop.cpp) gives every logical thread its own OS thread / worker, so
// "is this my own thread?" in stop_state::remove_callback is never asked for two pika tasks on one
// OS thread, nor for one pika task on two OS threads.  Here the real runtime runs:
//
//  scenario A (meant for --pika:threads=1): task T1 calls request_stop(); the TARGET callback
//    suspends T1 (pika::this_thread::yield() loop, or a contended pika::mutex) and, while it is
//    suspended, another pika task D on the SAME worker OS thread destroys the target
//    stop_callback.  Monitor: when the destructor returns on a pika thread other than the one
//    running the callback, the callback must have finished.
//  scenario B (meant for --pika:threads=4): the target callback, running inside request_stop() on
//    task T1, creates non-yielding blocker tasks hinted at its current worker and yields, so that
//    another worker steals T1 in the middle of the callback; T1 (now on a different OS thread than
//    the one request_stop() started on) destroys its OWN stop_callback from inside the callback.
//    The destructor must return without waiting.  Only iterations in which the OS thread id really
//    changed count as exercised.
//
// Monitors use observables only (flags set by the callback bodies / around the destructor calls).
// The hang probe is state based: the hook note `stop.self <cb> 0` ("remove_callback decided to
// wait for callback_finished_executing_") issued by the very pika thread that is inside that
// callback is a state from which the destructor can never return, because the flag is stored by
// request_stop() on that same thread after the callback returns.  The main OS thread (watchdog)
// reports it and _exit()s.  Elapsed time never produces a verdict: the wall-clock budget only
// ends the run as `inconclusive` (exit 0).
//
// Output: `live ...` header, one `iter ...` line per iteration, `monitor <text>` lines, one
// `summary ... status=ok|violation|inconclusive` line.  Exit code 3 = a monitor fired.
#include <pika/config.hpp>
#include <pika/execution.hpp>
#include <pika/init.hpp>
#include <pika/mutex.hpp>
#include <pika/runtime/runtime.hpp>
#include <pika/stop_token.hpp>
#include <pika/thread.hpp>
#include <pika/threading_base/thread_data.hpp>

#include <atomic>
#include <chrono>
#include <cstdint>
#include <cstdio>
#include <cstdlib>
#include <cstring>
#include <functional>
#include <new>
#include <optional>
#include <pthread.h>
#include <string>
#include <thread>
#include <unistd.h>
#include <vector>

namespace ex = pika::execution::experimental;

struct rng
{
    std::uint64_t s;
    std::uint64_t next()
    {
        std::uint64_t z = (s += 0x9e3779b97f4a7c15ull);
        z = (z ^ (z >> 30)) * 0xbf58476d1ce4e5b9ull;
        z = (z ^ (z >> 27)) * 0x94d049bb133111ebull;
        return z ^ (z >> 31);
    }
    std::uint32_t below(std::uint32_t n) { return n ? std::uint32_t(next() % n) : 0; }
};

static void* self_id() { return pika::threads::detail::get_self_id().get(); }

// OS thread of the caller.  pthread_self() / std::this_thread::get_id() are declared `const`: the
// compiler may reuse an earlier result across a pika context switch inside one function, so the
// call is hidden in a function that is never inlined.
__attribute__((noinline)) static pthread_t os_self()
{
    asm volatile("" ::: "memory");
    pthread_t p = pthread_self();
    asm volatile("" : "+r"(p));
    return p;
}
static bool on_os(pthread_t p) { return pthread_equal(os_self(), p) != 0; }

// ------------------------------------------------------------------------------------ monitors
static std::vector<std::string> g_monitor;
static std::atomic<bool> g_mon_lock{false};
static std::atomic<int> g_violations{0};
static std::string g_cur_desc;    // description of the running iteration (written by main only)
static int g_cur_iter = -1;
static void monitor(std::string s)
{
    while (g_mon_lock.exchange(true, std::memory_order_acquire)) {}
    g_violations.fetch_add(1);
    if (g_monitor.size() < 20) g_monitor.push_back("iter " + std::to_string(g_cur_iter) + ": " + s);
    g_mon_lock.store(false, std::memory_order_release);
}

// ------------------------------------------------------------------------------------ iteration state
struct iter_t;
struct fn
{
    iter_t* it;
    int idx;
    void operator()() const;
};
using cb_t = pika::stop_callback<fn>;

enum act_t
{
    act_none,
    act_self,         // destroy the own stop_callback from inside the callback
    act_other,        // destroy another (non-target) stop_callback from inside the callback
    act_target_a,     // scenario A target
    act_target_b      // scenario B target
};

struct slot_t
{
    alignas(alignof(cb_t)) unsigned char buf[sizeof(cb_t)];    // never released: late use is observed, not a crash
    std::atomic<int> life{0};    // 0 new, 1 in constructor, 2 live, 3 in destructor, 4 destroyed
    std::atomic<bool> running{false};
    std::atomic<void*> runner{nullptr};    // pika thread running the callback body
    std::atomic<pthread_t> runner_os{};    // OS thread on which the callback body ran last
    std::atomic<int> invoked{0};
    std::atomic<bool> dtor_entered{false};
    std::atomic<bool> selfwait{false};    // hang probe hit for this slot
    int yields = 0;
    act_t act = act_none;
    int arg = 0;
};

struct iter_t
{
    int scen = 0;    // 0 = A, 1 = B
    int ncb = 1, target = 0;
    int variant = 0;           // A: 0 yield, 1 mutex.  B: 0 self, 1 executed-then-self, 2 other task destroys
    int extra_yields = 0;      // yields of the target callback after the interesting point
    int pre_yields = 0;        // yields of T1 before request_stop
    int max_rounds = 1;        // B: attempts to get the callback task stolen
    int nd = 0;                // helper (destroyer) tasks
    int d_slot[3] = {-1, -1, -1};
    int d_pre[3] = {0, 0, 0};
    bool d_wait_go[3] = {true, true, true};
    slot_t slots[5];
    std::optional<pika::stop_source> src;
    std::optional<pika::stop_token> tok;
    pika::mutex mtx;
    std::atomic<bool> go{false}, d_ready{false}, release{false};
    std::atomic<int> helpers_done{0}, blockers_started{0}, blockers_done{0}, blockers_made{0};
    std::atomic<bool> done{false};
    // observations
    pthread_t os_at_request{};
    std::atomic<bool> migrated{false}, exercised{false}, shared_os{false};
    std::atomic<int> rounds{0};
    std::atomic<void*> in_own_dtor{nullptr};    // pika thread that is destroying the callback it is running
    std::atomic<bool> rs_returned{false};
};

static std::atomic<iter_t*> g_cur{nullptr};
static std::atomic<bool> g_selfwait{false};
static std::atomic<bool> g_abort{false};    // set by the watchdog when the wall-clock budget is used up
static std::atomic<long> g_self_branch{0}, g_wait_branch{0};
static int g_workers = 1;

// hook sink: only the decision of stop_state::remove_callback is looked at
static void sink(int phase, char const* site, void const* obj, std::uint64_t a, std::uint64_t) noexcept
{
    if (phase != 2 || site[0] != 's' || site[1] != 't' || std::strcmp(site, "stop.self") != 0) return;
    (a ? g_self_branch : g_wait_branch).fetch_add(1, std::memory_order_relaxed);
    iter_t* it = g_cur.load(std::memory_order_acquire);
    if (it == nullptr || a != 0) return;
    for (int i = 0; i < it->ncb; ++i)
    {
        slot_t& s = it->slots[i];
        if (static_cast<void const*>(s.buf) != obj) continue;
        // the destructor is going to wait for the end of a callback that the waiting thread itself is running
        if (s.running.load() && s.runner.load() == self_id())
        {
            s.selfwait.store(true);
            g_selfwait.store(true);
        }
    }
}

static void yield_n(int n)
{
    for (int i = 0; i < n; ++i) pika::this_thread::yield();
}

// destroy slot i (if it is live); observable monitor right after the destructor returned
static bool destroy_slot(iter_t* it, int i, char const* who)
{
    slot_t& s = it->slots[i];
    int expect = 2;
    if (!s.life.compare_exchange_strong(expect, 3)) return false;
    void* me = self_id();
    bool own = s.running.load() && s.runner.load() == me;
    if (own) it->in_own_dtor.store(me);
    s.dtor_entered.store(true);
    reinterpret_cast<cb_t*>(s.buf)->~cb_t();
    if (own) it->in_own_dtor.store(nullptr);
    // a callback running on ANOTHER pika thread must have finished by now
    if (s.running.load() && s.runner.load() != me)
        monitor(std::string("callback ") + std::to_string(i) +
            " is still running on another pika thread after its stop_callback destructor returned (destroyed by " +
            who + (on_os(s.runner_os.load()) ? "; both pika threads share one OS thread)" : ")"));
    s.life.store(4);
    return true;
}

static void blocker(iter_t* it, pthread_t want)
{
    // occupies the worker the callback task has just left, without yielding, until that task (taken over
    // by another worker) releases it; a blocker that was itself stolen by another worker ends at once, so
    // at most one worker is occupied and the others stay free to steal
    if (on_os(want))
    {
        it->blockers_started.fetch_add(1);
        while (!it->release.load(std::memory_order_acquire) && !g_abort.load(std::memory_order_relaxed))
            __builtin_ia32_pause();
    }
    it->blockers_done.fetch_add(1);
}

static void helper(iter_t* it, int d);
static void spawn(std::function<void()> f, int hint = -1)
{
    auto s = ex::thread_pool_scheduler{};
    if (hint >= 0) s = ex::with_hint(s, pika::execution::thread_schedule_hint(std::int16_t(hint)));
    ex::start_detached(ex::schedule(s) | ex::then(std::move(f)));
}

void fn::operator()() const
{
    // the functor lives inside the stop_callback, which may be destroyed while this runs: locals only
    iter_t* it = this->it;
    int const i = this->idx;
    slot_t& s = it->slots[i];
    void* me = self_id();
    if (s.life.load() == 4) monitor("callback " + std::to_string(i) + " invoked after its stop_callback destructor returned");
    if (s.invoked.fetch_add(1) != 0) monitor("callback " + std::to_string(i) + " invoked more than once");
    s.runner.store(me);
    s.runner_os.store(os_self());
    s.running.store(true);

    switch (s.act)
    {
    case act_none: yield_n(s.yields); break;
    case act_self:
        yield_n(s.yields);
        destroy_slot(it, i, "its own callback");
        break;
    case act_other:
        yield_n(s.yields);
        destroy_slot(it, s.arg, "another callback of the same request_stop");
        break;
    case act_target_a:
    {
        pthread_t os0 = os_self();
        it->go.store(true);
        if (it->variant == 1)
        {
            // contended pika primitive: D holds the mutex; this suspends T1 until D unlocks, and D
            // enters the destructor right after the unlock (same worker: before T1 runs again)
            it->mtx.lock();
            it->mtx.unlock();
        }
        // stay inside the callback (suspended again and again) until the destroyer is inside the destructor
        while (!s.dtor_entered.load() && !g_abort.load()) pika::this_thread::yield();
        yield_n(it->extra_yields);
        if (on_os(os0)) it->shared_os.store(true);
        it->exercised.store(true);
        break;
    }
    case act_target_b:
    {
        yield_n(s.yields);
        // get stolen: a non-yielding blocker hinted at the current worker is started by that worker when
        // this task yields (staged work is taken before the yielding task is re-queued), so the task
        // waits in the queue of an occupied worker until another worker steals it
        for (int round = 0; g_workers > 1 && round < it->max_rounds && on_os(it->os_at_request); ++round)
        {
            it->rounds.fetch_add(1);
            it->blockers_made.fetch_add(1);
            pthread_t here = os_self();
            spawn([it, here] { blocker(it, here); }, int(pika::get_worker_thread_num()));
            pika::this_thread::yield();
        }
        bool moved = !on_os(it->os_at_request);
        it->release.store(true, std::memory_order_release);
        if (moved) it->migrated.store(true);
        // helpers that act during the callback are started only now: a task that polls with yields keeps its
        // worker from stealing, and the blockers above rely on some worker being free to steal this task
        for (int d = 0; d < it->nd; ++d)
            if (it->d_wait_go[d]) spawn([it, d] { helper(it, d); });
        if (it->variant == 1)
        {
            // first a callback that has already been executed by this request_stop (must not block either)
            for (int j = 0; j < it->ncb; ++j)
                if (j != i && it->slots[j].invoked.load() > 0 && !it->slots[j].running.load())
                {
                    destroy_slot(it, j, "the target callback (already executed callback)");
                    break;
                }
        }
        if (it->variant == 2)
        {
            // another task (on some other worker) destroys the target: it has to wait for the end
            it->go.store(true);
            while (!s.dtor_entered.load() && !g_abort.load()) pika::this_thread::yield();
            yield_n(it->extra_yields);
            if (moved) it->exercised.store(true);
        }
        else
        {
            // the OS thread id differs from the one request_stop() started on, the pika thread is the same
            if (moved && !on_os(it->os_at_request)) it->exercised.store(true);
            else it->exercised.store(false);
            destroy_slot(it, i, "its own callback after the task was stolen");
            yield_n(it->extra_yields);
        }
        break;
    }
    }
    s.running.store(false);
}

static void helper(iter_t* it, int d)
{
    if (it->scen == 0 && it->variant == 1 && d == 0)
    {
        it->mtx.lock();
        it->d_ready.store(true);
    }
    if (it->d_wait_go[d] && it->scen == 0)
        while (!it->go.load() && !it->rs_returned.load() && !g_abort.load()) pika::this_thread::yield();
    yield_n(it->d_pre[d]);
    if (it->scen == 0 && it->variant == 1 && d == 0) it->mtx.unlock();    // no suspension point up to the destructor
    if (it->d_slot[d] >= 0) destroy_slot(it, it->d_slot[d], "a helper task");
    it->helpers_done.fetch_add(1);
}

static void root(iter_t* it)
{
    it->src.emplace();
    it->tok.emplace(it->src->get_token());
    for (int i = 0; i < it->ncb; ++i)
    {
        it->slots[i].life.store(1);
        new (it->slots[i].buf) cb_t(*it->tok, fn{it, i});
        it->slots[i].life.store(2);
    }
    for (int d = 0; d < it->nd; ++d)
        if (it->scen == 0 || !it->d_wait_go[d]) spawn([it, d] { helper(it, d); });
    if (it->scen == 0 && it->variant == 1)
        while (!it->d_ready.load() && !g_abort.load()) pika::this_thread::yield();
    yield_n(it->pre_yields);
    it->os_at_request = os_self();
    bool r = it->src->request_stop();
    // every callback that was registered during the whole request_stop has been invoked exactly once
    for (int i = 0; i < it->ncb; ++i)
        if (!it->slots[i].dtor_entered.load() && it->slots[i].invoked.load() != 1)
            monitor("callback " + std::to_string(i) + " was registered during request_stop but invoked " +
                std::to_string(it->slots[i].invoked.load()) + " times");
    it->rs_returned.store(true);
    if (!r) monitor("first request_stop returned false");
    if (!it->tok->stop_requested()) monitor("stop_requested false after request_stop");
    while (it->helpers_done.load() < it->nd && !g_abort.load()) pika::this_thread::yield();
    while (it->blockers_done.load() < it->blockers_made.load() && !g_abort.load()) pika::this_thread::yield();
    // the signalling thread destroys what is left after the callbacks ran: must not block
    for (int i = 0; i < it->ncb; ++i) destroy_slot(it, i, "the signalling task after request_stop");
    for (int i = 0; i < it->ncb; ++i)
        if (it->slots[i].running.load()) monitor("callback " + std::to_string(i) + " still marked running at the end");
    it->tok.reset();
    it->src.reset();
    it->done.store(true);
}

static iter_t* make_iter(int scen, std::uint64_t seed, int i)
{
    rng r{seed * 1000003ull + std::uint64_t(i) * 7919ull + 17};
    auto* it = new iter_t;
    it->scen = scen;
    it->ncb = 1 + int(r.below(4));
    it->target = int(r.below(std::uint32_t(it->ncb)));
    it->extra_yields = int(r.below(4));
    it->pre_yields = int(r.below(3));
    for (int c = 0; c < it->ncb; ++c)
    {
        slot_t& s = it->slots[c];
        s.yields = int(r.below(3));
        std::uint32_t k = r.below(5);
        if (k == 3) s.act = act_self;
        else if (k == 4 && it->ncb > 2)
        {
            int o = int(r.below(std::uint32_t(it->ncb)));
            if (o != it->target && o != c)
            {
                s.act = act_other;
                s.arg = o;
            }
        }
    }
    slot_t& t = it->slots[it->target];
    if (scen == 0)
    {
        t.act = act_target_a;
        it->variant = int(r.below(3) == 0 ? 1 : 0);
        it->nd = 1 + int(r.below(3));
        it->d_slot[0] = it->target;
        it->d_pre[0] = int(r.below(3));
    }
    else
    {
        t.act = act_target_b;
        it->max_rounds = 4 + int(r.below(9));
        std::uint32_t v = r.below(9);
        it->variant = v < 6 ? 0 : v < 8 ? 1 : 2;
        it->nd = int(r.below(3));
        if (it->variant == 2)
        {
            if (it->nd == 0) it->nd = 1;
            it->d_slot[0] = it->target;
            it->d_pre[0] = int(r.below(3));
        }
    }
    for (int d = (it->d_slot[0] == it->target ? 1 : 0); d < it->nd; ++d)
    {
        // further helpers: destroy some non-target callback at some time
        int o = int(r.below(std::uint32_t(it->ncb)));
        it->d_slot[d] = o == it->target ? -1 : o;
        it->d_pre[d] = int(r.below(4));
        it->d_wait_go[d] = r.below(2) == 0;
    }
    return it;
}

static std::string describe(iter_t const* it)
{
    char b[256];
    std::snprintf(b, sizeof b, "scen=%c variant=%s ncb=%d target=%d cbyields=%d extra=%d pre=%d helpers=%d",
        it->scen == 0 ? 'A' : 'B',
        it->scen == 0 ? (it->variant ? "mutex" : "yield") : (it->variant == 0 ? "self" : it->variant == 1 ? "executed+self" : "other"),
        it->ncb, it->target, it->slots[it->target].yields, it->extra_yields, it->pre_yields, it->nd);
    std::string s = b;
    s += " acts=";
    for (int c = 0; c < it->ncb; ++c)
    {
        static char const* n[] = {"none", "self", "other", "TARGET", "TARGET"};
        s += (c ? "," : "") + std::string(n[it->slots[c].act]);
    }
    s += " destroys=";
    for (int d = 0; d < it->nd; ++d) s += (d ? "," : "") + std::to_string(it->d_slot[d]);
    return s;
}

int main(int argc, char** argv)
{
    if (argc < 6) return 2;
    int scen = argv[1][0] == 'B' ? 1 : 0;
    std::uint64_t seed = std::strtoull(argv[2], nullptr, 10);
    int iters = std::atoi(argv[3]);
    int min_ex = std::atoi(argv[4]);
    double budget = std::atof(argv[5]);
    pika::verif::sink.store(&sink);

    std::vector<char const*> av{argv[0]};
    for (int i = 6; i < argc; ++i) av.push_back(argv[i]);
    pika::start(nullptr, int(av.size()), av.data());
    g_workers = int(pika::get_num_worker_threads());
    std::printf("live scen=%c seed=%llu workers=%d iterations<=%d min_exercised=%d\n", scen ? 'B' : 'A',
        (unsigned long long) seed, g_workers, iters, min_ex);

    auto t0 = std::chrono::steady_clock::now();
    int ran = 0, exercised = 0, nosteal = 0;
    long rounds = 0, placed = 0;
    char const* status = "ok";
    std::string why;
    for (int i = 0; i < iters && exercised < min_ex; ++i)
    {
        iter_t* it = make_iter(scen, seed, i);    // kept until the end of the process on purpose
        g_cur_iter = i;
        g_cur_desc = describe(it);
        g_cur.store(it);
        spawn([it] { root(it); });
        // watchdog: verdicts from state only
        bool hang = false, over = false;
        for (unsigned spin = 0; !it->done.load(); ++spin)
        {
            if (g_selfwait.load()) { hang = true; break; }
            if ((spin & 63) == 63 &&
                std::chrono::duration<double>(std::chrono::steady_clock::now() - t0).count() > budget)
            {
                over = true;
                break;
            }
            if (spin < 200) sched_yield();
            else usleep(50);
        }
        ++ran;
        bool ex_ = it->exercised.load();
        exercised += ex_ ? 1 : 0;
        rounds += it->rounds.load();
        placed += it->blockers_started.load();
        if (scen == 1 && !it->migrated.load()) ++nosteal;
        if (hang)
        {
            int which = -1;
            for (int c = 0; c < it->ncb; ++c)
                if (it->slots[c].selfwait.load()) which = c;
            bool moved = it->migrated.load();
            monitor("hang: the destructor of stop_callback " + std::to_string(which) +
                " waits for the end of the callback it is running inside (remove_callback chose to wait for "
                "callback_finished_executing_ on the pika thread that executes this callback" +
                (moved ? "; the task had been stolen by another worker during the callback, so its OS thread differs from the one request_stop started on" : "") +
                ")");
            std::printf("iter %d %s result=HANG\n", i, g_cur_desc.c_str());
            status = "violation";
            break;
        }
        if (over)
        {
            g_abort.store(true);
            status = "inconclusive";
            why = it->in_own_dtor.load() != nullptr ?
                "wall-clock budget used up while a stop_callback destructor called inside its own callback had not returned (no hook evidence of a wait: no verdict)" :
                "wall-clock budget used up (slow machine?): no verdict";
            std::printf("iter %d %s result=unfinished\n", i, g_cur_desc.c_str());
            break;
        }
        std::printf("iter %d %s %s result=%s\n", i, g_cur_desc.c_str(),
            scen == 0 ? (it->shared_os.load() ? "same_os=1" : "same_os=0") :
                        (it->migrated.load() ? "stolen=1" : "stolen=0"),
            g_violations.load() ? "VIOLATION" : ex_ ? "ok" : "ok-not-exercised");
        if (g_violations.load())
        {
            status = "violation";
            break;
        }
    }
    g_cur.store(nullptr);
    if (std::strcmp(status, "ok") == 0 && exercised < min_ex)
    {
        status = "inconclusive";
        why = scen == 1 ? "skipped: steal not achieved often enough (" + std::to_string(exercised) + " of " +
                std::to_string(min_ex) + " wanted iterations had the task stolen during the callback)" :
                          "skipped: scenario not exercised often enough";
    }
    for (auto const& m : g_monitor) std::printf("monitor %s\n", m.c_str());
    if (!why.empty()) std::printf("note %s\n", why.c_str());
    std::printf("summary scen=%c seed=%llu workers=%d iterations=%d exercised=%d not_stolen=%d blocker_rounds=%ld blockers_placed=%ld "
                "self_branch=%ld wait_branch=%ld violations=%d status=%s wall=%.2f\n",
        scen ? 'B' : 'A', (unsigned long long) seed, g_workers, ran, exercised, nosteal, rounds, placed, g_self_branch.load(),
        g_wait_branch.load(), g_violations.load(), status,
        std::chrono::duration<double>(std::chrono::steady_clock::now() - t0).count());
    std::fflush(stdout);
    if (std::strcmp(status, "ok") != 0) _exit(std::strcmp(status, "violation") == 0 ? 3 : 0);
    pika::finalize();
    pika::stop();
    return 0;
}
