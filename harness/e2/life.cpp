// E2 harness for C05: runtime life-cycle histories on the live runtime, exact event log.
// usage: e2_life <seed> <perturb_per_1024> <incarnations> <size> [style|-1 [threads|0 [policy|-1 [race_suspend [smode|-1]]]]]
//   smode (follow-up C05h): phase in which pika::stop() is entered: 0 running (the original grammar), 1 SUSPENDED
//   (finalize while running; suspend; stop without resume), 2 suspend; resume; stop, 3 suspend; suspend (no-op); stop
//   while suspended, 4 directed probe: work queued while suspended, then stop() (documented non-return: "no progress
//   will be made"; ends `end pending-stop` when the state-based stuck verdict finds exactly that state), 5 directed
//   probe of the sleep/notify window of scheduler_base::suspend (finding C05-stop-suspended-lostwake), -1 PRNG (0-3).
// One process = one case = 1..5 incarnations of the runtime, each with its own thread count and
// scheduling policy, each running a history drawn from
//   start cfg; (submit* | external_submit | wait | task_wait | suspend; [submit]; resume)*; finalize; stop
// with four shutdown styles (finalize-then-stop on one thread; stop() entered first and a helper
// thread submitting work and then finalizing; finalize from inside a task; entry function).
// Prints: log lines, `monitor <text>` lines (observable violations: completion ledger read right
// after wait()/stop() return, body activity during suspension, stop() value), `end ok|hang|crash`.
#include "../e2_log.hpp"

#include <pika/execution.hpp>
#include <pika/init.hpp>
#include <pika/modules/thread_manager.hpp>
#include <pika/runtime/runtime.hpp>
#include <pika/thread.hpp>

#include <atomic>
#include <exception>
#include <chrono>
#include <cstdlib>
#include <cstring>
#include <dirent.h>
#include <map>
#include <sys/syscall.h>
#include <functional>
#include <memory>
#include <mutex>
#include <string>
#include <thread>
#include <vector>

namespace ex = pika::execution::experimental;
namespace e2 = verif::e2;

struct rng
{
    std::uint64_t s;
    std::uint64_t next()
    {
        std::uint64_t z = (s += 0x9e3779b97f4a7c15ull);
        z = (z ^ (z >> 30)) * 0xbf58476d1ce4e5b9ull;
        z = (z ^ (z >> 27)) * 0x94d049bb133111ebull;
        return z ^ (z >> 31);
    }
    std::uint32_t below(std::uint32_t n) { return n ? std::uint32_t(next() % n) : 0; }
};

static bool g_probe_window = false;    // smode 5: the POINT between the store of `sleeping` and the wait is passed on
static bool life_filter(char const* s)
{
    switch (s[0])
    {
    case 'e': return g_probe_window && std::strcmp(s, "el.pt.sleep") == 0;    // a POINT: never logged
    case 'g': return s[1] == 'a';                                              // gac.*
    case 't': return s[1] == 'a';                                              // task.*
    case 'p': return s[1] == 'h' || s[1] == 'u' || (s[1] == 'o' && s[2] == 'o');    // phase.* pu.* pool.*
    case 'b': return s[1] == 'o';                                              // body.*
    case 'r': return s[1] == 't';                                              // rt.*
    case 'l': return s[1] == 'i';                                              // life.*
    case 'n': return s[1] == 'e';                                              // newq.*
    case 'h': return s[1] == 'e';                                              // heap.*
    case 'x': return true;                                                     // harness notes
    default: return false;
    }
}

// Busy samples of the wait predicate are unbounded in number (the caller polls); a busy sample that
// repeats the value this OS thread logged last is a no-op of the model and is not recorded.  Every
// returning sample (count <= self) and every change of the sampled value is recorded.
static thread_local std::uint64_t tl_last_sample = ~0ull;
static void life_sink(int phase, char const* site, void const* obj, std::uint64_t a, std::uint64_t b) noexcept
{
    if (phase == 2 && e2::tl_holding && site[0] == 'g' && site[4] == 's')
    {
        bool const returning = (a >> 1) <= (a & 1);
        if (!returning && a == b && a == tl_last_sample)
        {
            e2::tl_depth = 0;    // drops the gac.sample pair opened by the PRE (never nested)
            e2::tl_holding = false;
            e2::unlock();
            return;
        }
        tl_last_sample = a;
    }
    e2::sink(phase, site, obj, a, b);
}

static std::vector<std::string> g_monitor;
static std::atomic<bool> g_mon_lock{false};
static void monitor(std::string s)
{
    while (g_mon_lock.exchange(true)) {}
    if (g_monitor.size() < 20) g_monitor.push_back(std::move(s));
    g_mon_lock.store(false);
}

struct tinfo
{
    std::atomic<int> entered{0};
    std::atomic<int> finished{0};
    std::atomic<bool> subdone{false};
    long parent = -1;
};
static std::vector<tinfo>* g_tasks = nullptr;
static std::atomic<long> g_ids{0}, g_done{0}, g_entered{0};
static std::atomic<long> g_waits{0};
static int g_maxdepth = 2, g_width = 2;
// while a task is blocked in wait() nothing of low priority is submitted: the polling task is
// re-queued with normal/boosted priority and would starve low-priority work on its worker forever
static std::atomic<bool> g_no_low{false};
static constexpr long max_tasks = 400000;

static void* self_obj()
{
    return pika::threads::detail::get_thread_id_data(pika::threads::detail::get_self_id());
}

static long new_task(long parent)
{
    long id = g_ids.fetch_add(1);
    if (id >= max_tasks) std::abort();
    (*g_tasks)[id].parent = parent;
    e2::note("x.sub", nullptr, std::uint64_t(id), std::uint64_t(parent + 1));
    return id;
}
static void sub_done(long id)
{
    (*g_tasks)[id].subdone.store(true);
    e2::note("x.subdone", nullptr, std::uint64_t(id));
}

struct body_guard
{
    long id;
    explicit body_guard(long i)
      : id(i)
    {
        auto& t = (*g_tasks)[id];
        if (t.entered.fetch_add(1) != 0) monitor("task " + std::to_string(id) + " body entered twice");
        g_entered.fetch_add(1);
        e2::note("body.enter", self_obj(), std::uint64_t(id));
    }
    void tick() { e2::note("x.tick", nullptr, std::uint64_t(id)); }
    ~body_guard()
    {
        e2::note("body.exit", self_obj(), std::uint64_t(id));
        (*g_tasks)[id].finished.fetch_add(1);
        g_done.fetch_add(1);
    }
};

// the completion ledger, read immediately after wait()/stop() returned
static std::vector<char> snapshot_subdone()
{
    long n = g_ids.load();
    std::vector<char> s(std::size_t(n), 0);
    for (long i = 0; i < n; ++i) s[std::size_t(i)] = (*g_tasks)[i].subdone.load() ? 1 : 0;
    return s;
}
static void check_ledger(std::vector<char> const& snap, long self, char const* what)
{
    long n = g_ids.load();
    int reported = 0;
    for (long k = 0; k < n && reported < 3; ++k)
    {
        if (k == self) continue;
        // in the closure = submitted before the call, or a descendant of such a task
        bool in = false;
        for (long a = k; a >= 0; a = (*g_tasks)[a].parent)
        {
            if (a < long(snap.size()) && snap[std::size_t(a)]) { in = true; break; }
        }
        if (in && (*g_tasks)[k].finished.load() == 0)
        {
            monitor(std::string(what) + " returned but task " + std::to_string(k) +
                " (submitted before the call, or spawned by such a task) has not finished");
            ++reported;
        }
    }
}

static thread_local bool tl_force_low = false;
static ex::thread_pool_scheduler sched_with(rng& r, bool& nostack)
{
    ex::thread_pool_scheduler s{};
    nostack = false;
    if (tl_force_low) return ex::with_priority(s, pika::execution::thread_priority::low);
    switch (r.below(8))
    {
    case 0: s = ex::with_priority(s, pika::execution::thread_priority::high); break;
    case 1:
        if (!g_no_low.load()) s = ex::with_priority(s, pika::execution::thread_priority::low);
        break;
    case 2: s = ex::with_stacksize(s, pika::execution::thread_stacksize::medium); break;
    case 3:
        s = ex::with_stacksize(s, pika::execution::thread_stacksize::nostack);
        nostack = true;
        break;
    case 4: s = ex::with_priority(s, pika::execution::thread_priority::high_recursive); break;
    default: break;
    }
    return s;
}

static void spin_us(unsigned us)
{
    auto const end = std::chrono::steady_clock::now() + std::chrono::microseconds(us);
    while (std::chrono::steady_clock::now() < end) __builtin_ia32_pause();
}

static void spawn(std::uint64_t seed, int depth, long parent);

static void task_body(long id, std::uint64_t seed, int depth, bool nostack)
{
    rng r{seed};
    body_guard g(id);
    if (!nostack && r.below(3) == 0) pika::this_thread::yield();
    if (r.below(4) == 0) spin_us(20 + r.below(200));
    g.tick();
    if (depth < g_maxdepth)
    {
        int w = int(r.below(std::uint32_t(g_width + 1)));
        for (int c = 0; c < w; ++c)
        {
            spawn(r.next(), depth + 1, id);
            if (!nostack && r.below(5) == 0) pika::this_thread::yield();
        }
    }
    if (!nostack && r.below(4) == 0) pika::this_thread::yield();
    g.tick();
}

static void spawn(std::uint64_t seed, int depth, long parent)
{
    rng r{seed};
    long id = new_task(parent);
    bool nostack = false;
    auto s = sched_with(r, nostack);
    std::uint64_t bs = r.next();
    ex::start_detached(ex::schedule(s) | ex::then([=] { task_body(id, bs, depth, nostack); }));
    sub_done(id);
}

// ---------------------------------------------------------------- hang detection (state based)
static std::atomic<int> g_blocking{0};    // main is inside a blocking life-cycle call
static std::atomic<long> g_stage{0};      // bumped by main / helpers whenever they make a step
static std::atomic<bool> g_watch_stop{false};
static std::atomic<bool> g_finishing{false};
static char const* volatile g_where = "";

static void finish(char const* status);

// per-thread scheduler facts from /proc: state letter and consumed CPU time (clock ticks)
struct tstat
{
    char state;
    long cpu;
};
static std::map<int, tstat> read_threads()
{
    std::map<int, tstat> out;
    DIR* d = opendir("/proc/self/task");
    if (!d) return out;
    while (dirent* e = readdir(d))
    {
        int tid = std::atoi(e->d_name);
        if (tid <= 0) continue;
        std::string path = std::string("/proc/self/task/") + e->d_name + "/stat";
        FILE* f = std::fopen(path.c_str(), "r");
        if (!f) continue;
        char buf[1024];
        std::size_t n = std::fread(buf, 1, sizeof(buf) - 1, f);
        std::fclose(f);
        buf[n] = 0;
        char* p = std::strrchr(buf, ')');    // the command name may contain spaces
        if (!p) continue;
        char st = 0;
        long ut = 0, stt = 0;
        // after ')': state ppid pgrp session tty tpgid flags minflt cminflt majflt cmajflt utime stime
        if (std::sscanf(p + 1, " %c %*d %*d %*d %*d %*d %*u %*u %*u %*u %*u %ld %ld", &st, &ut, &stt) == 3)
            out[tid] = tstat{st, ut + stt};
    }
    closedir(d);
    return out;
}

static void watchdog()
{
    std::size_t last_log = 0;
    long last_done = -1, last_stage = -1, last_ids = -1;
    int quiet = 0;
    int const self_tid = int(syscall(SYS_gettid));
    std::map<int, tstat> base;
    while (!g_watch_stop.load())
    {
        std::this_thread::sleep_for(std::chrono::milliseconds(20));
        if (e2::g_overflow.load()) finish("overflow");
        std::size_t logsz = e2::g_log->size();
        long d = g_done.load(), st = g_stage.load(), ids = g_ids.load();
        // A hang is declared only from state, never from elapsed time: neither the event log, nor the
        // ledger, nor any harness thread has moved for 600 consecutive observations, AND every thread
        // of the process is either blocked in the kernel or has consumed at least 0.5 s of CPU time
        // since the last movement (a runnable thread that the loaded machine has not yet given CPU
        // time keeps the verdict open indefinitely).
        if (logsz == last_log && d == last_done && st == last_stage && ids == last_ids)
        {
            if (quiet == 0) base = read_threads();
            ++quiet;
            if (quiet >= 600 && quiet % 50 == 0)
            {
                auto now = read_threads();
                bool all_served = true;
                for (auto const& [tid, ts] : now)
                {
                    if (tid == self_tid) continue;
                    if (ts.state == 'S' || ts.state == 'D') continue;
                    auto it = base.find(tid);
                    long before = it == base.end() ? 0 : it->second.cpu;
                    if (ts.cpu - before < 50) { all_served = false; break; }
                }
                if (all_served) finish("hang");
            }
        }
        else quiet = 0;
        last_log = logsz;
        last_done = d;
        last_stage = st;
        last_ids = ids;
    }
}

static std::uint64_t g_seed = 0;
static int g_incs = 0, g_size = 0;
static std::atomic<bool> g_expect_pending{false};
static int g_main_tid = 0;
static std::atomic<int> g_probe_seen_join{0};
static long g_pending_first = 0, g_pending_entered = 0, g_pending_done = 0;

static void finish(char const* status)
{
    if (g_finishing.exchange(true))
    {
        for (;;) std::this_thread::sleep_for(std::chrono::seconds(1));
    }
    bool ok = std::string(status) == "ok" || std::string(status) == "overflow";
    // smode 4 (directed probe): stop() on a suspended runtime that holds queued work.  The unchanged tree does not
    // return (thread_manager::wait polls the activity counter, every worker sleeps: "work can be scheduled on the
    // runtime even when it is suspended, but no progress will be made").  The stuck verdict is the usual state-based
    // one; it is the EXPECTED outcome only if main is inside stop(), the runtime is still `sleeping`, no body ran
    // since the suspension and the queued tasks are all unfinished.
    if (!ok && g_expect_pending.load() && std::string(status) == "hang" && std::strcmp(g_where, "pika::stop()") == 0)
    {
        auto* rt = pika::detail::get_runtime_ptr();
        bool const sleeping = rt != nullptr && rt->get_state() == pika::runtime_state::sleeping;
        bool const untouched = g_entered.load() == g_pending_entered && g_done.load() == g_pending_done;
        long unfinished = 0;
        for (long k = g_pending_first; k < g_ids.load(); ++k)
            if ((*g_tasks)[k].finished.load() == 0) ++unfinished;
        if (sleeping && untouched && unfinished == g_ids.load() - g_pending_first && unfinished > 0)
        {
            status = "pending-stop";
            ok = true;
        }
    }
    if (!ok && g_probe_window && std::strcmp(g_where, "pika::stop()") == 0)
    {
        // smode 5: its own signature, so that listing the finding can never hide a plain "stuck in stop()"
        monitor("directed probe: every worker was held between its store of `sleeping` and the condition-variable wait "
                "until stop() had sent all its notifications; stop() never returns (lost wake-up in stop_locked)");
    }
    else if (!ok && std::strncmp(status, "crash", 5) == 0)
    {
        // an exception escaped from a life-cycle call: not a hang - the message must not carry a "stuck in" signature
        // (a listed liveness finding would otherwise hide it)
        monitor(std::string("a life-cycle call threw (see the exception above); last call: ") + std::string(g_where));
    }
    else if (!ok)
    {
        long n = g_ids.load();
        int rep = 0;
        for (long k = 0; k < n && rep < 3; ++k)
            if ((*g_tasks)[k].finished.load() == 0)
            {
                monitor("task " + std::to_string(k) + " never finished; the run is stuck in " + std::string(g_where));
                ++rep;
            }
        if (rep == 0) monitor(std::string("the run is stuck in ") + std::string(g_where) + " although every task finished");
    }
    e2::g_enabled.store(false);
    std::printf("case e2 prog=life seed=%llu incs=%d size=%d tasks=%ld\n", (unsigned long long) g_seed, g_incs,
        g_size, g_ids.load());
    e2::dump(stdout);
    for (auto const& m : g_monitor) std::printf("monitor %s\n", m.c_str());
    std::printf("end %s\nendcase\n", status);
    std::fflush(stdout);
    _exit(0);
}

struct blocking
{
    explicit blocking(char const* w)
    {
        g_where = w;
        g_stage.fetch_add(1);
        g_blocking.store(1);
    }
    ~blocking()
    {
        g_blocking.store(0);
        g_stage.fetch_add(1);
    }
};

// ---------------------------------------------------------------- life-cycle operations
static char const* const policies[] = {"local", "local-priority-fifo", "local-priority-lifo", "static",
    "static-priority", "abp-priority-fifo", "abp-priority-lifo", "shared-priority"};
static int policy_class(int p)
{
    static int const cls[] = {1, 2, 2, 3, 4, 5, 5, 6};
    return cls[p];
}
static int description_class(std::string const& d)
{
    if (d.find("shared_priority") != std::string::npos) return 6;
    if (d.find("abp") != std::string::npos) return 5;
    if (d.find("static_priority") != std::string::npos) return 4;
    if (d.find("static") != std::string::npos) return 3;
    if (d.find("local_priority") != std::string::npos) return 2;
    if (d.find("local_queue") != std::string::npos) return 1;
    return 0;
}

static void do_wait_external()
{
    long w = g_waits.fetch_add(1);
    auto snap = snapshot_subdone();
    e2::note("x.wait.enter", nullptr, std::uint64_t(w), 0);
    {
        blocking b("pika::wait()");
        pika::wait();
    }
    check_ledger(snap, -1, "wait()");
    e2::note("x.wait.exit", nullptr, std::uint64_t(w), 0);
}

// pika::wait() from an OS thread other than main, concurrently with whatever main does next (C05h)
static void do_wait_helper()
{
    long w = g_waits.fetch_add(1);
    auto snap = snapshot_subdone();
    e2::note("x.wait.enter", nullptr, std::uint64_t(w), 0);
    pika::wait();
    check_ledger(snap, -1, "wait() called from a second OS thread");
    e2::note("x.wait.exit", nullptr, std::uint64_t(w), 0);
    g_stage.fetch_add(1);
}

static void waiter_task(long id, std::uint64_t seed)
{
    rng r{seed};
    body_guard g(id);
    int n = int(r.below(4));
    for (int i = 0; i < n; ++i) spawn(r.next(), 1, id);
    long w = g_waits.fetch_add(1);
    auto snap = snapshot_subdone();
    e2::note("x.wait.enter", nullptr, std::uint64_t(w), std::uint64_t(id + 1));
    pika::wait();    // called from a task: the caller itself is not waited for
    check_ledger(snap, id, "wait() called from a task");
    e2::note("x.wait.exit", nullptr, std::uint64_t(w), 0);
    g.tick();
}

static int g_force_th = 0, g_force_pol = -1, g_race_suspend = 0, g_force_smode = -1;

// pika::suspend() with the harness' observations; `again` = the runtime is already suspended (documented no-op)
static void do_suspend(long& entered_before, long& done_before, bool again)
{
    e2::note(again ? "x.susp2.enter" : "x.susp.enter", nullptr);
    {
        blocking b("pika::suspend()");
        pika::suspend();
    }
    if (!again)
    {
        entered_before = g_entered.load();
        done_before = g_done.load();
    }
    e2::note(again ? "x.susp2.exit" : "x.susp.exit", nullptr);
    if (pika::detail::get_runtime_ptr()->get_state() != pika::runtime_state::sleeping)
        monitor("suspend() returned but the runtime state is not `sleeping`");
}
static void check_quiet(long entered_before, long done_before)
{
    if (g_entered.load() != entered_before || g_done.load() != done_before)
        monitor("a task body executed while the runtime was suspended");
}

// `q`: PRNG stream of the follow-up grammar (C05h), separate from `r` so that the histories drawn by the original
// grammar for a given seed are unchanged
static void run_incarnation(rng& r, rng& q, int inc, int force_style)
{
    int th = 1 + int(r.below(4)) + (r.below(6) == 0 ? 2 : 0);
    int pol = int(r.below(8));
    if (g_force_th > 0) th = g_force_th;
    if (g_force_pol >= 0) pol = g_force_pol;
    int style = force_style >= 0 ? force_style : int(r.below(4));
    // phase in which stop() will be entered (see the usage comment)
    static int const smode_table[] = {0, 0, 0, 1, 1, 1, 2, 3};
    int smode = g_force_smode >= 0 ? g_force_smode : smode_table[q.below(8)];
    if (g_race_suspend) smode = g_force_smode >= 0 ? g_force_smode : 0;    // the finding reproductions keep the original shutdown
    // stop() entered before finalize (style 1) needs a running runtime: pika::finalize() refuses a suspended one
    if (style == 1 && (smode == 1 || smode == 3 || smode >= 4))
    {
        if (force_style == 1 && g_force_smode < 0) smode = q.below(2) ? 2 : 0;
        else style = 0;
    }
    g_maxdepth = 1 + int(r.below(3));
    g_width = 1 + int(r.below(3));
    int const entry_ret = 1 + int(r.below(100));

    std::string a1 = "--pika:threads=" + std::to_string(th);
    std::string a2 = std::string("--pika:scheduler=") + policies[pol];
    char const* av[] = {"e2_life", a1.c_str(), a2.c_str(), nullptr};

    e2::note("x.start", nullptr, std::uint64_t(th), std::uint64_t(policy_class(pol)));
    g_where = "pika::start()";
    std::uint64_t const es = r.next();
    if (style == 3)
    {
        // entry function: a pika task that submits work and returns a value
        std::function<int()> entry = [=]() -> int {
            rng rr{es};
            long id = new_task(-1);
            sub_done(id);
            int ret;
            {
                body_guard g(id);
                int n = 1 + int(rr.below(4));
                for (int i = 0; i < n; ++i) spawn(rr.next(), 0, id);
                ret = entry_ret;
                e2::note("x.entry", nullptr, std::uint64_t(ret));
            }
            return ret;
        };
        pika::start(entry, 3, av);
    }
    else { pika::start(nullptr, 3, av); }
    g_stage.fetch_add(1);
    {
        auto& tm = pika::detail::get_runtime().get_thread_manager();
        std::string d = tm.default_pool().get_scheduler()->get_description();
        e2::note("x.cfg", nullptr, std::uint64_t(pika::get_num_worker_threads()), std::uint64_t(description_class(d)));
    }

    std::vector<std::thread> helpers;
    auto join_helpers = [&] {
        for (auto& t : helpers) t.join();
        helpers.clear();
    };
    int const nops = 1 + int(r.below(std::uint32_t(g_size)));
    for (int i = 0; i < nops; ++i)
    {
        g_stage.fetch_add(1);
        // follow-up grammar (C05h): API uses the original grammar never produced
        switch (g_race_suspend ? 99u : q.below(12))
        {
        case 0:
        {
            // resume() of a running (possibly idle) runtime: documented no-op ("runtime is suspended or running")
            e2::note("x.res0.enter", nullptr);
            {
                blocking b("pika::resume()");
                pika::resume();
            }
            e2::note("x.res0.exit", nullptr);
            if (pika::detail::get_runtime_ptr()->get_state() != pika::runtime_state::running)
                monitor("resume() of a running runtime left the state != running");
            break;
        }
        case 1:
        {
            // wait() from a second OS thread, concurrently with main's next operations
            helpers.emplace_back([] { do_wait_helper(); });
            break;
        }
        case 2:
        {
            // resume of an idle suspended runtime, entered twice (the second call is a no-op), then a wait
            join_helpers();
            long eb = 0, db = 0;
            do_suspend(eb, db, false);
            if (q.below(2)) do_suspend(eb, db, true);
            if (q.below(2)) do_wait_external();    // idle and suspended: returns at once
            check_quiet(eb, db);
            e2::note("x.res.enter", nullptr);
            {
                blocking b("pika::resume()");
                pika::resume();
            }
            e2::note("x.res.exit", nullptr);
            if (q.below(2))
            {
                e2::note("x.res0.enter", nullptr);
                pika::resume();
                e2::note("x.res0.exit", nullptr);
            }
            break;
        }
        default: break;
        }
        switch (r.below(8))
        {
        case 0:
        case 1:
        {
            int n = 1 + int(r.below(std::uint32_t(g_size)));
            for (int k = 0; k < n; ++k) spawn(r.next(), 0, -1);
            break;
        }
        case 2:
        {
            // tasks submitted from a non-pika thread, concurrently with whatever main does next
            std::uint64_t hs = r.next();
            int n = 1 + int(r.below(std::uint32_t(g_size)));
            helpers.emplace_back([=] {
                rng rr{hs};
                for (int k = 0; k < n; ++k)
                {
                    spawn(rr.next(), 0, -1);
                    g_stage.fetch_add(1);
                    if (rr.below(3) == 0) spin_us(rr.below(300));
                }
            });
            break;
        }
        case 3:
        case 4: do_wait_external(); break;
        case 5:
        {
            join_helpers();
            do_wait_external();
            g_no_low.store(true);
            long id = new_task(-1);
            std::uint64_t ws = r.next();
            ex::start_detached(ex::schedule(ex::thread_pool_scheduler{}) | ex::then([=] { waiter_task(id, ws); }));
            sub_done(id);
            do_wait_external();    // at most one waiting task at a time
            g_no_low.store(false);
            break;
        }
        default:
        {
            // External submissions racing suspend() can make suspend() spin forever in the pinned tree
            // (finding C05-suspend-lowprio: a worker in pre_sleep never takes low-priority work but
            // does not go to sleep while the low-priority queue is non-empty); the default grammar
            // therefore completes all external submissions first.  `race_suspend=1` keeps the race.
            if (!g_race_suspend) join_helpers();
            if (g_race_suspend == 2)
            {
                // reproduction of finding C05-suspend-lowprio: low-priority work arriving from an OS
                // thread while suspend() is between its idle check and the last worker falling asleep
                std::uint64_t hs = r.next();
                helpers.emplace_back([=] {
                    rng rr{hs};
                    tl_force_low = true;
                    for (int k = 0; k < 40; ++k)
                    {
                        spawn(rr.next(), g_maxdepth, -1);
                        g_stage.fetch_add(1);
                        spin_us(20 + rr.below(100));
                    }
                });
            }
            e2::note("x.susp.enter", nullptr);
            {
                blocking b("pika::suspend()");
                pika::suspend();
            }
            long const entered_before = g_entered.load(), done_before = g_done.load();
            e2::note("x.susp.exit", nullptr);
            // work can be scheduled while suspended, but must not run
            int n = int(r.below(std::uint32_t(g_size)));
            for (int k = 0; k < n; ++k) spawn(r.next(), 0, -1);
            spin_us(200 + r.below(2000));
            if (g_entered.load() != entered_before || g_done.load() != done_before)
                monitor("a task body executed while the runtime was suspended");
            e2::note("x.res.enter", nullptr);
            {
                blocking b("pika::resume()");
                pika::resume();
            }
            e2::note("x.res.exit", nullptr);
            break;
        }
        }
    }

    // shutdown
    int r_stop = -12345;
    int const expected = style == 3 ? entry_ret : 0;
    if (style == 1)
    {
        // stop() is entered while finalize() has not been called; a helper thread submits work
        // (concurrently with stop) and only then finalizes
        std::uint64_t hs = r.next();
        int n = 1 + int(r.below(std::uint32_t(2 * g_size)));
        std::atomic<bool> entered{false};
        std::vector<std::thread> old;
        old.swap(helpers);
        std::thread h([&, hs, n] {
            rng rr{hs};
            while (!entered.load()) std::this_thread::yield();
            spin_us(200 + rr.below(3000));
            for (int k = 0; k < n; ++k)
            {
                spawn(rr.next(), 0, -1);
                g_stage.fetch_add(1);
                if (rr.below(3) == 0) spin_us(rr.below(300));
            }
            for (auto& t : old) t.join();    // every external submission precedes finalize
            g_stage.fetch_add(1);
            pika::finalize();
            g_stage.fetch_add(1);
        });
        e2::note("x.stop.enter", nullptr);
        {
            blocking b("pika::stop()");
            entered.store(true);
            r_stop = pika::stop();
        }
        auto snap = snapshot_subdone();
        check_ledger(snap, -1, "stop()");
        e2::note("x.stop.exit", nullptr, std::uint64_t(std::uint32_t(r_stop)), std::uint64_t(expected));
        h.join();
    }
    else
    {
        join_helpers();
        if (style == 2)
        {
            // finalize from inside the runtime
            long id = new_task(-1);
            std::uint64_t fs = r.next();
            ex::start_detached(ex::schedule(ex::thread_pool_scheduler{}) | ex::then([=] {
                rng rr{fs};
                body_guard g(id);
                int n = int(rr.below(4));
                for (int i = 0; i < n; ++i) spawn(rr.next(), 1, id);
                pika::finalize();
                g.tick();
            }));
            sub_done(id);
        }
        else if (q.below(3) == 0)
        {
            // finalize from a non-pika thread other than the one that will call stop() (C05h)
            std::thread f([] {
                pika::finalize();
                g_stage.fetch_add(1);
            });
            f.join();
        }
        else { pika::finalize(); }

        // ---- follow-up C05h: the phase in which stop() is entered
        bool stop_suspended = false;
        long eb = 0, db = 0;
        if (smode >= 1)
        {
            // finalize() has been called (or will be, by the finalizer task that suspend() waits for) while the
            // runtime is running; now the main thread suspends it
            if (smode == 5)
            {
                // directed probe: every worker is held between its store of `sleeping` and the condition-variable
                // wait until the main thread has gone through all of stop()'s notifications
                g_probe_window = true;
                e2::g_on_point = [](char const* site, void const*, std::uint64_t, std::uint64_t) {
                    if (std::strcmp(site, "el.pt.sleep") != 0) return;
                    // released only from state: main is inside stop() and blocked in the kernel (join)
                    for (;;)
                    {
                        if (g_blocking.load() && std::strcmp(g_where, "pika::stop()") == 0 && g_main_tid != 0)
                        {
                            auto ts = read_threads();
                            auto it = ts.find(g_main_tid);
                            if (it != ts.end() && it->second.state == 'S' && g_probe_seen_join.fetch_add(1) >= 3) break;
                        }
                        std::this_thread::sleep_for(std::chrono::milliseconds(5));
                    }
                    g_stage.fetch_add(1);
                };
            }
            do_suspend(eb, db, false);
            if (smode == 3) do_suspend(eb, db, true);    // suspend twice: the second call is a no-op
            if (smode == 2)
            {
                int n = int(q.below(std::uint32_t(g_size)));
                for (int k = 0; k < n; ++k) spawn(q.next(), 0, -1);    // queued while suspended, runs after resume
                spin_us(100 + q.below(500));
                check_quiet(eb, db);
                e2::note("x.res.enter", nullptr);
                {
                    blocking b("pika::resume()");
                    pika::resume();
                }
                e2::note("x.res.exit", nullptr);
            }
            else
            {
                stop_suspended = true;
                if (smode == 4)
                {
                    // work queued while suspended and never resumed: stop() must not return before it ran
                    g_pending_first = g_ids.load();
                    int n = 1 + int(q.below(std::uint32_t(g_size)));
                    for (int k = 0; k < n; ++k) spawn(q.next(), g_maxdepth, -1);
                    g_pending_entered = g_entered.load();
                    g_pending_done = g_done.load();
                    g_expect_pending.store(true);
                }
                else if (q.below(3) == 0) do_wait_external();    // idle and suspended: returns at once
                spin_us(100 + q.below(1000));
                check_quiet(eb, db);
            }
        }
        if (stop_suspended && smode != 5)
        {
            // The unchanged tree has a (listed) lost wake-up when stop()'s notifications land between a worker's store of
            // `sleeping` and its condition-variable wait (finding C05-stop-suspended-lostwake, reproduced by the directed probe
            // smode 5).  suspend() returns as soon as the state words say `sleeping`, i.e. possibly inside that window, and a
            // generic run hit it once in a few hundred check runs.  Generic runs therefore enter stop() only once every other
            // thread of the process is blocked (two consecutive samples of /proc, bounded) - the window is then closed.
            int const self = int(syscall(SYS_gettid));
            int calm = 0;
            for (int i = 0; i < 200 && calm < 2; ++i)
            {
                bool all_blocked = true;
                for (auto const& kv : read_threads())
                    if (kv.first != self && kv.second.state != 'S') all_blocked = false;
                calm = all_blocked ? calm + 1 : 0;
                if (calm < 2) std::this_thread::sleep_for(std::chrono::microseconds(500));
            }
        }
        e2::note("x.stop.enter", nullptr, stop_suspended ? 1 : 0);
        {
            blocking b("pika::stop()");
            r_stop = pika::stop();
        }
        if (stop_suspended && smode != 4) check_quiet(eb, db);    // drained before the suspension: nothing may have run
        g_expect_pending.store(false);
        e2::g_on_point = nullptr;
        auto snap = snapshot_subdone();
        check_ledger(snap, -1, "stop()");
        e2::note("x.stop.exit", nullptr, std::uint64_t(std::uint32_t(r_stop)), std::uint64_t(expected));
        if (pika::detail::get_runtime_ptr() != nullptr) monitor("stop() returned but a runtime is still registered");
    }
    if (r_stop != expected)
        monitor("stop() returned " + std::to_string(r_stop) + " but the entry function returned " + std::to_string(expected));
    (void) inc;
}

int main(int argc, char** argv)
{
    if (argc < 5) return 2;
    g_seed = std::strtoull(argv[1], nullptr, 10);
    std::uint32_t perturb = std::uint32_t(std::atoi(argv[2]));
    g_incs = std::atoi(argv[3]);
    g_size = std::atoi(argv[4]);
    int force_style = argc > 5 ? std::atoi(argv[5]) : -1;
    if (argc > 6) g_force_th = std::atoi(argv[6]);
    if (argc > 7) g_force_pol = std::atoi(argv[7]);
    if (argc > 8) g_race_suspend = std::atoi(argv[8]);
    if (argc > 9) g_force_smode = std::atoi(argv[9]);
    g_main_tid = int(syscall(SYS_gettid));
    g_tasks = new std::vector<tinfo>(max_tasks);
    e2::g_filter = &life_filter;
    e2::install(g_seed, perturb);
    // std::terminate (an error completion that start_detached cannot deliver, an exception leaving a noexcept function):
    // report what was thrown together with the complete log instead of dying with pika's abort handler
    std::set_terminate([] {
        std::string what = "no active exception";
        if (auto ep = std::current_exception())
        {
            try { std::rethrow_exception(ep); }
            catch (std::exception const& e) { what = e.what(); }
            catch (...) { what = "unknown exception type"; }
        }
        monitor("exception: std::terminate was called: " + what.substr(0, 300));
        finish("crash terminate");
    });
    pika::verif::sink.store(&life_sink);
    std::thread wd(watchdog);
    wd.detach();

    rng r{g_seed * 7919 + 17};
    rng q{g_seed * 104729 + 71};
    try
    {
        for (int i = 0; i < g_incs; ++i) run_incarnation(r, q, i, force_style);
    }
    catch (std::exception const& e)
    {
        monitor(std::string("exception: ") + e.what());
        finish("crash exception");
    }
    finish("ok");
    return 0;
}
