// E2 harness for C20: self-addressed MPI_Isend / MPI_Irecv pairs through pika's transform_mpi adaptor
// on the live runtime (OpenMPI singleton), exact event log of the mpi.* hooks.
// usage: e2_mpi <seed> <perturb_per_1024> <mode> <pool 0|1> <pairs> <maxlog2size> <outstanding>
//               <pollsize> <variant> <rounds> [pika options...]
//   mode    : pika.mpi.completion_mode flags (method<<3 | high_priority<<2 | completion_inline<<1 | request_inline)
//   variant : normal | err (some operations fail: invalid rank -> error at the MPI call; truncated receive
//             -> error at completion) | throw (some MPI callables throw) | early (pika::wait() is called
//             while the submitters are still running)
// Prints: `case e2 k=v...`, log lines, `monitor <text>` lines (observable violations), `end ok|hang|crash`.
#include "../e2_log.hpp"

#include <pika/execution.hpp>
#include <pika/init.hpp>
#include <pika/latch.hpp>
#include <pika/semaphore.hpp>
#include <pika/mpi.hpp>
#include <pika/runtime.hpp>
#include <pika/thread.hpp>

#include <atomic>
#include <chrono>
#include <csignal>
#include <cstdio>
#include <cstdlib>
#include <cstring>
#include <memory>
#include <stdexcept>
#include <string>
#include <thread>
#include <vector>

#include <mpi.h>

namespace ex = pika::execution::experimental;
namespace mpi = pika::mpi::experimental;
namespace e2 = verif::e2;

struct rng
{
    std::uint64_t s;
    std::uint64_t next()
    {
        std::uint64_t z = (s += 0x9e3779b97f4a7c15ull);
        z = (z ^ (z >> 30)) * 0xbf58476d1ce4e5b9ull;
        z = (z ^ (z >> 27)) * 0x94d049bb133111ebull;
        return z ^ (z >> 31);
    }
    std::uint32_t below(std::uint32_t n) { return n ? std::uint32_t(next() % n) : 0; }
};

static bool mpi_wanted(char const* s)
{
    return (s[0] == 'm' && s[1] == 'p' && s[2] == 'i' && s[3] == '.') ||
        (s[0] == 't' && s[1] == 'm' && s[2] == '.') || (s[0] == 'x' && s[1] == '.');
}

// ---------------------------------------------------------------------------------------------
static std::vector<std::string> g_monitor;
static std::atomic<bool> g_mon_lock{false};
static void monitor(std::string s)
{
    while (g_mon_lock.exchange(true)) {}
    if (g_monitor.size() < 20) g_monitor.push_back(std::move(s));
    g_mon_lock.store(false);
}

enum class kind
{
    recv,
    send,
    badrank,    // MPI_Isend to a rank that does not exist (MPI_ERRORS_RETURN): error at the call
    trunc,      // receive into a buffer that is too small: error reported at completion
    thrower,    // the MPI callable throws before calling MPI
};

struct opinfo
{
    kind k{kind::recv};
    int pair{0};
    std::atomic<int> completions{0};
    std::atomic<int> values{0};
    std::atomic<int> errors{0};
    std::atomic<bool> launched{false};
    bool owned{false};    // the buffer travels BY VALUE through the sender chain: transform_mpi owns it
    std::atomic<int> released{0};
};

struct pairinfo
{
    std::vector<unsigned char> sbuf, rbuf;
    std::size_t size{0};
    int tag{0};
};

static std::vector<opinfo>* g_ops = nullptr;
static std::vector<pairinfo>* g_pairs = nullptr;
static std::atomic<long> g_launched{0}, g_completed{0};
// Throttle: one permit per outstanding pair.  Submitters *block* on it (no yield-spinning: pika's
// "fifo" queues are per-producer moodycamel queues whose try_dequeue prefers the longest sub-queue, so
// workers saturated with spinning tasks can starve a task that another OS thread made pending).
static pika::counting_semaphore<>* g_permits = nullptr;
static std::atomic<int> g_phase{0};
static std::string g_header;

static unsigned char pat(int tag, std::size_t i)
{
    return static_cast<unsigned char>(tag * 131u + i * 7u + (i >> 8) * 13u + 1u);
}

// A move-only buffer handle that is handed to transform_mpi BY VALUE: the adaptor decay-copies it into its
// operation state and passes a reference to that copy to the MPI call, so the adaptor owns the memory MPI works on and
// has to keep it until MPI reports the request complete.  The destructor of the owning handle logs the release
// (`x.rel`, ordered against the mpi.* events by the model), checks that a receive buffer has been filled, and
// scrubs the memory so that a send buffer released too early is seen by the matching receive.
static std::vector<unsigned char*> g_graveyard;
static std::atomic<bool> g_grave_lock{false};
static void bury(unsigned char* p)
{
    while (g_grave_lock.exchange(true)) {}
    g_graveyard.push_back(p);
    g_grave_lock.store(false);
}
struct owned_buf
{
    unsigned char* p{nullptr};
    std::size_t n{0};
    int id{-1};
    int tag{0};
    bool recv{false};
    owned_buf(int id_, std::size_t n_, int tag_, bool recv_)
      : p(new unsigned char[n_ ? n_ : 1])
      , n(n_)
      , id(id_)
      , tag(tag_)
      , recv(recv_)
    {
        for (std::size_t i = 0; i < n; ++i) p[i] = recv ? static_cast<unsigned char>(~pat(tag, i)) : pat(tag, i);
    }
    owned_buf(owned_buf&& o) noexcept
      : p(o.p)
      , n(o.n)
      , id(o.id)
      , tag(o.tag)
      , recv(o.recv)
    {
        o.p = nullptr;
    }
    owned_buf& operator=(owned_buf&& o) noexcept
    {
        if (this != &o)
        {
            release();
            p = o.p; n = o.n; id = o.id; tag = o.tag; recv = o.recv;
            o.p = nullptr;
        }
        return *this;
    }
    owned_buf(owned_buf const&) = delete;
    owned_buf& operator=(owned_buf const&) = delete;
    ~owned_buf() { release(); }
    void release()
    {
        if (!p) return;
        e2::note("x.rel", nullptr, std::uint64_t(id), recv ? 1 : 0);
        (*g_ops)[id].released.fetch_add(1);
        if (recv)
        {
            std::size_t bad = 0;
            for (std::size_t i = 0; i < n; ++i)
                if (p[i] != pat(tag, i)) ++bad;
            if (bad != 0)
                monitor("arguments released before the transfer: the buffer owned by receive " + std::to_string(id) + " (" +
                    std::to_string(n) + " bytes) was destroyed with " + std::to_string(bad) + " bytes not yet received");
        }
        // scrubbed, but the memory itself is only given back at the end of the round: a release that comes too early
        // must show up as an ordering / data violation with a complete log, not as a crash inside MPI
        std::memset(p, 0xDD, n);
        bury(p);
        p = nullptr;
    }
};

static void complete(int id, int what)    // what: 0 value, 1 error, 2 stopped
{
    opinfo& o = (*g_ops)[id];
    e2::note("x.cont", nullptr, std::uint64_t(id), std::uint64_t(what));
    int n = o.completions.fetch_add(1);
    if (n != 0)
        monitor("double completion: operation " + std::to_string(id) + " signalled its receiver " +
            std::to_string(n + 1) + " times");
    if (what == 0) o.values.fetch_add(1);
    else o.errors.fetch_add(1);
    if (what == 2) monitor("operation " + std::to_string(id) + " completed with set_stopped");
    if (o.k == kind::recv && what == 0 && !o.owned)
    {
        // the received data must be completely visible to the continuation
        pairinfo& p = (*g_pairs)[o.pair];
        std::size_t bad = 0, first = 0;
        for (std::size_t i = 0; i < p.size; ++i)
            if (p.rbuf[i] != pat(p.tag, i))
            {
                if (bad == 0) first = i;
                ++bad;
            }
        if (bad != 0)
            monitor("completion before the transfer: receive " + std::to_string(id) + " (" +
                std::to_string(p.size) + " bytes) signalled with " + std::to_string(bad) +
                " bytes not yet received (first at " + std::to_string(first) + ")");
    }
    if (o.k == kind::recv && what != 0) monitor("receive " + std::to_string(id) + " completed with an error");
    if (o.k == kind::send && what != 0) monitor("send " + std::to_string(id) + " completed with an error");
    if ((o.k == kind::badrank || o.k == kind::thrower) && what != 1)
        monitor("failing operation " + std::to_string(id) + " did not complete with set_error");
    if (o.k != kind::send) g_permits->release();
    g_completed.fetch_add(1);
}

struct obs_receiver
{
    PIKA_STDEXEC_RECEIVER_CONCEPT
    int id;
    template <typename E>
    void set_error(E&&) && noexcept
    {
        complete(id, 1);
    }
    void set_stopped() && noexcept { complete(id, 2); }
    template <typename... Ts>
    void set_value(Ts&&...) && noexcept
    {
        complete(id, 0);
    }
    constexpr ex::empty_env get_env() const& noexcept { return {}; }
};

using os_type = ex::connect_result_t<ex::unique_any_sender<>, obs_receiver>;
static std::vector<os_type*> g_states;
static std::atomic<bool> g_states_lock{false};

static void launch(ex::unique_any_sender<>&& s, int id)
{
    auto* os = new os_type(ex::connect(std::move(s), obs_receiver{id}));
    while (g_states_lock.exchange(true)) {}
    g_states.push_back(os);
    g_states_lock.store(false);
    (*g_ops)[id].launched.store(true);
    g_launched.fetch_add(1);
    e2::note("x.launch", nullptr, std::uint64_t(id), std::uint64_t((*g_ops)[id].k));
    ex::start(*os);
}

static MPI_Comm g_comm = MPI_COMM_NULL;    // duplicate of MPI_COMM_WORLD with MPI_ERRORS_RETURN

static void launch_op(int id, rng& r)
{
    opinfo& o = (*g_ops)[id];
    pairinfo& p = (*g_pairs)[o.pair];
    ex::thread_pool_scheduler sched{};
    bool as_lambda = r.below(3) == 0;    // void-returning callable instead of the MPI function pointer
    if (o.owned && (o.k == kind::recv || o.k == kind::send))
    {
        // the MPI callable logs which owned argument it was given (`x.call`) right before the MPI call, so that the
        // driver can attach the argument to the operation whose `mpi.post` the same thread logs next
        if (o.k == kind::recv)
            launch(ex::transfer_just(sched, owned_buf(id, p.size, p.tag, true), int(p.size), MPI_BYTE, 0, p.tag, g_comm) |
                    mpi::transform_mpi([](owned_buf& b, int c, MPI_Datatype t, int src, int tag, MPI_Comm comm,
                                           MPI_Request* rq) {
                        e2::note("x.call", nullptr, std::uint64_t(b.id), 1);
                        MPI_Irecv(b.p, c, t, src, tag, comm, rq);
                    }),
                id);
        else
            launch(ex::transfer_just(sched, owned_buf(id, p.size, p.tag, false), int(p.size), MPI_BYTE, 0, p.tag, g_comm) |
                    mpi::transform_mpi([](owned_buf const& b, int c, MPI_Datatype t, int dst, int tag, MPI_Comm comm,
                                           MPI_Request* rq) {
                        e2::note("x.call", nullptr, std::uint64_t(b.id), 0);
                        MPI_Isend(b.p, c, t, dst, tag, comm, rq);
                    }),
                id);
        return;
    }
    switch (o.k)
    {
    case kind::recv:
        if (as_lambda)
            launch(ex::transfer_just(sched, static_cast<void*>(p.rbuf.data()), int(p.size), MPI_BYTE, 0, p.tag,
                       g_comm) |
                    mpi::transform_mpi([](void* b, int c, MPI_Datatype t, int src, int tag, MPI_Comm comm,
                                           MPI_Request* rq) { MPI_Irecv(b, c, t, src, tag, comm, rq); }),
                id);
        else
            launch(ex::transfer_just(sched, static_cast<void*>(p.rbuf.data()), int(p.size), MPI_BYTE, 0, p.tag,
                       g_comm) |
                    mpi::transform_mpi(MPI_Irecv),
                id);
        break;
    case kind::send:
        if (as_lambda)
            launch(ex::transfer_just(sched, static_cast<void const*>(p.sbuf.data()), int(p.size), MPI_BYTE, 0,
                       p.tag, g_comm) |
                    mpi::transform_mpi([](void const* b, int c, MPI_Datatype t, int dst, int tag, MPI_Comm comm,
                                           MPI_Request* rq) { MPI_Isend(b, c, t, dst, tag, comm, rq); }),
                id);
        else
            launch(ex::transfer_just(sched, static_cast<void const*>(p.sbuf.data()), int(p.size), MPI_BYTE, 0,
                       p.tag, g_comm) |
                    mpi::transform_mpi(MPI_Isend),
                id);
        break;
    case kind::badrank:
        launch(ex::transfer_just(sched, static_cast<void const*>(p.sbuf.data()), int(p.size), MPI_BYTE, 7, p.tag,
                   g_comm) |
                mpi::transform_mpi(MPI_Isend),
            id);
        break;
    case kind::trunc:
        // receives only half of what the matching send transmits
        launch(ex::transfer_just(sched, static_cast<void*>(p.rbuf.data()), int(p.size / 2), MPI_BYTE, 0, p.tag,
                   g_comm) |
                mpi::transform_mpi(MPI_Irecv),
            id);
        break;
    case kind::thrower:
        launch(ex::transfer_just(sched, 1) | mpi::transform_mpi([](int, MPI_Request*) -> int {
            throw std::runtime_error("callable throws before calling MPI");
        }),
            id);
        break;
    }
}

// ---------------------------------------------------------------------------------------------
struct config
{
    std::uint64_t seed;
    std::size_t mode;
    bool pool;
    int pairs, maxlog2, outstanding, pollsize, rounds;
    std::string variant;
};
static config g_cfg;

static void dump_and_exit(char const* status, bool locked)
{
    std::printf("%s\n", g_header.c_str());
    if (locked) e2::dump(stdout);
    else
    {
        // crash path: the log lock may be held by the crashing thread
        e2::g_enabled.store(false);
        std::size_t n = e2::g_log->size();
        for (std::size_t i = 0; i < n; ++i)
        {
            auto const& r = (*e2::g_log)[i];
            std::printf("%d %s %llu %llu %llu\n", r.os, r.site, (unsigned long long) (std::uintptr_t) r.obj,
                (unsigned long long) r.a, (unsigned long long) r.b);
        }
    }
    for (auto const& m : g_monitor) std::printf("monitor %s\n", m.c_str());
    std::printf("end %s\nendcase\n", status);
    std::fflush(stdout);
    _exit(0);
}

static void crash_handler(int sig)
{
    static std::atomic<bool> once{false};
    if (once.exchange(true)) _exit(0);
    g_monitor.push_back("the process died with signal " + std::to_string(sig) + " in phase " +
        std::to_string(g_phase.load()));
    dump_and_exit("crash", false);
}

static void check_all_complete(char const* when, int upto)
{
    for (int i = 0; i < upto; ++i)
    {
        opinfo& o = (*g_ops)[i];
        if (o.launched.load() && o.completions.load() != 1)
            monitor(std::string(when) + " with operation " + std::to_string(i) + " in flight (completions " +
                std::to_string(o.completions.load()) + ")");
    }
    std::size_t wc = mpi::get_work_count();
    if (wc != 0) monitor(std::string(when) + " with work count " + std::to_string(wc));
}

static int pika_main()
{
    rng r{g_cfg.seed * 7919 + 17};
    int next_op = 0;
    for (int round = 0; round < g_cfg.rounds; ++round)
    {
        int first_op = next_op;
        int first_pair = round * g_cfg.pairs;
        // build this round's pairs / operations
        std::vector<std::vector<int>> slices(2 + r.below(3));
        for (int q = 0; q < g_cfg.pairs; ++q)
        {
            int pi = first_pair + q;
            pairinfo& p = (*g_pairs)[pi];
            int lg = int(r.below(std::uint32_t(g_cfg.maxlog2 + 1)));
            // mostly small messages, a few large ones
            if (lg > 14 && r.below(4) != 0) lg = int(r.below(15));
            p.size = (std::size_t(1) << lg);
            if (lg > 0) p.size += r.below(std::uint32_t(std::min<std::size_t>(p.size, 1000)));
            p.tag = pi + 1;
            p.sbuf.resize(p.size);
            p.rbuf.assign(p.size, 0xEE);
            for (std::size_t i = 0; i < p.size; ++i) p.sbuf[i] = pat(p.tag, i);
            for (std::size_t i = 0; i < p.size; ++i)
                if (p.rbuf[i] == p.sbuf[i]) p.rbuf[i] = 0x11;
            kind k1 = kind::recv, k2 = kind::send;
            bool single = false;
            if (g_cfg.variant == "err")
            {
                std::uint32_t c = r.below(6);
                if (c == 0)
                {
                    k1 = kind::badrank;
                    single = true;
                }
                else if (c == 1 && p.size >= 2) { k1 = kind::trunc; }
            }
            else if (g_cfg.variant == "throw" && r.below(4) == 0)
            {
                k1 = kind::thrower;
                single = true;
            }
            int a = next_op++;
            (*g_ops)[a].k = k1;
            (*g_ops)[a].pair = pi;
            int b = -1;
            if (!single)
            {
                b = next_op++;
                (*g_ops)[b].k = k2;
                (*g_ops)[b].pair = pi;
            }
            // a third of the plain receives / sends own their buffer (passed by value through the chain)
            if (k1 == kind::recv) (*g_ops)[a].owned = r.below(3) == 0;
            if (b >= 0 && k1 != kind::trunc) (*g_ops)[b].owned = r.below(3) == 0;
            auto& sl = slices[r.below(std::uint32_t(slices.size()))];
            // the two operations of a pair are launched by the same submitter, in random order
            if (b >= 0 && r.below(2)) { sl.push_back(b); sl.push_back(a); }
            else
            {
                sl.push_back(a);
                if (b >= 0) sl.push_back(b);
            }
        }
        if (g_cfg.pollsize >= 0) mpi::detail::set_max_polling_size(std::size_t(g_cfg.pollsize));
        {
            g_phase.store(10 * round + 1);
            mpi::enable_polling ep(mpi::exception_mode::no_handler);
            g_phase.store(10 * round + 2);
            std::atomic<int> subs_done{0};
            int nsub = int(slices.size());
            auto& subs_latch = *new pika::latch(nsub + 1);    // leaked on purpose (no lifetime race at scope exit)
            for (int si = 0; si < nsub; ++si)
            {
                std::uint64_t ss = r.next();
                ex::start_detached(ex::schedule(ex::thread_pool_scheduler{}) | ex::then([&, si, ss] {
                    rng rr{ss};
                    auto const& sl = slices[si];
                    for (std::size_t i = 0; i < sl.size(); ++i)
                    {
                        int id = sl[i];
                        opinfo& o = (*g_ops)[id];
                        // one permit per pair, taken before the first operation of the pair is launched
                        // (the permit is returned by the completion of the pair's non-send operation)
                        bool first_of_pair = (i == 0) || ((*g_ops)[sl[i - 1]].pair != o.pair);
                        if (first_of_pair) g_permits->acquire();
                        launch_op(id, rr);
                        if (rr.below(4) == 0) pika::this_thread::yield();
                    }
                    subs_done.fetch_add(1);
                    subs_latch.count_down(1);
                }));
            }
            if (g_cfg.variant != "early") subs_latch.arrive_and_wait();
            g_phase.store(10 * round + 3);
            // pika::wait(): must not return while requests are in flight.  (With the `early` variant
            // the submitters are still running: they are tasks, so wait() covers them too.)
            pika::wait();
            e2::note("x.waited", nullptr, std::uint64_t(g_launched.load()), std::uint64_t(g_completed.load()));
            g_phase.store(10 * round + 4);
            if (subs_done.load() != nsub) monitor("pika::wait() returned while submitter tasks were still running");
            if (g_cfg.variant == "early") subs_latch.arrive_and_wait();
            check_all_complete("pika::wait() returned", next_op);
            g_phase.store(10 * round + 5);
        }    // stop_polling
        e2::note("x.stopped", nullptr, std::uint64_t(g_launched.load()), std::uint64_t(g_completed.load()));
        check_all_complete("stop_polling returned", next_op);
        (void) first_op;
        // release the operation states of this round (their addresses may be reused by the next round)
        for (auto* os : g_states) delete os;
        g_states.clear();
        for (auto* q : g_graveyard) delete[] q;
        g_graveyard.clear();
        for (int i = first_op; i < next_op; ++i)
        {
            opinfo& o = (*g_ops)[i];
            if (o.owned && o.launched.load() && o.released.load() != 1)
                monitor("the buffer owned by operation " + std::to_string(i) + " was released " + std::to_string(o.released.load()) +
                    " times by the end of the round");
        }
        g_phase.store(10 * round + 6);
    }
    g_phase.store(1000);
    pika::finalize();
    return 0;
}

static void rp_callback(pika::resource::partitioner& rp, pika::program_options::variables_map const&)
{
    mpi::detail::create_pool(rp, "", mpi::polling_pool_creation_mode::mode_force_create);
}

int main(int argc, char** argv)
{
    if (argc < 11) return 2;
    g_cfg.seed = std::strtoull(argv[1], nullptr, 10);
    std::uint32_t perturb = std::uint32_t(std::atoi(argv[2]));
    g_cfg.mode = std::size_t(std::atoi(argv[3]));
    g_cfg.pool = std::atoi(argv[4]) != 0;
    g_cfg.pairs = std::atoi(argv[5]);
    g_cfg.maxlog2 = std::atoi(argv[6]);
    g_cfg.outstanding = std::atoi(argv[7]);
    g_cfg.pollsize = std::atoi(argv[8]);
    g_cfg.variant = argv[9];
    g_cfg.rounds = std::atoi(argv[10]);
    g_header = "case e2 mode=" + std::to_string(g_cfg.mode) + " pool=" + std::to_string(g_cfg.pool ? 1 : 0) +
        " pairs=" + std::to_string(g_cfg.pairs) + " maxlog2=" + std::to_string(g_cfg.maxlog2) +
        " outstanding=" + std::to_string(g_cfg.outstanding) + " pollsize=" + std::to_string(g_cfg.pollsize) +
        " variant=" + g_cfg.variant + " rounds=" + std::to_string(g_cfg.rounds) + " seed=" +
        std::to_string(g_cfg.seed);

    int provided = 0;
    MPI_Init_thread(&argc, &argv, MPI_THREAD_MULTIPLE, &provided);
    if (provided != MPI_THREAD_MULTIPLE)
    {
        std::printf("%s\nmonitor MPI_THREAD_MULTIPLE not provided\nend crash\nendcase\n", g_header.c_str());
        return 0;
    }
    MPI_Comm_dup(MPI_COMM_WORLD, &g_comm);
    MPI_Comm_set_errhandler(g_comm, MPI_ERRORS_RETURN);
    MPI_Comm_set_errhandler(MPI_COMM_WORLD, MPI_ERRORS_RETURN);

    g_ops = new std::vector<opinfo>(std::size_t(2 * g_cfg.pairs * g_cfg.rounds + 4));
    g_pairs = new std::vector<pairinfo>(std::size_t(g_cfg.pairs * g_cfg.rounds + 2));
    g_permits = new pika::counting_semaphore<>(g_cfg.outstanding);
    e2::g_wanted = &mpi_wanted;
    e2::install(g_cfg.seed, perturb);
    std::signal(SIGSEGV, crash_handler);
    std::signal(SIGABRT, crash_handler);
    std::signal(SIGBUS, crash_handler);
    std::signal(SIGFPE, crash_handler);

    pika::init_params ip;
    ip.cfg.emplace_back("pika.mpi.completion_mode=" + std::to_string(g_cfg.mode));
    if (g_cfg.pool) ip.rp_callback = &rp_callback;
    std::vector<char const*> av{argv[0]};
    for (int i = 11; i < argc; ++i) av.push_back(argv[i]);
    pika::start(pika_main, int(av.size()), av.data(), ip);

    // hang detection from progress, not from elapsed time: nothing has been logged, launched or
    // completed for a very long series of polls while work is outstanding
    long quiet = 0;
    std::size_t last_log = 0;
    long last_c = -1, last_l = -1;
    int last_phase = -1;
    bool hang = false;
    while (g_phase.load() != 1000)
    {
        std::this_thread::sleep_for(std::chrono::milliseconds(5));
        std::size_t lg = e2::g_log->size();
        long c = g_completed.load(), l = g_launched.load();
        int ph = g_phase.load();
        if (lg == last_log && c == last_c && l == last_l && ph == last_phase)
        {
            if (++quiet >= 6000)
            {
                hang = true;
                break;
            }
        }
        else quiet = 0;
        last_log = lg;
        last_c = c;
        last_l = l;
        last_phase = ph;
        if (e2::g_overflow.load()) break;
    }
    if (hang || e2::g_overflow.load())
    {
        monitor(std::string(hang ? "no progress" : "log overflow") + " in phase " + std::to_string(g_phase.load()) +
            ": launched " + std::to_string(g_launched.load()) + " completed " + std::to_string(g_completed.load()) +
            " work count " + std::to_string(mpi::get_work_count()));
        dump_and_exit(hang ? "hang" : "livelock", true);
    }
    pika::stop();
    e2::g_enabled.store(false);
    long total = 0;
    for (auto const& o : *g_ops)
        if (o.launched.load())
        {
            ++total;
            if (o.completions.load() != 1)
                monitor("operation completed " + std::to_string(o.completions.load()) + " times at the end of the run");
        }
    std::printf("%s ops=%ld\n", g_header.c_str(), total);
    e2::dump(stdout);
    for (auto const& m : g_monitor) std::printf("monitor %s\n", m.c_str());
    std::printf("end ok\nendcase\n");
    std::fflush(stdout);
    MPI_Comm_free(&g_comm);
    MPI_Finalize();
    return 0;
}
