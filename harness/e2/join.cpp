// E2 harness for C13: pika::thread / pika::jthread join, detach, exit callbacks, interruption.
// usage: e2_join <seed> <perturb_per_1024> <prog> <size> [pika options...]
//   prog: mixed | basic | usercb | twojoin | interrupt | jthread | nested | errors | moves | jtmove | movejoin |
//         handles | jtswap | mixed2 | dtorterm (negative) | joinintr (directed, finding) | joinpend (directed, one worker) | yieldintr (finding)
// The real runtime runs generated scenarios; every instrumented operation (hooks `jn.* jt.* ec.*
// ip.*` in thread.cpp / thread.hpp / jthread.hpp / thread_data.{hpp,cpp}) is appended to the exact
// E2 log.  Prints: log lines, `monitor <text>` lines (violations seen from observables only), `stat`
// lines, then `end ok|hang`.
#include "../e2_log.hpp"

#include <pika/execution.hpp>
#include <pika/init.hpp>
#include <pika/modules/thread_manager.hpp>
#include <pika/runtime/runtime.hpp>
#include <pika/semaphore.hpp>
#include <pika/stop_token.hpp>
#include <pika/condition_variable.hpp>
#include <pika/mutex.hpp>
#include <pika/thread.hpp>
#include <pika/threading/jthread.hpp>
#include <pika/threading_base/thread_helpers.hpp>

#include <atomic>
#include <chrono>
#include <cstdlib>
#include <map>
#include <memory>
#include <mutex>
#include <string>
#include <thread>
#include <vector>

namespace e2 = verif::e2;
namespace ptd = pika::threads::detail;

struct rng
{
    std::uint64_t s;
    std::uint64_t next()
    {
        std::uint64_t z = (s += 0x9e3779b97f4a7c15ull);
        z = (z ^ (z >> 30)) * 0xbf58476d1ce4e5b9ull;
        z = (z ^ (z >> 27)) * 0x94d049bb133111ebull;
        return z ^ (z >> 31);
    }
    std::uint32_t below(std::uint32_t n) { return n ? std::uint32_t(next() % n) : 0; }
};

static std::atomic<long> g_total{0}, g_done{0};    // logical activities started / finished
static std::vector<std::string> g_monitor;
static std::map<std::string, long> g_stat;
static std::atomic<bool> g_mon_lock{false};
static void monitor(std::string s)
{
    while (g_mon_lock.exchange(true)) {}
    if (g_monitor.size() < 20) g_monitor.push_back(std::move(s));
    g_mon_lock.store(false);
}
static void stat(char const* k, long n = 1)
{
    while (g_mon_lock.exchange(true)) {}
    g_stat[k] += n;
    g_mon_lock.store(false);
}

static bool want(char const* s)
{
    switch (s[0])
    {
    case 'j': return s[1] == 'n' || s[1] == 't';    // jn.* jt.*
    case 'e': return s[1] == 'c';                    // ec.*
    case 'i': return s[1] == 'p';                    // ip.*
    case 't': return s[1] == 'a' && (s[5] == 'n' || s[5] == 'r');    // task.new task.rebind
    case 's': return std::strcmp(s, "sw.restore1") == 0;
    case 'x': return true;
    default: return false;
    }
}

struct activity    // counts one logical activity for hang detection
{
    activity() { g_total.fetch_add(1); }
    ~activity() { g_done.fetch_add(1); }
};

static void* self_obj() { return ptd::get_thread_id_data(ptd::get_self_id()); }
static void yields(int n)
{
    for (int i = 0; i < n; ++i) pika::this_thread::yield();
}
// a yield that is allowed to deliver an interruption: `this_thread::yield()` is declared noexcept although
// the suspension inside it is an interruption point (a delivered interruption would call std::terminate;
// prog `yieldintr` demonstrates that), so interruptible bodies suspend through the throwing interface
static bool g_noexcept_yield = false;
static void iyield()
{
    if (g_noexcept_yield) pika::this_thread::yield();
    else pika::this_thread::suspend(ptd::thread_schedule_state::pending, "e2_join iyield");
}

// ------------------------------------------------------------------------------------------------
// thread bodies
enum body_kind { b_immediate = 0, b_yielding, b_long, b_blocking, b_spawning, b_kinds };

struct target_state
{
    std::atomic<int> started{0};
    std::atomic<int> finished{0};
    std::atomic<int> interrupted_seen{0};
    pika::counting_semaphore<> sem{0};
};

static void run_body(int kind, std::uint64_t seed, std::shared_ptr<target_state> st, int depth);

static std::function<void()> make_body(int kind, std::uint64_t seed, std::shared_ptr<target_state> st, int depth = 0)
{
    return [=] {
        activity a;
        st->started.store(1);
        run_body(kind, seed, st, depth);
        st->finished.store(1);
    };
}

// join `t` from the calling task and check the observable contract of join
static void checked_join(pika::thread& t, std::shared_ptr<target_state> st, char const* who)
{
    bool threw = false;
    try { t.join(); }
    catch (pika::exception const&) { threw = true; }
    if (threw)
    {
        monitor(std::string(who) + ": join of a joinable thread threw");
        return;
    }
    if (st->finished.load() != 1) monitor(std::string(who) + ": join returned before the thread function finished");
    if (t.joinable()) monitor(std::string(who) + ": handle still joinable after join");
}

static void run_body(int kind, std::uint64_t seed, std::shared_ptr<target_state> st, int depth)
{
    rng r{seed};
    switch (kind)
    {
    case b_immediate: break;
    case b_yielding: yields(1 + int(r.below(4))); break;
    case b_long:
    {
        int n = 20 + int(r.below(60));
        for (int i = 0; i < n; ++i)
        {
            for (int k = 0; k < 50; ++k) __builtin_ia32_pause();
            if ((i & 7) == 7) pika::this_thread::yield();
        }
        break;
    }
    case b_blocking:
    {
        // blocks until a helper task releases it
        auto sem = std::shared_ptr<pika::counting_semaphore<>>(st, &st->sem);
        int d = int(r.below(4));
        pika::thread helper([sem, d] {
            activity a;
            yields(d);
            sem->release();
        });
        helper.detach();
        st->sem.acquire();
        break;
    }
    case b_spawning:
    {
        int n = 1 + int(r.below(depth == 0 ? 3 : 2));
        std::vector<std::unique_ptr<pika::thread>> kids;
        std::vector<std::shared_ptr<target_state>> ks;
        for (int i = 0; i < n; ++i)
        {
            auto cs = std::make_shared<target_state>();
            int ck = int(r.below(depth >= 1 ? b_spawning : b_kinds));
            ks.push_back(cs);
            kids.push_back(std::make_unique<pika::thread>(make_body(ck, r.next(), cs, depth + 1)));
        }
        for (int i = 0; i < n; ++i)
        {
            if (r.below(4) == 0) kids[i]->detach();
            else checked_join(*kids[i], ks[i], "nested");
        }
        break;
    }
    }
}

// ------------------------------------------------------------------------------------------------
// scenarios (each runs inside a pika task)

// T with body kind; joiner on another task after a random delay; afterwards the misuse checks
static void sc_basic(std::uint64_t seed)
{
    rng r{seed};
    auto st = std::make_shared<target_state>();
    auto t = std::make_shared<pika::thread>(make_body(int(r.below(b_kinds)), r.next(), st));
    int d = int(r.below(5));
    bool other = r.below(3) != 0;
    auto joiner = [=] {
        activity a;
        yields(d);
        checked_join(*t, st, "basic");
        // joining twice is an error
        bool threw = false;
        try { t->join(); }
        catch (pika::exception const& e) { threw = e.get_error() == pika::error::invalid_status; }
        if (!threw) monitor("basic: second join did not report invalid_status");
    };
    if (other)
    {
        pika::thread j(joiner);
        j.join();
    }
    else joiner();
}

// detach: not joinable afterwards; join is an error
static void sc_detach(std::uint64_t seed)
{
    rng r{seed};
    auto st = std::make_shared<target_state>();
    pika::thread t(make_body(int(r.below(b_spawning)), r.next(), st));
    yields(int(r.below(3)));
    if (!t.joinable()) monitor("detach: fresh thread not joinable");
    t.detach();
    if (t.joinable()) monitor("detach: joinable after detach");
    bool threw = false;
    try { t.join(); }
    catch (pika::exception const& e) { threw = e.get_error() == pika::error::invalid_status; }
    if (!threw) monitor("detach: join after detach did not report invalid_status");
}

// a thread joining itself
static void sc_selfjoin(std::uint64_t seed)
{
    rng r{seed};
    struct sh
    {
        std::atomic<pika::thread*> h{nullptr};
        std::atomic<int> result{0};
    };
    auto s = std::make_shared<sh>();
    auto st = std::make_shared<target_state>();
    int d = int(r.below(3));
    pika::thread t([=] {
        activity a;
        while (s->h.load() == nullptr) pika::this_thread::yield();
        yields(d);
        try
        {
            s->h.load()->join();
            s->result.store(1);
        }
        catch (pika::exception const& e)
        {
            s->result.store(e.get_error() == pika::error::thread_resource_error ? 2 : 3);
        }
        st->finished.store(1);
    });
    s->h.store(&t);
    checked_join(t, st, "selfjoin");
    if (s->result.load() != 2) monitor("selfjoin: joining oneself gave result " + std::to_string(s->result.load()) + " (expected thread_resource_error)");
}

// user exit callbacks (public API add_thread_exit_callback) racing with the exit of the target and
// with a joiner
struct cb_state
{
    std::atomic<int> accepted{0};
    std::atomic<int> runs{0};
};
static std::atomic<std::uint64_t> g_cbid{1};
// all user callbacks of the run; their run counts are checked when the whole run has finished (every
// target has terminated by then), not by polling the target
static std::mutex g_cbs_mtx;
static std::vector<std::shared_ptr<std::vector<cb_state>>> g_cbs;
// register a user exit callback on the task `keep` refers to; the notes tell the model which callback
// (k) is being registered / run
static bool add_user_cb(ptd::thread_id_ref_type const& keep, int linger, std::atomic<int>* runs)
{
    std::uint64_t k = g_cbid.fetch_add(1);
    void* tgt = ptd::get_thread_id_data(keep.noref());
    e2::note("x.uadd", tgt, reinterpret_cast<std::uint64_t>(self_obj()), k);
    return ptd::add_thread_exit_callback(keep.noref(), [=] {
        e2::note("x.cb", tgt, reinterpret_cast<std::uint64_t>(self_obj()), k);
        if (runs) runs->fetch_add(1);
        for (int q = 0; q < linger * 200; ++q) __builtin_ia32_pause();
    });
}
static void sc_usercb(std::uint64_t seed)
{
    rng r{seed};
    auto st = std::make_shared<target_state>();
    int ncb = 1 + int(r.below(3));
    auto cbs = std::make_shared<std::vector<cb_state>>(ncb);
    int kind = int(r.below(b_blocking));
    auto t = std::make_shared<pika::thread>(make_body(kind, r.next(), st));
    ptd::thread_id_ref_type keep(t->native_handle());    // keeps the thread object alive for the adders
    std::vector<std::unique_ptr<pika::thread>> adders;    // (no moves of thread objects: not modelled)
    for (int i = 0; i < ncb; ++i)
    {
        int d = int(r.below(4));
        int linger = int(r.below(3));
        adders.push_back(std::make_unique<pika::thread>([=] {
            activity a;
            yields(d);
            if (add_user_cb(keep, linger, &(*cbs)[i].runs)) (*cbs)[i].accepted.store(1);
        }));
    }
    int jd = int(r.below(4));
    pika::thread j([=] {
        activity a;
        yields(jd);
        checked_join(*t, st, "usercb");
    });
    for (auto& a : adders) a->join();
    j.join();
    std::lock_guard<std::mutex> lk(g_cbs_mtx);
    g_cbs.push_back(cbs);
}

// two tasks join the same handle concurrently
static void sc_twojoin(std::uint64_t seed)
{
    rng r{seed};
    auto st = std::make_shared<target_state>();
    auto t = std::make_shared<pika::thread>(make_body(int(r.below(b_blocking)), r.next(), st));
    auto ok = std::make_shared<std::atomic<int>>(0);
    std::vector<std::unique_ptr<pika::thread>> js;
    for (int i = 0; i < 2; ++i)
    {
        int d = int(r.below(4));
        js.push_back(std::make_unique<pika::thread>([=] {
            activity a;
            yields(d);
            try
            {
                t->join();
                ok->fetch_add(1);
                if (st->finished.load() != 1) monitor("twojoin: join returned before the thread function finished");
            }
            catch (pika::exception const& e)
            {
                if (e.get_error() != pika::error::invalid_status) monitor("twojoin: unexpected error from join");
            }
        }));
    }
    for (auto& j : js) j->join();
    if (ok->load() < 1) monitor("twojoin: no joiner succeeded");
    if (t->joinable()) monitor("twojoin: handle joinable after join");
    stat("twojoin_both", ok->load() == 2 ? 1 : 0);
}

// interruption: delivered only at interruption points, only while enabled, only to the target
static void sc_interrupt(std::uint64_t seed)
{
    rng r{seed};
    struct sh
    {
        std::atomic<int> requested{0};     // set by the interrupter before it calls interrupt()
        std::atomic<int> in_disabled{0};   // the body is inside a disable_interruption scope
        std::atomic<int> at_point{0};      // the body is inside a call that is an interruption point
        std::atomic<int> caught{0};
        std::atomic<int> give_up{0};
        std::atomic<int> bystander_ok{0};
    };
    auto s = std::make_shared<sh>();
    auto st = std::make_shared<target_state>();
    int phases = 2 + int(r.below(4));
    std::uint64_t bs = r.next();
    auto t = std::make_shared<pika::thread>([=] {
        activity a;
        rng br{bs};
        try
        {
            for (int p = 0; p < phases && !s->give_up.load(); ++p)
            {
                bool dis = br.below(3) == 0;
                int n = 1 + int(br.below(3));
                if (dis)
                {
                    pika::this_thread::disable_interruption di;
                    s->in_disabled.store(1);
                    for (int i = 0; i < n; ++i)
                    {
                        s->at_point.store(1);
                        if (br.below(2)) iyield();
                        else pika::this_thread::interruption_point();
                        s->at_point.store(0);
                    }
                    s->in_disabled.store(0);
                }
                else
                {
                    for (int i = 0; i < n; ++i)
                    {
                        for (int k = 0; k < 30; ++k) __builtin_ia32_pause();    // not an interruption point
                        s->at_point.store(1);
                        if (br.below(2)) iyield();
                        else pika::this_thread::interruption_point();
                        s->at_point.store(0);
                    }
                }
            }
            // wait to be interrupted or released (bounded: a task that keeps yielding is re-queued with
            // boosted priority and can starve the interrupter on a scheduler without stealing)
            for (int w = 0; w < 1500 && !s->give_up.load(); ++w)
            {
                s->at_point.store(1);
                iyield();
                s->at_point.store(0);
            }
        }
        catch (pika::thread_interrupted const&)
        {
            s->caught.store(1);
            if (s->in_disabled.load()) monitor("interrupt: delivered while interruption was disabled");
            if (!s->at_point.load()) monitor("interrupt: delivered outside an interruption point");
            if (!s->requested.load()) monitor("interrupt: delivered without a request");
            st->finished.store(1);
            throw;
        }
        st->finished.store(1);
    });
    // a bystander thread that must not be affected
    auto bst = std::make_shared<target_state>();
    pika::thread by([=] {
        activity a;
        try
        {
            yields(3);
            pika::this_thread::interruption_point();
            s->bystander_ok.store(1);
        }
        catch (...) { monitor("interrupt: a bystander thread was interrupted"); }
        bst->finished.store(1);
    });
    int d = int(r.below(6));
    int tries = 1 + int(r.below(3));
    pika::thread intr([=] {
        activity a;
        yields(d);
        for (int i = 0; i < tries; ++i)
        {
            s->requested.store(1);
            try { t->interrupt(); stat("interrupt_requested"); }
            catch (pika::exception const& e)
            {
                if (e.get_error() != pika::error::thread_not_interruptable) monitor("interrupt: unexpected error from interrupt()");
                else stat("interrupt_refused");
            }
            yields(2);
        }
        yields(4);
        s->give_up.store(1);
    });
    intr.join();
    checked_join(*t, st, "interrupt");
    checked_join(by, bst, "interrupt-bystander");
    if (!s->bystander_ok.load()) monitor("interrupt: bystander did not complete normally");
    stat("interrupt_delivered", s->caught.load());
}

// jthread: destructor requests stop and joins
static void sc_jthread(std::uint64_t seed)
{
    rng r{seed};
    auto st = std::make_shared<target_state>();
    auto saw_stop = std::make_shared<std::atomic<int>>(0);
    int d = int(r.below(5));
    int mode = int(r.below(4));
    int limit = 5 + int(r.below(20));
    {
        pika::jthread jt([=](pika::stop_token tok) {
            activity a;
            if (mode == 0) { /* returns immediately */ }
            else if (mode == 1)
            {
                // runs until asked to stop
                // (bounded for the same starvation reason as in sc_interrupt)
                int w = 0;
                while (!tok.stop_requested() && ++w < 3000) pika::this_thread::yield();
                saw_stop->store(tok.stop_requested() ? 1 : 2);
            }
            else
            {
                for (int i = 0; i < limit && !tok.stop_requested(); ++i) pika::this_thread::yield();
                if (tok.stop_requested()) saw_stop->store(1);
            }
            st->finished.store(1);
        });
        yields(d);
        if (mode == 3 && r.below(2))
        {
            jt.join();
            if (st->finished.load() != 1) monitor("jthread: join returned before the thread function finished");
        }
    }    // ~jthread
    if (st->finished.load() != 1) monitor("jthread: destructor returned before the thread function finished");
    if (mode == 1 && !saw_stop->load()) monitor("jthread: body never saw the stop request");
}


// ------------------------------------------------------------------------------------------------
// follow-up C13m: handle operations (move construction / assignment, swap, containers of handles,
// destruction) and jthread moves
static void expect_invalid_status_join(pika::thread& t, char const* who)
{
    bool threw = false;
    try { t.join(); }
    catch (pika::exception const& e) { threw = e.get_error() == pika::error::invalid_status; }
    if (!threw) monitor(std::string(who) + ": join of a handle that is not joinable did not report invalid_status");
}

static void sc_moves(std::uint64_t seed)
{
    rng r{seed};
    auto st = std::make_shared<target_state>();
    pika::thread t(make_body(int(r.below(b_spawning)), r.next(), st));
    yields(int(r.below(3)));
    pika::thread t2(std::move(t));    // move construction
    if (t.joinable()) monitor("moves: moved-from handle still joinable");
    if (!t2.joinable()) monitor("moves: moved-to handle not joinable");
    if (r.below(2)) expect_invalid_status_join(t, "moves(moved-from)");
    pika::thread t3;
    switch (r.below(5))
    {
    case 0: t3 = std::move(t2); break;    // move assignment into an empty handle
    case 1: t3.swap(t2); break;
    case 2: swap(t2, t3); break;
    case 3:
    {
        // a container of handles: growth moves every element (move construction + destruction)
        std::vector<pika::thread> v;
        v.push_back(std::move(t2));
        for (int i = 0, n = 1 + int(r.below(4)); i < n; ++i) v.emplace_back();
        v.shrink_to_fit();
        if (!v[0].joinable()) monitor("moves: handle lost its thread inside a vector");
        t3 = std::move(v[0]);
        break;
    }
    default:
    {
        // there and back again
        t3 = std::move(t2);
        t2.swap(t3);
        pika::thread t4(std::move(t2));
        t3 = std::move(t4);
        break;
    }
    }
    if (t2.joinable()) monitor("moves: source handle still joinable after the transfer");
    if (!t3.joinable()) monitor("moves: destination handle not joinable after the transfer");
    yields(int(r.below(3)));
    if (r.below(4) == 0)
    {
        t3.detach();
        if (t3.joinable()) monitor("moves: joinable after detach");
        expect_invalid_status_join(t3, "moves(detached)");
    }
    else
    {
        checked_join(t3, st, "moves");
        expect_invalid_status_join(t3, "moves(joined)");
    }
    if (r.below(2))
    {
        // a joined handle can be bound to a new thread by move assignment from a temporary
        auto st2 = std::make_shared<target_state>();
        t3 = pika::thread(make_body(int(r.below(b_blocking)), r.next(), st2));
        if (!t3.joinable()) monitor("moves: re-bound handle not joinable");
        checked_join(t3, st2, "moves(rebound)");
    }
    stat("moves");
}

// jthread moves: the stop source travels with the thread; only the owning jthread's destructor stops and joins
static void sc_jtmove(std::uint64_t seed)
{
    rng r{seed};
    auto st = std::make_shared<target_state>();
    auto saw = std::make_shared<std::atomic<int>>(0);
    int mode = int(r.below(4));
    int d = int(r.below(4));
    {
        pika::jthread a([=](pika::stop_token tok) {
            activity act;
            int w = 0;
            while (!tok.stop_requested() && ++w < 3000) pika::this_thread::yield();
            saw->store(tok.stop_requested() ? 1 : 2);
            st->finished.store(1);
        });
        yields(d);
        pika::jthread b(std::move(a));
        if (a.joinable()) monitor("jtmove: moved-from jthread still joinable");
        if (!b.joinable()) monitor("jtmove: moved-to jthread not joinable");
        if (mode == 1)
        {
            pika::jthread c;
            c = std::move(b);    // into a jthread that is not joinable
            if (b.joinable() || !c.joinable()) monitor("jtmove: move assignment did not transfer the thread");
        }    // ~c stops and joins
        else if (mode == 2)
        {
            pika::jthread c;
            c.swap(b);
            if (b.joinable() || !c.joinable()) monitor("jtmove: swap did not exchange the threads");
        }
        else if (mode == 3)
        {
            std::vector<pika::jthread> v;
            v.push_back(std::move(b));
            v.emplace_back();
            v.shrink_to_fit();
        }
        if (mode != 0 && st->finished.load() != 1) monitor("jtmove: destructor of the owning jthread returned before the thread function finished");
    }    // mode 0: ~b stops and joins; ~a has nothing to do
    if (st->finished.load() != 1) monitor("jtmove: destructors returned before the thread function finished");
    if (saw->load() == 0) monitor("jtmove: body did not finish");
    stat("jtmove");
}

// two RUNNING jthreads are swapped, then one handle is destroyed while the other lives: the destructor must stop and join the
// thread the handle represents NOW, and leave the partner's thread alone (the bodies block in a stop-token wait; a destructor
// that stops the wrong thread leaves the joined one blocked: the state-based hang verdict of this harness reports it)
static void sc_jtswap(std::uint64_t seed)
{
    rng r{seed};
    struct side
    {
        std::atomic<int> saw{0};       // 1 = saw stop_requested, 2 = gave up
        std::atomic<int> finished{0};
        std::atomic<int> started{0};
    };
    auto A = std::make_shared<side>();
    auto B = std::make_shared<side>();
    // the parent BLOCKS until both bodies have started (polling `started` with yield() made the size of the log - every yield is an
    // interruption test - depend on how quickly the OS ran the other workers: a clean-tree `livelock` verdict on a loaded machine)
    auto up = std::make_shared<pika::counting_semaphore<>>(0);
    auto body = [up](std::shared_ptr<side> s) {
        return [s, up](pika::stop_token tok) {
            activity act;
            s->started.store(1);
            up->release();
            // block (no polling: every yield is an interruption point and would flood the log) until stop is requested
            pika::mutex m;
            pika::condition_variable_any cv;
            std::unique_lock<pika::mutex> lk(m);
            cv.wait(lk, tok, [] { return false; });
            s->saw.store(tok.stop_requested() ? 1 : 2);
            s->finished.store(1);
        };
    };
    int how = int(r.below(3));
    {
        pika::jthread b(body(B));
        {
            pika::jthread a(body(A));
            up->acquire();
            up->acquire();
            yields(int(r.below(3)));
            if (how == 0) a.swap(b);
            else if (how == 1)
            {
                using std::swap;
                swap(a, b);
            }
            else
            {
                // swap-and-pop idiom on a container of handles
                std::vector<pika::jthread> v;
                v.push_back(std::move(a));
                v.push_back(std::move(b));
                using std::swap;
                swap(v[0], v[1]);
                a = std::move(v[0]);
                b = std::move(v[1]);
            }
            // a now represents B's thread, b represents A's thread
        }    // ~a: must stop and join B's thread only
        if (B->finished.load() != 1) monitor("jtswap: destructor of a swapped jthread returned before the thread it represents finished");
        if (A->saw.load() == 1) monitor("jtswap: destroying a swapped jthread requested stop on its partner's thread");
    }    // ~b: stops and joins A's thread
    if (A->finished.load() != 1) monitor("jtswap: destructor of the second jthread returned before its thread finished");
    stat("jtswap");
}

// a handle is moved away by another task while a joiner is (possibly) suspended in join on it
static void sc_movejoin(std::uint64_t seed)
{
    rng r{seed};
    auto st = std::make_shared<target_state>();
    auto t = std::make_shared<pika::thread>(make_body(int(r.below(b_spawning)), r.next(), st));
    auto t2 = std::make_shared<pika::thread>();
    int d1 = int(r.below(4)), d2 = int(r.below(5));
    pika::thread J([=] {
        activity a;
        yields(d1);
        try
        {
            t->join();
            if (st->finished.load() != 1) monitor("movejoin: join returned before the thread function finished");
            stat("movejoin_joined");
        }
        catch (pika::exception const& e)
        {
            if (e.get_error() != pika::error::invalid_status) monitor("movejoin: unexpected error from join");
            stat("movejoin_moved_first");
        }
    });
    pika::thread M([=] {
        activity a;
        yields(d2);
        *t2 = std::move(*t);
    });
    J.join();
    M.join();
    if (t->joinable()) monitor("movejoin: moved-from handle joinable");
    if (t2->joinable()) checked_join(*t2, st, "movejoin(second)");
}

// NEGATIVE program (not part of the default set): destroys a joinable pika::thread with a termination handler
// installed -> the error event `jn.dtorterm` must be reported by the driver
static void sc_dtorterm(std::uint64_t seed)
{
    rng r{seed};
    pika::set_thread_termination_handler([](std::exception_ptr const&) { stat("termination_handler"); });
    auto st = std::make_shared<target_state>();
    {
        pika::thread t(make_body(int(r.below(b_blocking)), r.next(), st));
        yields(int(r.below(3)));
    }    // ~thread of a joinable handle
    yields(8);
}

// DIRECTED program for the finding `interrupted-join-stale-callback` (not part of the default set):
// J joins o1, is interrupted while suspended inside join, catches thread_interrupted and joins o2; then o1
// exits: its exit callback for J is still registered and resumes J, whose join(o2) returns although o2 runs
static void sc_joinintr(std::uint64_t)
{
    struct sh
    {
        pika::counting_semaphore<> sem1{0}, sem2{0};
        std::atomic<int> stage{0}, fin1{0}, fin2{0}, early{0}, intr{0};
    };
    auto s = std::make_shared<sh>();
    auto o1 = std::make_shared<pika::thread>([=] { activity a; s->sem1.acquire(); s->fin1.store(1); });
    auto o2 = std::make_shared<pika::thread>([=] { activity a; s->sem2.acquire(); s->fin2.store(1); });
    pika::thread J([=] {
        activity a;
        try
        {
            s->stage.store(1);
            o1->join();
        }
        catch (pika::thread_interrupted const&)
        {
            s->intr.store(1);
        }
        catch (pika::exception const& e)
        {
            // the interruption of a task suspended in join must surface as thread_interrupted (interruption ends the
            // thread quietly), not as an error of the blocking call
            s->intr.store(2);
            monitor(std::string("joinintr: a join interrupted while suspended threw pika::exception instead of thread_interrupted: ") +
                std::to_string(int(e.get_error())));
        }
        s->stage.store(2);
        try
        {
            o2->join();
            if (s->fin2.load() != 1)
            {
                s->early.store(1);
                monitor("joinintr: join returned before the thread function finished (exit callback left behind by an interrupted join)");
            }
        }
        catch (pika::exception const&) { monitor("joinintr: second join threw"); }
        s->stage.store(3);
    });
    // (OS-level sleeps, not yields - pika has no timed suspension here: a yielding task is re-queued with boosted priority and would starve J; no
    // verdict depends on these durations - they only make the window likely)
    auto nap = [](int ms) { std::this_thread::sleep_for(std::chrono::milliseconds(ms)); };    // blocks this worker; needs >= 2 workers
    for (int i = 0; i < 400 && s->stage.load() < 1; ++i) nap(1);
    nap(5);
    J.interrupt();
    for (int i = 0; i < 400 && s->stage.load() < 2; ++i) nap(1);
    nap(5);
    if (s->intr.load() && !o1->joinable()) monitor("joinintr: handle not joinable after an interrupted join");
    s->sem1.release();    // o1 exits and runs its exit callbacks
    for (int i = 0; i < 50 && s->stage.load() < 3; ++i) nap(1);
    s->sem2.release();
    J.join();
    if (o1->joinable()) o1->join();
    if (o2->joinable()) o2->join();
    stat("joinintr_interrupted", s->intr.load());
    stat("joinintr_early_return", s->early.load());
}

// directed (one worker): an interruption request that is already PENDING when join() is entered.  J is interrupted before it
// has run (the creating task has not yielded yet), its first join throws thread_interrupted at the interruption point at the
// entry of join - nothing may be left registered on the target - J handles it and joins a second thread; the first target
// then exits.  J's second join must not return before its own target has finished.
static void sc_joinpend(std::uint64_t)
{
    struct sh
    {
        pika::counting_semaphore<> sem1{0}, sem2{0}, reached2{0};
        std::atomic<int> stage{0}, fin1{0}, fin2{0}, intr{0};
    };
    auto s = std::make_shared<sh>();
    auto o1 = std::make_shared<pika::thread>([=] { activity a; s->sem1.acquire(); s->fin1.store(1); });
    auto o2 = std::make_shared<pika::thread>([=] { activity a; s->sem2.acquire(); s->fin2.store(1); });
    pika::thread J([=] {
        activity a;
        try
        {
            s->stage.store(1);
            o1->join();
            monitor("joinpend: join returned although an interruption was pending when it was entered and its target still runs");
        }
        catch (pika::thread_interrupted const&) { s->intr.store(1); }
        catch (pika::exception const& e)
        {
            s->intr.store(2);
            monitor(std::string("joinpend: a join entered with a pending interruption threw pika::exception instead of thread_interrupted: ") +
                std::to_string(int(e.get_error())));
        }
        s->stage.store(2);
        s->reached2.release();
        try
        {
            o2->join();
            if (s->fin2.load() != 1)
                monitor("joinpend: join returned before the thread function finished (the interruption was pending when the earlier join was "
                        "entered: that join must not leave anything registered on its target)");
        }
        catch (pika::exception const&) { monitor("joinpend: second join threw"); }
        s->stage.store(3);
    });
    J.interrupt();            // J has not run yet on a one-worker runtime
    s->reached2.acquire();    // J handled the interruption and is on its way into the second join
    yields(3);                // (one worker: J runs until it blocks in o2->join())
    s->sem1.release();
    if (o1->joinable()) o1->join();    // o1 exits and processes its exit callbacks
    yields(4);                         // a wrongly resumed J would run now
    s->sem2.release();
    J.join();
    if (o2->joinable()) o2->join();
    stat("joinpend_interrupted", s->intr.load());
}

// directed: an interruption request aimed at a thread whose function has ALREADY finished (terminated, handle still joinable)
// must die with that incarnation.  The thread object is recycled afterwards: a batch of unrelated threads of the same stack
// class passes an interruption point each; none of them was interrupted by anybody (the driver's monitor "delivered without a
// request" looks at the ip.* lines; the harness also reports a thread_interrupted that nobody asked for).
static void sc_staleintr(std::uint64_t seed)
{
    rng r{seed};
    auto hit = std::make_shared<std::atomic<int>>(0);
    int victims = 6 + int(r.below(4));
    for (int v = 0; v < victims; ++v)
    {
        auto fin = std::make_shared<pika::counting_semaphore<>>(0);
        pika::thread t([=] { activity a; fin->release(); });
        fin->acquire();    // (blocking: no polling for the start of the thread)
        // the function has returned; usually the exit processing is over too a few yields later (state `terminated`) - bounded
        for (int i = 0; i < 200; ++i)
        {
            if (ptd::get_thread_state(t.native_handle()).state() == ptd::thread_schedule_state::terminated) break;
            pika::this_thread::yield();
        }
        t.interrupt();
        t.join();
    }
    // terminated objects are recycled lazily (clean-up of the terminated list): several batches, so that the objects of the
    // victims come round
    int n = 0;
    for (int batch = 0; batch < 4; ++batch)
    {
        int m = 16 + int(r.below(9));
        n += m;
        std::vector<pika::thread> later;
        for (int i = 0; i < m; ++i)
            later.emplace_back([=] {
                activity a;
                try
                {
                    pika::this_thread::interruption_point();
                    iyield();
                    pika::this_thread::interruption_point();
                }
                catch (pika::thread_interrupted const&)
                {
                    hit->fetch_add(1);
                }
            });
        for (auto& t : later) t.join();
    }
    if (hit->load() != 0)
        monitor("staleintr: " + std::to_string(hit->load()) + " thread(s) nobody interrupted received thread_interrupted (a request aimed at a "
                "finished thread survived the recycling of its thread object)");
    stat("staleintr_threads", n);
}

static void scenario(std::string const& prog, std::uint64_t seed)
{
    rng r{seed};
    int k;
    if (prog == "basic") k = int(r.below(2)) == 0 ? 0 : 0;
    else if (prog == "usercb") k = 3;
    else if (prog == "twojoin") k = 4;
    else if (prog == "interrupt" || prog == "yieldintr") k = 5;
    else if (prog == "jthread") k = 6;
    else if (prog == "errors") k = 1 + int(r.below(2));
    else if (prog == "moves") k = 7;
    else if (prog == "jtmove") k = 8;
    else if (prog == "movejoin") k = 9;
    else if (prog == "jtswap") k = 12;
    else if (prog == "handles") { k = 7 + int(r.below(4)); if (k == 10) k = 12; }
    else if (prog == "mixed2") k = int(r.below(10));
    else if (prog == "dtorterm") k = 10;
    else if (prog == "joinintr") k = 11;
    else if (prog == "joinpend") k = 13;
    else if (prog == "staleintr") k = 14;
    else k = int(r.below(7));
    std::uint64_t s = r.next();
    switch (k)
    {
    case 0: sc_basic(s); break;
    case 1: sc_detach(s); break;
    case 2: sc_selfjoin(s); break;
    case 3: sc_usercb(s); break;
    case 4: sc_twojoin(s); break;
    case 5: sc_interrupt(s); break;
    case 7: sc_moves(s); break;
    case 8: sc_jtmove(s); break;
    case 9: sc_movejoin(s); break;
    case 10: sc_dtorterm(s); break;
    case 11: sc_joinintr(s); break;
    case 12: sc_jtswap(s); break;
    case 13: sc_joinpend(s); break;
    case 14: sc_staleintr(s); break;
    default: sc_jthread(s); break;
    }
}

// ------------------------------------------------------------------------------------------------
// dump: tasks (thread_data) get a fresh logical id at every task.new / task.rebind of their address,
// handles (pika::thread objects) are numbered by first use of the address
static void dump_join(FILE* f)
{
    e2::g_enabled.store(false);
    e2::lock();
    std::map<std::uint64_t, int> task, handle;
    int ntask = 0, nhandle = 0;
    auto T = [&](std::uint64_t p) -> int {
        if (p == 0) return 0;
        auto it = task.find(p);
        if (it == task.end()) { task[p] = ++ntask; return ntask; }
        return it->second;
    };
    auto H = [&](std::uint64_t p) -> int {
        auto it = handle.find(p);
        if (it == handle.end()) { handle[p] = ++nhandle; return nhandle; }
        return it->second;
    };
    for (auto const& rc : *e2::g_log)
    {
        std::string s = rc.site;
        std::uint64_t o = reinterpret_cast<std::uint64_t>(rc.obj);
        unsigned long long a = rc.a, b = rc.b;
        int obj = 0;
        if (s == "task.new" || s == "task.rebind")
        {
            task[o] = ++ntask;
            obj = ntask; a = 0; b = 0;
            s = "task.new";
        }
        else if (s == "sw.restore1")
        {
            if ((rc.b >> 56) != 4) continue;    // only the transition to `terminated`
            s = "term"; obj = T(o); a = 0; b = 0;
        }
        else if (s == "jn.start") { obj = H(o); a = T(rc.a); b = T(rc.b); }
        else if (s == "jn.checked") { obj = H(o); a = T(rc.a); b = T(rc.b); }
        else if (s == "jn.mvctor" || s == "jn.mvassign" || s == "jn.swap") { obj = H(o); a = H(rc.a); b = T(rc.b); }
        else if (s == "jn.mvterm") { obj = H(o); a = H(rc.a); }
        else if (s == "jn.resume") { obj = T(o); a = T(rc.a); }
        else if (s == "ec.add") { obj = T(o); a = T(rc.a); }
        else if (s == "x.uadd" || s == "x.cb") { obj = T(o); a = T(rc.a); }
        else if (s.rfind("jn.", 0) == 0 && (s == "jn.body" || s == "jn.bodydone" || s == "jn.exited" || s == "jn.interrupted")) obj = T(o);
        else if (s.rfind("jn.", 0) == 0 || s.rfind("jt.", 0) == 0) { obj = H(o); a = T(rc.a); }
        else obj = T(o);    // ec.* ip.*
        std::fprintf(f, "%d %s %d %llu %llu\n", rc.os, s.c_str(), obj, a, b);
    }
    e2::unlock();
}

int main(int argc, char** argv)
{
    if (argc < 5) return 2;
    std::uint64_t seed = std::strtoull(argv[1], nullptr, 10);
    std::uint32_t perturb = std::uint32_t(std::atoi(argv[2]));
    std::string prog = argv[3];
    int size = std::atoi(argv[4]);
    g_noexcept_yield = prog == "yieldintr";
    e2::g_wanted = &want;
    // diagnosis aid (mutation trials): with VERIF_JOIN_TERMHANDLER set, destroying a joinable pika::thread calls this
    // handler instead of std::terminate, so the run continues and the log shows where the model and the code part
    if (std::getenv("VERIF_JOIN_TERMHANDLER"))
        pika::set_thread_termination_handler([](std::exception_ptr const&) { monitor("termination handler called: a joinable pika::thread was destroyed"); });
    e2::g_max_records = 400000;    // a bounded program cannot produce more: beyond that = livelock
    e2::install(seed, perturb);

    std::vector<char const*> av{argv[0]};
    for (int i = 5; i < argc; ++i) av.push_back(argv[i]);
    pika::start(nullptr, int(av.size()), av.data());

    rng r{seed * 7919 + 13};
    // scenarios run concurrently in `lanes` root threads, each lane runs its share sequentially
    int lanes = 1 + int(r.below(3));
    auto* pool = &pika::detail::get_runtime().get_thread_manager().default_pool();
    std::vector<std::unique_ptr<pika::thread>> roots;
    for (int l = 0; l < lanes; ++l)
    {
        std::uint64_t ls = r.next();
        int n = size / lanes + (l < size % lanes ? 1 : 0);
        g_total.fetch_add(1);
        roots.push_back(std::make_unique<pika::thread>(pool, [=] {
            rng lr{ls};
            for (int i = 0; i < n; ++i) scenario(prog, lr.next());
            g_done.fetch_add(1);
        }));
        roots.back()->detach();
    }

    // wait for completion; a hang is declared from runtime state (never from elapsed time):
    // nothing pending/staged/active and the log not growing, many times in a row, while activities are unfinished
    auto& tm = pika::detail::get_runtime().get_thread_manager();
    using sst = pika::threads::detail::thread_schedule_state;
    bool hang = false, overflow = false;
    int quiet = 0;
    std::size_t last_log = 0;
    long last_done = -1;
    for (;;)
    {
        std::this_thread::sleep_for(std::chrono::milliseconds(2));
        long d = g_done.load(), t = g_total.load();
        if (e2::g_overflow.load()) { overflow = true; break; }
        if (d == t)
        {
            std::this_thread::sleep_for(std::chrono::milliseconds(2));
            if (g_done.load() == g_total.load()) break;
            continue;
        }
        long ql = 0;
        try { ql = tm.get_queue_length(false); } catch (...) { ql = tm.get_thread_count(sst::pending); }
        long busy = tm.get_thread_count(sst::active) + tm.get_thread_count(sst::staged) + ql;
        std::size_t logsz = e2::g_log->size();
        if (busy == 0 && logsz == last_log && d == last_done)
        {
            if (++quiet >= 150 && g_done.load() != g_total.load()) { hang = true; break; }
            std::this_thread::sleep_for(std::chrono::milliseconds(20));
        }
        else quiet = 0;
        last_log = logsz;
        last_done = d;
    }
    if (!hang && !overflow)
    {
        // let the workers finish storing the last states so that the log ends at rest
        std::size_t prev = 0;
        int stable = 0;
        for (int i = 0; i < 2000 && stable < 10; ++i)
        {
            std::this_thread::sleep_for(std::chrono::milliseconds(1));
            std::size_t cur = e2::g_log->size();
            if (cur == prev && tm.get_thread_count(sst::active) == 0) ++stable;
            else stable = 0;
            prev = cur;
        }
    }
    e2::g_enabled.store(false);
    for (auto const& cbs : g_cbs)
        for (auto const& c : *cbs)
        {
            int acc = c.accepted.load(), runs = c.runs.load();
            if (acc && runs != 1 && !(hang && runs == 0))
                monitor("usercb: an accepted exit callback ran " + std::to_string(runs) + " times");
            if (!acc && runs != 0) monitor("usercb: a refused exit callback ran");
        }
    if (hang) monitor("hang: the runtime is quiescent but " + std::to_string(g_total.load() - g_done.load()) + " activities never finished (a join or jthread destructor did not return)");
    std::printf("case e2 prog=%s seed=%llu size=%d\n", prog.c_str(), (unsigned long long) seed, size);
    dump_join(stdout);
    for (auto const& m : g_monitor) std::printf("monitor %s\n", m.c_str());
    for (auto const& kv : g_stat) std::printf("stat %s %ld\n", kv.first.c_str(), kv.second);
    std::printf("end %s\nendcase\n", overflow ? "livelock" : hang ? "hang" : "ok");
    std::fflush(stdout);
    if (hang || overflow) _exit(0);
    pika::finalize();
    pika::stop();
    return 0;
}
