// E2 harness for C19: suspend / resume of pools and processing units on the live runtime.
// usage: e2_elastic <seed> <perturb_per_1024> <prog> <size> <wthreads> <policy> <elastic 0|1> [pika options...]
//   prog: pu      - random suspend/resume of single PUs of an elastic pool (one PU is never suspended)
//         pupool  - adjacent PUs suspended individually, then suspend_direct / resume_direct of the whole pool
//         yieldpoll - a yield()-polling task on the PU being suspended (flag raised after the suspend call returned)
//         blocked   - tasks blocked on a latch while a PU of their pool is suspended (latch released after the call returned)
//         strand  - submitters hinted to worker k held between select_active_pu and the enqueue while k is suspended
//         race    - suspend of a PU answered by a resume the moment the PU reads `sleeping`, worker held in the
//                   store(sleeping)/wait window (directed schedule for the lost-notify window)
//                   from OS threads, tasks of the default pool and (with stealing) tasks of the pool
//                   itself, concurrently with task submission with / without worker hints; all work
//                   must complete BEFORE anything is resumed
//         pool    - rounds of suspend_direct / submit to the suspended pool / resume_direct
//         refuse  - unsupported operations (PU suspension without elasticity, pool suspending itself,
//                   PU suspension from the pool itself without stealing) must fail and change nothing
//         lowprio - (known finding) low priority task submitted while the last worker is suspended
//         a suffix "+low" on pu / pool / refuse adds low priority tasks to the generated work
//   policy: local-priority-fifo | local-priority-lifo | static-priority | abp-priority-fifo | abp-priority-lifo
// Prints: header, log lines, `monitor <text>` lines (observable violations), `end ok|hang|livelock|overflow`
// (overflow = log budget exhausted, no verdict).
#include "../e2_log.hpp"

#include <pika/execution.hpp>
#include <pika/init.hpp>
#include <pika/latch.hpp>
#include <pika/modules/resource_partitioner.hpp>
#include <pika/modules/thread_manager.hpp>
#include <pika/runtime/runtime.hpp>
#include <pika/runtime/thread_pool_helpers.hpp>
#include <pika/thread.hpp>

#include <atomic>
#include <chrono>
#include <cstring>
#include <functional>
#include <map>
#include <memory>
#include <string>
#include <dirent.h>
#include <pthread.h>
#include <sys/syscall.h>
#include <unistd.h>
#include <cstdio>
#include <cstdlib>
#include <thread>
#include <time.h>
#include <vector>

namespace ex = pika::execution::experimental;
namespace e2 = verif::e2;
using pika::threads::detail::thread_pool_base;

struct rng
{
    std::uint64_t s;
    std::uint64_t next()
    {
        std::uint64_t z = (s += 0x9e3779b97f4a7c15ull);
        z = (z ^ (z >> 30)) * 0xbf58476d1ce4e5b9ull;
        z = (z ^ (z >> 27)) * 0x94d049bb133111ebull;
        return z ^ (z >> 31);
    }
    std::uint32_t below(std::uint32_t n) { return n ? std::uint32_t(next() % n) : 0; }
};

static bool want_el(char const* s) { return s[0] == 'e' && s[1] == 'l' && s[2] == '.'; }
// polling sites: the loop-top state sample and the idle-branch state test are recorded only when they
// see a state on the way to sleep (>= pre_sleep resp. == pre_sleep); everything else is stutter
// The filter also counts, per worker, how many times in a row it went through the idle branch in
// `pre_sleep` without being allowed to sleep while no counter of its own queues moved: 100000 such
// iterations of the worker itself = livelock (a count of the worker's own steps, not of time).
static std::map<void const*, std::pair<std::uint64_t, std::uint64_t>> g_qpool;    // queue -> (raw scheduler, worker)
static std::map<std::pair<std::uint64_t, std::uint64_t>, std::uint64_t> g_spin;    // (scheduler, worker) -> fruitless iterations
static std::atomic<bool> g_livelock{false};
static void const* g_last_rload_obj = nullptr;
static std::uint64_t g_last_rload_b = 0;
static pthread_t g_last_rload_thr;
static bool drop_rec(char const* site, void const* obj, std::uint64_t a, std::uint64_t b)
{
    if (site[0] != 'e' || site[1] != 'l') return false;
    if (std::strcmp(site, "el.top") == 0) return (b & 0xff) < 7;
    if (std::strcmp(site, "el.chk") == 0)
    {
        if ((b & 0xff) != 7) return true;
        if (((b >> 8) & 1) == 0 && ++g_spin[{reinterpret_cast<std::uint64_t>(obj), a}] > 100000) g_livelock.store(true);
        return false;
    }
    if (std::strcmp(site, "el.rload") == 0)
    {
        // resume_processing_unit_direct polling: a poll that sees `sleeping` again, by the same caller, with no
        // other el.* record of that scheduler in between (in particular no further notify) is stutter: it is
        // dropped so that a caller polling for ever does not count as progress for the hang detection below
        bool rep = g_last_rload_obj == obj && g_last_rload_b == b && g_last_rload_thr == pthread_self() && (b & 0xff) == 8;
        g_last_rload_obj = obj;
        g_last_rload_b = b;
        g_last_rload_thr = pthread_self();
        return rep;
    }
    g_last_rload_obj = nullptr;
    if (std::strcmp(site, "el.qmap") == 0) g_qpool[obj] = {b, a & 0xffff};
    else if (std::strcmp(site, "el.inc") == 0 || std::strcmp(site, "el.dec") == 0)
    {
        auto it = g_qpool.find(obj);
        if (it != g_qpool.end()) g_spin[it->second] = 0;
    }
    else if (std::strcmp(site, "el.sleep") == 0) g_spin[{reinterpret_cast<std::uint64_t>(obj), a}] = 0;
    return false;
}

static std::atomic<long> g_total{0}, g_done{0};
static std::vector<std::string> g_monitor;
static std::atomic<bool> g_mon_lock{false};
static void monitor(std::string s)
{
    while (g_mon_lock.exchange(true)) {}
    if (g_monitor.size() < 20) g_monitor.push_back(std::move(s));
    g_mon_lock.store(false);
}

struct tinfo
{
    std::atomic<int> entered{0};
    std::atomic<int> finished{0};
};
static std::vector<tinfo>* g_tasks = nullptr;
static thread_pool_base* g_wp = nullptr;    // the pool under test
static thread_pool_base* g_dp = nullptr;    // default pool
static int g_n = 0;                         // workers of the pool under test
static std::atomic<int> g_ctl_running{0};   // controllers / submitters still at work
static bool g_low = false;                  // generate low priority tasks too (prog suffix "+low")

static void const* sb(thread_pool_base& p) { return static_cast<void const*>(p.get_scheduler()); }

static long new_task_id()
{
    g_total.fetch_add(1);
    static std::atomic<long> ids{0};
    return ids.fetch_add(1);
}

static void check_not_asleep(long id)
{
    if (pika::this_thread::get_pool() != g_wp) return;
    std::size_t w = pika::get_local_worker_thread_num();
    if (w < std::size_t(g_n) &&
        g_wp->get_scheduler()->get_state(w).load() == pika::runtime_state::sleeping)
        monitor("task " + std::to_string(id) + " body runs on worker " + std::to_string(w) + " which is sleeping");
}

static void submit(std::uint64_t seed, int depth);

static void body(long id, std::uint64_t seed, int depth)
{
    rng r{seed};
    auto& t = (*g_tasks)[id];
    if (t.entered.fetch_add(1) != 0) monitor("task " + std::to_string(id) + " body entered twice");
    check_not_asleep(id);
    int yields = int(r.below(3));
    for (int i = 0; i < yields; ++i)
    {
        pika::this_thread::yield();
        check_not_asleep(id);
    }
    if (depth > 0)
    {
        int kids = int(r.below(3));
        for (int k = 0; k < kids; ++k) submit(r.next(), depth - 1);
    }
    if (r.below(4) == 0) pika::this_thread::yield();
    t.finished.fetch_add(1);
    g_done.fetch_add(1);
}

// submit one task to the pool under test: hinted to a (possibly suspended) worker or not, mixed priorities
static void submit(std::uint64_t seed, int depth)
{
    rng r{seed};
    long id = new_task_id();
    ex::thread_pool_scheduler s{g_wp};
    if (r.below(3) != 0)
        s = ex::with_hint(s, pika::execution::thread_schedule_hint(std::int16_t(r.below(std::uint32_t(g_n)))));
    switch (r.below(8))
    {
    case 0: s = ex::with_priority(s, pika::execution::thread_priority::high); break;
    case 1:
        if (g_low) s = ex::with_priority(s, pika::execution::thread_priority::low);
        break;
    default: break;
    }
    std::uint64_t bs = r.next();
    ex::start_detached(ex::schedule(s) | ex::then([=] { body(id, bs, depth); }));
}

// ---- API calls, bracketed by harness notes (x.call / x.ret) -------------------------------------
enum { op_suspend_pu = 1, op_resume_pu = 2, op_suspend_pool = 3, op_resume_pool = 4 };

static int api(int op, int w, bool throwing = false)
{
    thread_pool_base& p = *g_wp;
    e2::note("x.call", sb(p), std::uint64_t(op), std::uint64_t(w));
    int failed = 0;
    if (throwing)
    {
        try
        {
            switch (op)
            {
            case op_suspend_pu: p.suspend_processing_unit_direct(std::size_t(w)); break;
            case op_resume_pu: p.resume_processing_unit_direct(std::size_t(w)); break;
            case op_suspend_pool: p.suspend_direct(); break;
            default: p.resume_direct(); break;
            }
        }
        catch (pika::exception const&)
        {
            failed = 1;
        }
    }
    else
    {
        pika::error_code ec(pika::throwmode::lightweight);
        switch (op)
        {
        case op_suspend_pu: p.suspend_processing_unit_direct(std::size_t(w), ec); break;
        case op_resume_pu: p.resume_processing_unit_direct(std::size_t(w), ec); break;
        case op_suspend_pool: p.suspend_direct(ec); break;
        default: p.resume_direct(ec); break;
        }
        failed = ec ? 1 : 0;
    }
    e2::note("x.ret", sb(p), std::uint64_t(op) | (std::uint64_t(w) << 8), std::uint64_t(failed));
    return failed;
}

// run f on: 0 = a fresh OS thread, 1 = a task of the default pool, 2 = a task of the pool under test
static void run_on(int where, std::vector<std::thread>& os, std::function<void()> f)
{
    g_ctl_running.fetch_add(1);
    auto g = [f = std::move(f)] {
        f();
        g_ctl_running.fetch_sub(1);
    };
    if (where == 0) os.emplace_back(std::move(g));
    else
        ex::start_detached(ex::schedule(ex::thread_pool_scheduler{where == 1 ? g_dp : g_wp}) | ex::then(std::move(g)));
}

// ---- state based (never time based) completion / hang detection ---------------------------------
// returns 0 ok, 1 hang (nothing moves any more although obligations are outstanding), 2 livelock (see
// drop_rec), 3 log budget exhausted (no verdict: e.g. a controller task yield-spinning on a slow machine).
// A poll counts as "quiet" only if neither the log nor the ledger moved AND every worker thread (of
// both pools) that is not asleep has itself consumed at least 0.5 ms of CPU time since the previous
// quiet poll (idle workers spin through their scheduling loop, so a worker that got CPU and still
// made no progress really has nothing it can do).  On an overloaded machine - the workers run with
// reduced OS priority - starved workers accumulate no quiet polls, so slowness can never turn
// into a verdict.  200 quiet polls = every live worker burnt >= 100 ms of CPU without any progress.
// Per-thread view of the whole process from /proc: kernel state (R = runnable/running, S = blocked) and time spent on a CPU.
// A poll is "quiet" only if every RUNNABLE thread (other than this one) has itself consumed >= 0.5 ms of CPU since the previous
// quiet poll: a starved runnable thread (overloaded machine) blocks the verdict, a blocked thread does not - whoever could
// make progress has had the CPU to do so.  (A worker whose state word says `pre_sleep` but whose OS thread sits in a condition
// variable is such a blocked thread.)
struct tstat
{
    long long cpu_ns;
    char st;
};
static std::map<int, tstat> proc_threads()
{
    std::map<int, tstat> m;
    DIR* d = opendir("/proc/self/task");
    if (d == nullptr) return m;
    int const self = int(syscall(SYS_gettid));
    while (dirent* e = readdir(d))
    {
        int tid = std::atoi(e->d_name);
        if (tid <= 0 || tid == self) continue;
        char path[96], buf[512];
        tstat t{-1, '?'};
        std::snprintf(path, sizeof(path), "/proc/self/task/%d/schedstat", tid);
        if (FILE* f = std::fopen(path, "r"))
        {
            long long run = 0;
            if (std::fscanf(f, "%lld", &run) == 1) t.cpu_ns = run;
            std::fclose(f);
        }
        std::snprintf(path, sizeof(path), "/proc/self/task/%d/stat", tid);
        if (FILE* f = std::fopen(path, "r"))
        {
            if (std::fgets(buf, sizeof(buf), f) != nullptr)
            {
                char const* p = std::strrchr(buf, ')');
                if (p != nullptr && p[1] == ' ') t.st = p[2];
            }
            std::fclose(f);
        }
        m[tid] = t;
    }
    closedir(d);
    return m;
}
using cpu_snapshot = std::map<int, tstat>;
static cpu_snapshot worker_cpu() { return proc_threads(); }
static bool all_advanced(cpu_snapshot const& before, cpu_snapshot const& now)
{
    for (auto const& kv : now)
    {
        if (kv.second.st != 'R') continue;
        auto it = before.find(kv.first);
        if (it == before.end() || kv.second.cpu_ns < 0 || it->second.cpu_ns < 0) return false;
        if (kv.second.cpu_ns - it->second.cpu_ns < 500000LL) return false;
    }
    return true;
}
static int wait_until(std::function<bool()> finished)
{
    int quiet = 0;
    std::size_t last_log = 0;
    long last_done = -1;
    cpu_snapshot last_cpu = worker_cpu();
    for (;;)
    {
        std::this_thread::sleep_for(std::chrono::milliseconds(2));
        if (g_livelock.load()) return 2;
        if (e2::g_overflow.load()) return 3;
        if (finished())
        {
            std::this_thread::sleep_for(std::chrono::milliseconds(2));
            if (finished()) return 0;
            continue;
        }
        std::size_t logsz = e2::g_log->size();
        long d = g_done.load();
        if (logsz == last_log && d == last_done)
        {
            cpu_snapshot c = worker_cpu();
            if (all_advanced(last_cpu, c))
            {
                last_cpu = c;
                if (++quiet >= 200) return finished() ? 0 : 1;
            }
            std::this_thread::sleep_for(std::chrono::milliseconds(20));
        }
        else
        {
            quiet = 0;
            last_cpu = worker_cpu();
        }
        last_log = logsz;
        last_done = d;
    }
}
static bool all_done() { return g_done.load() == g_total.load() && g_ctl_running.load() == 0; }

static int active() { return int(g_wp->get_active_os_thread_count()); }

// ---- programs ---------------------------------------------------------------------------------
static int prog_pu(rng& r, int size, bool stealing)
{
    int keep = int(r.below(std::uint32_t(g_n)));    // this PU is never suspended
    std::vector<std::thread> os;
    int nctl = 1 + int(r.below(3)), nsub = 1 + int(r.below(3));
    for (int c = 0; c < nctl; ++c)
    {
        std::uint64_t cs = r.next();
        int where = int(r.below(stealing ? 5 : 2));
        where = where >= 3 ? 2 : where % 2;
        run_on(where, os, [=] {
            rng rr{cs};
            int ops = 3 + int(rr.below(std::uint32_t(3 + size)));
            for (int i = 0; i < ops; ++i)
            {
                int w = int(rr.below(std::uint32_t(g_n)));
                if (w == keep) continue;
                bool susp = rr.below(5) < 3;
                if (api(susp ? op_suspend_pu : op_resume_pu, w, rr.below(4) == 0))
                    monitor(std::string("supported operation ") + (susp ? "suspend_processing_unit" : "resume_processing_unit") + " failed");
                for (std::uint32_t k = rr.below(4); k > 0; --k)
                {
                    if (pika::threads::detail::get_self_ptr()) pika::this_thread::yield();
                    else sched_yield();
                }
            }
        });
    }
    for (int c = 0; c < nsub; ++c)
    {
        std::uint64_t cs = r.next();
        run_on(int(r.below(2)), os, [=] {
            rng rr{cs};
            for (int i = 0; i < size; ++i)
            {
                submit(rr.next(), 2);
                if (rr.below(3) == 0)
                {
                    if (pika::threads::detail::get_self_ptr()) pika::this_thread::yield();
                    else sched_yield();
                }
            }
        });
    }
    // everything must complete while PUs are still suspended (worker `keep` is running)
    int rc = wait_until(all_done);
    for (auto& t : os)
        if (rc == 0) t.join();
        else t.detach();
    if (rc != 0) return rc;
    e2::note("x.phase", sb(*g_wp), 1, std::uint64_t(active()));
    // a second round, submitted while the suspensions persist, hinted to every worker
    for (int w = 0; w < g_n; ++w)
        for (int k = 0; k < 2; ++k) submit(r.next() | 1, 1);
    rc = wait_until(all_done);
    if (rc != 0) return rc;
    for (int w = 0; w < g_n; ++w)
        if (api(op_resume_pu, w)) monitor("final resume_processing_unit failed");
    if (active() != g_n) monitor("after resuming every PU only " + std::to_string(active()) + " are active");
    for (int w = 0; w < g_n; ++w) submit(r.next(), 1);
    return wait_until(all_done);
}

static int prog_pool(rng& r, int size)
{
    int rounds = 1 + int(r.below(3));
    for (int round = 0; round < rounds; ++round)
    {
        std::vector<std::thread> os;
        int nsub = 1 + int(r.below(2));
        for (int c = 0; c < nsub; ++c)
        {
            std::uint64_t cs = r.next();
            run_on(int(r.below(2)), os, [=] {
                rng rr{cs};
                for (int i = 0; i < size; ++i) submit(rr.next(), 1);
            });
        }
        // the suspend request races with the submitters
        auto suspended = std::make_shared<std::atomic<int>>(-1);
        int where = int(r.below(2));
        run_on(where, os, [=] { suspended->store(api(op_suspend_pool, 0, false)); });
        int rc = wait_until([&] { return suspended->load() >= 0 && g_ctl_running.load() == 0; });
        for (auto& t : os)
            if (rc == 0) t.join();
            else t.detach();
        if (rc != 0) return rc;
        if (suspended->load() != 0) monitor("suspend_direct of another pool failed");
        // tasks given to the suspended pool wait for the resume (or run on a spuriously woken worker)
        int extra = 1 + int(r.below(std::uint32_t(size)));
        for (int i = 0; i < extra; ++i) submit(r.next(), 1);
        if (r.below(2) == 0)
        {
            if (api(op_resume_pool, 0, r.below(3) == 0)) monitor("resume_direct failed");
        }
        else
        {
            // resume PU by PU from different threads
            std::vector<std::thread> rs;
            for (int w = 0; w < g_n; ++w)
                run_on(0, rs, [=] {
                    if (api(op_resume_pu, w)) monitor("resume_processing_unit failed");
                });
            rc = wait_until([&] { return g_ctl_running.load() == 0; });
            for (auto& t : rs)
                if (rc == 0) t.join();
                else t.detach();
            if (rc != 0) return rc;
        }
        if (active() != g_n) monitor("after resume only " + std::to_string(active()) + " PUs are active");
        rc = wait_until(all_done);
        if (rc != 0) return rc;
    }
    return 0;
}

static int prog_refuse(rng& r, int size, bool elastic, bool stealing)
{
    std::vector<std::thread> os;
    int rc = 0;
    for (int round = 0; round < 2 + size / 4 && rc == 0; ++round)
    {
        int w = int(r.below(std::uint32_t(g_n)));
        bool throwing = r.below(3) == 0;
        auto res = std::make_shared<std::atomic<int>>(-1);
        int kind = int(r.below(3));
        if (kind == 0 && !elastic)
        {
            // PU suspension on a pool without elasticity, from an OS thread or a task of another pool
            run_on(int(r.below(2)), os, [=] { res->store(api(op_suspend_pu, w, throwing)); });
        }
        else if (kind == 1 || (kind == 0 && elastic && stealing))
        {
            // a pool cannot suspend itself
            run_on(2, os, [=] { res->store(api(op_suspend_pool, 0, throwing)); });
        }
        else if (elastic && !stealing)
        {
            // PU suspension from the pool itself without work stealing
            run_on(2, os, [=] { res->store(api(op_suspend_pu, w, throwing)); });
        }
        else
        {
            run_on(int(r.below(2)), os, [=] { res->store(api(op_suspend_pu, w, throwing)); });
            if (elastic) { kind = 99; }    // supported: resumed below
        }
        rc = wait_until([&] { return res->load() >= 0 && g_ctl_running.load() == 0; });
        if (rc != 0) break;
        if (kind == 99)
        {
            if (res->load() != 0) monitor("supported suspend_processing_unit failed");
            if (api(op_resume_pu, w)) monitor("resume_processing_unit failed");
        }
        else
        {
            if (res->load() != 1) monitor("unsupported operation was not refused");
            if (active() != g_n)
                monitor("refused operation changed the pool: " + std::to_string(active()) + " of " +
                    std::to_string(g_n) + " PUs active");
        }
        // work hinted to the worker named in the refused call completes without any resume
        for (int i = 0; i < 3; ++i) submit(r.next(), 1);
        rc = wait_until(all_done);
    }
    for (auto& t : os)
        if (rc == 0) t.join();
        else t.detach();
    return rc;
}

// directed schedule for the store(sleeping) / condition_variable::wait window of scheduler_base::suspend: the worker is held
// at the POINT between the two (el.pt.sleep) while another OS thread, which does nothing but watch the state word, resumes
// the PU the moment it is reported `sleeping`.  The notify of that resume arrives while the worker is not yet a waiter.
static std::atomic<long> g_window_ns{0};
static std::atomic<long> g_enqueue_delay_ns{0};    // prog strand: submitters dawdle between choosing the worker and enqueuing
static thread_local bool tl_submitter = false;
static void on_point(char const* site, void const*, std::uint64_t, std::uint64_t)
{
    long ns = g_window_ns.load(std::memory_order_relaxed);
    if (ns > 0 && std::strcmp(site, "el.pt.sleep") == 0)
    {
        struct timespec ts = {0, ns};
        nanosleep(&ts, nullptr);
    }
    long ens = g_enqueue_delay_ns.load(std::memory_order_relaxed);
    if (ens > 0 && tl_submitter && std::strcmp(site, "el.inc") == 0)
    {
        struct timespec ts = {0, ens};
        nanosleep(&ts, nullptr);
    }
}

// directed schedule for "a worker never falls asleep with work in its queue that nobody else will look at": submitters
// keep sending tasks hinted to worker k and are held (prog-local delay) between select_active_pu - which chose k while
// holding k's pu mutex - and the enqueue, while another OS thread suspends PU k.  Everything submitted must complete
// WITHOUT resuming k (non-stealing policies included: the submitter must have been sent elsewhere or k must still run it).
static void submit_to(int w, std::uint64_t seed)
{
    long id = new_task_id();
    auto s = ex::with_hint(ex::thread_pool_scheduler{g_wp}, pika::execution::thread_schedule_hint(std::int16_t(w)));
    ex::start_detached(ex::schedule(s) | ex::then([=] { body(id, seed, 0); }));
}
static int prog_strand(rng& r, int size)
{
    int keep = int(r.below(std::uint32_t(g_n)));
    int rc = 0;
    for (int c = 0; c < 3 + size / 2 && rc == 0; ++c)
    {
        int w = int(r.below(std::uint32_t(g_n)));
        if (w == keep) w = (w + 1) % g_n;
        auto stop = std::make_shared<std::atomic<bool>>(false);
        std::vector<std::thread> os;
        for (int sidx = 0; sidx < 2; ++sidx)
        {
            std::uint64_t cs = r.next();
            run_on(0, os, [=] {
                tl_submitter = true;
                rng rr{cs};
                for (int i = 0; i < 200 && !stop->load(); ++i) submit_to(w, rr.next());
                tl_submitter = false;
            });
        }
        g_enqueue_delay_ns.store(1500000);
        std::this_thread::sleep_for(std::chrono::milliseconds(1));
        if (api(op_suspend_pu, w)) monitor("supported suspend_processing_unit failed");
        std::this_thread::sleep_for(std::chrono::milliseconds(4));
        stop->store(true);
        g_enqueue_delay_ns.store(0);
        rc = wait_until([&] { return g_ctl_running.load() == 0; });
        for (auto& t : os)
            if (rc == 0) t.join();
            else t.detach();
        if (rc != 0) break;
        // everything must complete while PU w stays suspended
        rc = wait_until(all_done);
        if (rc == 1 || rc == 2) monitor("work queued on (or hinted to) suspended worker " + std::to_string(w) + " is not executed by anyone while the worker sleeps");
        if (rc != 0) break;
        if (api(op_resume_pu, w)) monitor("resume_processing_unit failed");
    }
    g_enqueue_delay_ns.store(0);
    if (rc != 0) return rc;
    if (active() != g_n) monitor("after resuming every PU only " + std::to_string(active()) + " are active");
    for (int w = 0; w < g_n; ++w) submit(r.next(), 1);
    return wait_until(all_done);
}
// a task that polls a flag with this_thread::yield() lives on the PU that is being suspended; the flag is raised only after
// suspend_processing_unit has returned.  The yielded task must be taken over by another PU (or the suspension must complete
// otherwise) - the call has to return.  Count-based verdict: if the poller has yielded g_poll_limit times and the call has still
// not returned, nothing will ever change (each yield gives the scheduler the chance it needs).
static long const g_poll_limit = 100000;
static int prog_yieldpoll(rng& r, int size)
{
    int keep = int(r.below(std::uint32_t(g_n)));
    int rc = 0;
    for (int c = 0; c < 2 + size / 3 && rc == 0; ++c)
    {
        int w = int(r.below(std::uint32_t(g_n)));
        if (w == keep) w = (w + 1) % g_n;
        auto flag = std::make_shared<std::atomic<bool>>(false);
        auto started = std::make_shared<std::atomic<bool>>(false);
        auto gaveup = std::make_shared<std::atomic<bool>>(false);
        long id = new_task_id();
        auto s = ex::with_hint(ex::thread_pool_scheduler{g_wp}, pika::execution::thread_schedule_hint(std::int16_t(w)));
        ex::start_detached(ex::schedule(s) | ex::then([=] {
            auto& t = (*g_tasks)[id];
            t.entered.fetch_add(1);
            started->store(true);
            long polls = 0;
            while (!flag->load() && polls < g_poll_limit)
            {
                pika::this_thread::yield();
                ++polls;
            }
            if (!flag->load()) gaveup->store(true);
            t.finished.fetch_add(1);
            g_done.fetch_add(1);
        }));
        while (!started->load()) std::this_thread::sleep_for(std::chrono::microseconds(50));
        std::vector<std::thread> os;
        run_on(0, os, [=] {
            if (api(op_suspend_pu, w)) monitor("supported suspend_processing_unit failed");
            flag->store(true);
        });
        rc = wait_until([&] { return g_ctl_running.load() == 0 || gaveup->load(); });
        if (gaveup->load())
        {
            std::string sts;
            for (int i = 0; i < g_n; ++i) sts += (i ? "," : "") + std::to_string(int(g_wp->get_scheduler()->get_state(std::size_t(i)).load()));
            monitor("suspend_processing_unit(" + std::to_string(w) + ") did not return although the only task of that worker yielded " +
                std::to_string(g_poll_limit) + " times (a yielding task keeps its worker from suspending and is not moved away); PU states " + sts);
            for (auto& t : os) t.detach();
            return 1;
        }
        for (auto& t : os)
            if (rc == 0) t.join();
            else t.detach();
        if (rc != 0) break;
        rc = wait_until(all_done);
        if (rc != 0) break;
        if (api(op_resume_pu, w)) monitor("resume_processing_unit failed");
    }
    if (rc != 0) return rc;
    if (active() != g_n) monitor("after resuming every PU only " + std::to_string(active()) + " are active");
    return wait_until(all_done);
}

// tasks that are BLOCKED (suspended on a latch) belong to the PU that is being suspended; the latch is released only after
// suspend_processing_unit has returned.  A worker asked to sleep must go to sleep although suspended tasks sit in its
// thread map (they need no worker until somebody wakes them) - the call has to return; afterwards the remaining PUs run
// new work, the latch is released, the blocked tasks finish, the PU is resumed.
static int prog_blocked(rng& r, int size)
{
    int keep = int(r.below(std::uint32_t(g_n)));
    int rc = 0;
    for (int c = 0; c < 2 + size / 3 && rc == 0; ++c)
    {
        int w = int(r.below(std::uint32_t(g_n)));
        if (w == keep) w = (w + 1) % g_n;
        int k = 2 + int(r.below(4));
        auto gate = std::make_shared<pika::latch>(1);
        auto at = std::make_shared<std::atomic<int>>(0);
        auto s = ex::with_hint(ex::thread_pool_scheduler{g_wp}, pika::execution::thread_schedule_hint(std::int16_t(w)));
        for (int i = 0; i < k; ++i)
        {
            long id = new_task_id();
            ex::start_detached(ex::schedule(s) | ex::then([=] {
                auto& t = (*g_tasks)[id];
                t.entered.fetch_add(1);
                at->fetch_add(1);
                gate->wait();
                t.finished.fetch_add(1);
                g_done.fetch_add(1);
            }));
        }
        // all k are inside latch::wait (entered) and no task is active or pending any more: they are suspended
        rc = wait_until([&] {
            auto& tm = pika::detail::get_runtime().get_thread_manager();
            using st = pika::threads::detail::thread_schedule_state;
            return at->load() == k && g_wp->get_thread_count(st::active, pika::execution::thread_priority::default_, std::size_t(-1), false) == 0 &&
                g_wp->get_thread_count(st::pending, pika::execution::thread_priority::default_, std::size_t(-1), false) == 0 &&
                g_wp->get_thread_count(st::staged, pika::execution::thread_priority::default_, std::size_t(-1), false) == 0 && (void(tm), true);
        });
        if (rc != 0) break;
        std::vector<std::thread> os;
        run_on(0, os, [=] {
            if (api(op_suspend_pu, w)) monitor("supported suspend_processing_unit failed");
        });
        rc = wait_until([&] { return g_ctl_running.load() == 0; });
        if (rc == 1 || rc == 2)
            monitor("suspend_processing_unit(" + std::to_string(w) + ") did not return while " + std::to_string(k) +
                " task(s) of the pool are blocked on a latch that is released only afterwards (a worker asked to sleep waits for suspended tasks)");
        for (auto& t : os)
            if (rc == 0) t.join();
            else t.detach();
        if (rc != 0) break;
        for (int i = 0; i < 4; ++i) submit(r.next(), 1);    // the remaining PUs carry on
        gate->count_down(1);
        rc = wait_until(all_done);
        if (rc != 0) break;
        if (api(op_resume_pu, w)) monitor("resume_processing_unit failed");
    }
    if (rc != 0) return rc;
    if (active() != g_n) monitor("after resuming every PU only " + std::to_string(active()) + " are active");
    return wait_until(all_done);
}

// mixed histories: some PUs are suspended individually (also NEIGHBOURING ones), then the whole pool is suspended while they are
// still asleep, work is submitted to the sleeping pool, the pool is resumed and must be complete again
static int prog_pupool(rng& r, int size)
{
    int rc = 0;
    for (int c = 0; c < 2 + size / 4 && rc == 0; ++c)
    {
        // a run of 1..g_n-1 adjacent PUs starting at a random index (at least one PU stays awake)
        int len = 1 + int(r.below(std::uint32_t(g_n - 1)));
        int first = int(r.below(std::uint32_t(g_n)));
        std::vector<int> down;
        for (int i = 0; i < len; ++i) down.push_back((first + i) % g_n);
        for (int w : down)
            if (api(op_suspend_pu, w)) monitor("supported suspend_processing_unit failed");
        for (int i = 0; i < 6; ++i) submit(r.next(), 1);
        rc = wait_until(all_done);
        if (rc != 0) break;
        auto done = std::make_shared<std::atomic<int>>(-1);
        std::vector<std::thread> os;
        run_on(0, os, [=] { done->store(api(op_suspend_pool, 0, false)); });
        rc = wait_until([&] { return done->load() >= 0 && g_ctl_running.load() == 0; });
        if (rc == 1 || rc == 2) monitor("suspend_direct did not return while " + std::to_string(len) + " adjacent PU(s) were already suspended");
        for (auto& t : os)
            if (rc == 0) t.join();
            else t.detach();
        if (rc != 0) break;
        if (done->load() != 0) monitor("suspend_direct of another pool failed");
        for (int i = 0; i < 6; ++i) submit(r.next(), 1);
        if (api(op_resume_pool, 0, r.below(3) == 0)) monitor("resume_direct failed");
        if (active() != g_n) monitor("after resume_direct only " + std::to_string(active()) + " of " + std::to_string(g_n) + " PUs are active");
        rc = wait_until(all_done);
    }
    return rc;
}

static int prog_race(rng& r, int size)
{
    int keep = int(r.below(std::uint32_t(g_n)));
    g_window_ns.store(3000000);
    int rc = 0;
    for (int c = 0; c < 3 + size / 2 && rc == 0; ++c)
    {
        int w = int(r.below(std::uint32_t(g_n)));
        if (w == keep) w = (w + 1) % g_n;
        std::vector<std::thread> os;
        run_on(0, os, [=] {
            auto& st = g_wp->get_scheduler()->get_state(std::size_t(w));
            while (st.load() != pika::runtime_state::sleeping) __builtin_ia32_pause();
            if (api(op_resume_pu, w)) monitor("resume_processing_unit failed");
        });
        run_on(int(r.below(2)), os, [=] {
            if (api(op_suspend_pu, w)) monitor("supported suspend_processing_unit failed");
        });
        for (int i = 0; i < 3; ++i) submit(r.next(), 1);
        rc = wait_until([&] { return g_ctl_running.load() == 0; });
        for (auto& t : os)
            if (rc == 0) t.join();
            else t.detach();
        if (rc != 0) break;
        rc = wait_until(all_done);
    }
    g_window_ns.store(0);
    if (rc != 0) return rc;
    // the worker may legitimately be asleep again only if a suspend came after the resume; here every suspend was answered
    for (int w = 0; w < g_n; ++w)
        if (api(op_resume_pu, w)) monitor("final resume_processing_unit failed");
    if (active() != g_n) monitor("after resuming every PU only " + std::to_string(active()) + " are active");
    for (int w = 0; w < g_n; ++w) submit(r.next(), 1);
    return wait_until(all_done);
}

// the finding "low priority work depends on the last worker": the last worker is suspended, then a
// low priority task is submitted; it must complete on the remaining workers (no resume)
static int prog_lowprio(rng& r)
{
    int last = g_n - 1;
    if (api(op_suspend_pu, last)) monitor("supported suspend_processing_unit failed");
    for (int i = 0; i < 2; ++i)
    {
        long id = new_task_id();
        std::uint64_t bs = r.next();
        auto s = ex::with_priority(ex::thread_pool_scheduler{g_wp}, pika::execution::thread_priority::low);
        ex::start_detached(ex::schedule(s) | ex::then([=] { body(id, bs, 0); }));
    }
    int rc = wait_until(all_done);
    if (rc == 1 || rc == 2) monitor("low priority task stranded while the last worker is suspended");
    return rc;
}

int main(int argc, char** argv)
{
    if (argc < 8) return 2;
    std::uint64_t seed = std::strtoull(argv[1], nullptr, 10);
    std::uint32_t perturb = std::uint32_t(std::atoi(argv[2]));
    std::string prog = argv[3];
    if (prog.size() > 4 && prog.substr(prog.size() - 4) == "+low")
    {
        g_low = true;
        prog = prog.substr(0, prog.size() - 4);
    }
    int size = std::atoi(argv[4]);
    g_n = std::atoi(argv[5]);
    std::string policy = argv[6];
    bool elastic = std::atoi(argv[7]) != 0;
    g_tasks = new std::vector<tinfo>(100000);
    e2::g_wanted_extra = &want_el;
    e2::g_drop = &drop_rec;
    e2::g_on_point = &on_point;
    e2::install(seed, perturb);

    pika::resource::scheduling_policy pol = pika::resource::scheduling_policy::local_priority_fifo;
    if (policy == "local-priority-lifo") pol = pika::resource::scheduling_policy::local_priority_lifo;
    else if (policy == "static-priority") pol = pika::resource::scheduling_policy::static_priority;
    else if (policy == "abp-priority-fifo") pol = pika::resource::scheduling_policy::abp_priority_fifo;
    else if (policy == "abp-priority-lifo") pol = pika::resource::scheduling_policy::abp_priority_lifo;
    bool stealing = policy != "static-priority";

    pika::init_params params;
    params.cfg = {"pika.os_threads=" + std::to_string(g_n + 2)};
    int const n = g_n;
    params.rp_callback = [pol, elastic, n](auto& rp, pika::program_options::variables_map const&) {
        using pika::threads::scheduler_mode;
        rp.create_thread_pool("worker", pol,
            elastic ? scheduler_mode(scheduler_mode::default_mode | scheduler_mode::enable_elasticity) :
                      scheduler_mode::default_mode);
        int added = 0;
        for (auto const& d : rp.sockets())
            for (auto const& c : d.cores())
                for (auto const& p : c.pus())
                    if (added < n)
                    {
                        rp.add_resource(p, "worker");
                        ++added;
                    }
    };
    std::vector<char const*> av{argv[0]};
    for (int i = 8; i < argc; ++i) av.push_back(argv[i]);
    pika::start(nullptr, int(av.size()), av.data(), params);

    g_wp = &pika::resource::get_thread_pool("worker");
    g_dp = &pika::resource::get_thread_pool("default");
    e2::note("x.pool", sb(*g_wp), std::uint64_t(g_n), (elastic ? 1u : 0u) | (stealing ? 2u : 0u));

    rng r{seed * 7919 + 13};
    int rc = 0;
    if (prog == "pu") rc = prog_pu(r, size, stealing);
    else if (prog == "pool") rc = prog_pool(r, size);
    else if (prog == "lowprio") rc = prog_lowprio(r);
    else if (prog == "race") rc = prog_race(r, size);
    else if (prog == "strand") rc = prog_strand(r, size);
    else if (prog == "yieldpoll") rc = prog_yieldpoll(r, size);
    else if (prog == "blocked") rc = prog_blocked(r, size);
    else if (prog == "pupool") rc = prog_pupool(r, size);
    else rc = prog_refuse(r, size, elastic, stealing);

    if (rc == 0)
    {
        // let the workers finish storing the last states so that the log ends at rest
        std::size_t prev = 0;
        int stable = 0;
        for (int i = 0; i < 2000 && stable < 10; ++i)
        {
            std::this_thread::sleep_for(std::chrono::milliseconds(1));
            std::size_t cur = e2::g_log->size();
            if (cur == prev) ++stable;
            else stable = 0;
            prev = cur;
        }
    }
    e2::g_enabled.store(false);
    long total = g_total.load();
    for (long i = 0; i < total; ++i)
    {
        auto& t = (*g_tasks)[i];
        if (rc == 0 && t.entered.load() != 1)
            monitor("task " + std::to_string(i) + " entered " + std::to_string(t.entered.load()) + " times");
        if ((rc == 1 || rc == 2) && t.finished.load() == 0)
            monitor("task " + std::to_string(i) + " never finished although nothing moves any more (entered " +
                std::to_string(t.entered.load()) + ", active PUs " + std::to_string(active()) + ")");
    }
    if ((rc == 1 || rc == 2) && g_ctl_running.load() != 0)
        monitor(std::to_string(g_ctl_running.load()) + " suspend/resume/submit call(s) did not return");
    if (g_low) prog += "+low";
    std::printf("case e2 prog=%s seed=%llu size=%d n=%d policy=%s elastic=%d tasks=%ld\n", prog.c_str(),
        (unsigned long long) seed, size, g_n, policy.c_str(), int(elastic), total);
    e2::dump(stdout);
    for (auto const& m : g_monitor) std::printf("monitor %s\n", m.c_str());
    std::printf("end %s\nendcase\n", rc == 3 ? "overflow" : rc == 2 ? "livelock" : rc == 1 ? "hang" : "ok");
    std::fflush(stdout);
    if (rc != 0) _exit(0);
    pika::finalize();
    pika::stop();
    return 0;
}
