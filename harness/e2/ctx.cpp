// E2-style harness for C12: a task's context survives suspension, migration and recycling.
// Live runtime (all workers, real context switches, real stealing), generated canary programs.
//
// usage: e2_ctx <seed> <mode> <rounds> <tasks_per_round> [pika options...]
//   mode canary : rounds of canary tasks of all four stack-size classes (see below)
//   mode fpprobe: the FP-control-state probe (task A sets round-upward and yields, task B sets
//                 round-downward on the same worker, A reads its rounding mode again)
//   mode swapdiff: differential cases for the Lean x86 model: the real swapcontext_stack is called
//                 with PRNG register contents / target frames and everything it reads and writes is
//                 logged (no runtime started)
// Output: `case ctx ...`, `stat ...`, `stack ...` / `swap ...` records, `monitor <text>` lines
// (observable violations), `finding <text>` lines (fpprobe), `end ok`, `endcase`.
//
// Canary task (logical id L, class C in small/medium/large/huge, PRNG seed):
//   at start : interruption_requested()==false, interruption_enabled()==true, task data word == 0,
//              add_thread_exit_callback() accepted, stack size == size configured for C,
//              class enum == C; stack address range [lo,hi) recorded together with the logical
//              times of body start/end (for the disjointness monitor)
//   then     : recursion to a class-dependent depth; every frame holds a PRNG pattern (24 words) and
//              a double; at PRNG-chosen depths the task yields / suspends on a semaphore released by
//              a helper task / yields through `verif_canary_call`, an asm routine that loads
//              rbx rbp r12-r15 with patterns, calls the yield, and compares afterwards;
//              after each resume: thread id, thread_data*, task data word, MXCSR-independent state
//              are compared with the values read at start; every frame re-checks its pattern on the
//              way up
//   at end   : (donor role) with PRNG probability the task leaves the object dirty: interruption
//              requested, interruption disabled, task data word non-zero — the next task that gets
//              the recycled object must not see any of it
// A few `pika::thread` donors per round are interrupted from the outside while computing (the
// realistic way a request is left pending at termination).
#include <pika/config.hpp>
#include <pika/execution.hpp>
#include <pika/init.hpp>
#include <pika/modules/thread_manager.hpp>
#include <pika/runtime/runtime.hpp>
#include <pika/semaphore.hpp>
#include <pika/thread.hpp>
#include <pika/threading_base/thread_helpers.hpp>

#include <atomic>
#include <cfenv>
#include <chrono>
#include <cinttypes>
#include <cstdint>
#include <cstdio>
#include <cstdlib>
#include <cstring>
#include <memory>
#include <mutex>
#include <string>
#include <thread>
#include <vector>
#include <xmmintrin.h>

namespace ex = pika::execution::experimental;
namespace tt = pika::this_thread::experimental;
namespace ptd = pika::threads::detail;

struct rng
{
    std::uint64_t s;
    std::uint64_t next()
    {
        std::uint64_t z = (s += 0x9e3779b97f4a7c15ull);
        z = (z ^ (z >> 30)) * 0xbf58476d1ce4e5b9ull;
        z = (z ^ (z >> 27)) * 0x94d049bb133111ebull;
        return z ^ (z >> 31);
    }
    std::uint32_t below(std::uint32_t n) { return n ? std::uint32_t(next() % n) : 0; }
};
static std::uint64_t mix(std::uint64_t a, std::uint64_t b)
{
    rng r{a * 0x9e3779b97f4a7c15ull + b};
    return r.next();
}

// ---------------------------------------------------------------------------------------------
// asm helpers
extern "C" std::uint64_t verif_canary_call(void (*f)(void*), void* arg, std::uint64_t const* vals);
// rdi = f, rsi = arg, rdx = vals[6]: load rbx rbp r12 r13 r14 r15 from vals, call f(arg), compare.
asm(R"(
    .text
    .align 16
    .globl verif_canary_call
    .type verif_canary_call, @function
verif_canary_call:
    pushq %rbp
    pushq %rbx
    pushq %r12
    pushq %r13
    pushq %r14
    pushq %r15
    subq  $24, %rsp
    movq  %rdx, 0(%rsp)
    movq  %rdi, %rax
    movq  %rsi, %rdi
    movq  0(%rdx), %rbx
    movq  8(%rdx), %rbp
    movq  16(%rdx), %r12
    movq  24(%rdx), %r13
    movq  32(%rdx), %r14
    movq  40(%rdx), %r15
    call  *%rax
    movq  0(%rsp), %rdx
    xorl  %eax, %eax
    cmpq  0(%rdx), %rbx
    je    1f
    orq   $1, %rax
1:  cmpq  8(%rdx), %rbp
    je    2f
    orq   $2, %rax
2:  cmpq  16(%rdx), %r12
    je    3f
    orq   $4, %rax
3:  cmpq  24(%rdx), %r13
    je    4f
    orq   $8, %rax
4:  cmpq  32(%rdx), %r14
    je    5f
    orq   $16, %rax
5:  cmpq  40(%rdx), %r15
    je    6f
    orq   $32, %rax
6:  addq  $24, %rsp
    popq  %r15
    popq  %r14
    popq  %r13
    popq  %r12
    popq  %rbx
    popq  %rbp
    ret
    .size verif_canary_call, .-verif_canary_call
)");

extern "C" void swapcontext_stack(void***, void**) noexcept;
// verif_swap_probe(io): io[0..7] in: rbx rbp r12 r13 r14 r15 rax rdx to load before the call,
//   io[8] = target frame T (12 words prepared by the caller, T[8] is overwritten with the landing address)
//   out: io[16..] see below.  Calls swapcontext_stack(&io[9], T); lands at `land` on T's stack, where
//   every register is stored to io[16..31]; then swaps back with swapcontext_stack(&io[10], io[9]) and
//   stores the registers again to io[32..47]; io[11] = rsp at the first call site (address of the return
//   address slot + 8), io[12..13] scratch.
extern "C" void verif_swap_probe(std::uint64_t* io);
asm(R"(
    .text
    .align 16
    .globl verif_swap_probe
    .type verif_swap_probe, @function
verif_swap_probe:
    pushq %rbp
    pushq %rbx
    pushq %r12
    pushq %r13
    pushq %r14
    pushq %r15
    subq  $8, %rsp
    movq  %rdi, verif_swap_io(%rip)
    movq  64(%rdi), %rsi
    leaq  verif_swap_land(%rip), %rax
    movq  %rax, 64(%rsi)
    movq  %rsp, 88(%rdi)
    movq  0(%rdi), %rbx
    movq  8(%rdi), %rbp
    movq  16(%rdi), %r12
    movq  24(%rdi), %r13
    movq  32(%rdi), %r14
    movq  40(%rdi), %r15
    movq  48(%rdi), %rax
    movq  56(%rdi), %rdx
    leaq  72(%rdi), %rdi
    call  swapcontext_stack@PLT
    movq  %rdi, verif_swap_tmp(%rip)
    movq  verif_swap_io(%rip), %rdi
    movq  %rbx, 256(%rdi)
    movq  %rbp, 264(%rdi)
    movq  %r12, 272(%rdi)
    movq  %r13, 280(%rdi)
    movq  %r14, 288(%rdi)
    movq  %r15, 296(%rdi)
    movq  %rax, 304(%rdi)
    movq  %rdx, 312(%rdi)
    movq  %rcx, 320(%rdi)
    movq  %rsi, 328(%rdi)
    movq  %rsp, 336(%rdi)
    movq  verif_swap_tmp(%rip), %rax
    movq  %rax, 344(%rdi)
    addq  $8, %rsp
    popq  %r15
    popq  %r14
    popq  %r13
    popq  %r12
    popq  %rbx
    popq  %rbp
    ret
verif_swap_land:
    movq  %rdi, verif_swap_tmp(%rip)
    movq  verif_swap_io(%rip), %rdi
    movq  %rbx, 128(%rdi)
    movq  %rbp, 136(%rdi)
    movq  %r12, 144(%rdi)
    movq  %r13, 152(%rdi)
    movq  %r14, 160(%rdi)
    movq  %r15, 168(%rdi)
    movq  %rax, 176(%rdi)
    movq  %rdx, 184(%rdi)
    movq  %rcx, 192(%rdi)
    movq  %rsi, 200(%rdi)
    movq  %rsp, 208(%rdi)
    movq  verif_swap_tmp(%rip), %rax
    movq  %rax, 216(%rdi)
    movq  72(%rdi), %rsi
    movq  96(%rdi), %rbx
    movq  104(%rdi), %rbp
    leaq  80(%rdi), %rdi
    subq  $8, %rsp
    call  swapcontext_stack@PLT
    ud2
    .size verif_swap_probe, .-verif_swap_probe
    .data
    .align 8
verif_swap_io:  .quad 0
verif_swap_tmp: .quad 0
    .text
)");

// ---------------------------------------------------------------------------------------------
static std::vector<std::string> g_monitor;
static std::atomic<bool> g_mon_lock{false};
static std::atomic<long> g_mon_count{0};
static void monitor(std::string s)
{
    g_mon_count.fetch_add(1);
    while (g_mon_lock.exchange(true)) {}
    if (g_monitor.size() < 30)
    {
        std::fprintf(stderr, "monitor %s\n", s.c_str());
        g_monitor.push_back(std::move(s));
    }
    g_mon_lock.store(false);
}

// hook sink: counts object creations / rebinds, perturbs timing at instrumented points
static std::atomic<long> g_news{0}, g_rebinds{0};
static std::uint32_t g_perturb = 0;
static std::uint64_t g_seed = 1;
static thread_local std::uint64_t tl_rng = 0;
static void sink(int phase, char const* site, void const*, std::uint64_t, std::uint64_t) noexcept
{
    if (site[0] == 't' && site[1] == 'a' && site[5] == 'n') g_news.fetch_add(1, std::memory_order_relaxed);
    else if (site[0] == 't' && site[1] == 'a' && site[5] == 'r') g_rebinds.fetch_add(1, std::memory_order_relaxed);
    if (phase == 2 || g_perturb == 0) return;
    if (tl_rng == 0) tl_rng = g_seed ^ std::uint64_t(reinterpret_cast<std::uintptr_t>(&tl_rng));
    rng r{tl_rng};
    std::uint64_t v = r.next();
    tl_rng = r.s;
    if ((v & 1023) >= g_perturb) return;
    if (((v >> 10) & 3) == 0) sched_yield();
    else
        for (unsigned i = 0; i < 100u * (1 + ((v >> 16) & 15)); ++i) __builtin_ia32_pause();
}

struct task_rec
{
    int cls = 0;
    std::uint64_t lo = 0, hi = 0;
    long t_start = -1, t_end = -1;
    std::int64_t size = 0, conf = 0;
    void* td = nullptr;
    int migrations = 0, resumes = 0;
    std::atomic<int> exit_runs{0};
    std::atomic<int> finished{0};
};
static std::vector<task_rec>* g_recs = nullptr;
static std::atomic<long> g_clock{0}, g_done{0}, g_ids{0}, g_helpers{0}, g_helpers_done{0};
static std::atomic<long> g_yields{0}, g_suspends{0}, g_regcalls{0}, g_migrations{0}, g_dirty{0};
static std::int64_t g_conf[4];
static int g_workers = 1;

static pika::execution::thread_stacksize const k_cls[4] = {pika::execution::thread_stacksize::small_,
    pika::execution::thread_stacksize::medium, pika::execution::thread_stacksize::large,
    pika::execution::thread_stacksize::huge};
static char const* const k_cls_name[4] = {"small", "medium", "large", "huge"};

struct ctx
{
    long lid;
    rng r;
    ptd::thread_id_type id;
    void* td;
    std::size_t data;
    std::size_t worker;
    int suspensions_left;
    int maxdepth;
};

static void check_identity(ctx& c, char const* where)
{
    auto& R = (*g_recs)[c.lid];
    ++R.resumes;
    if (ptd::get_self_id() != c.id)
        monitor("task " + std::to_string(c.lid) + ": thread id changed across " + where);
    if (static_cast<void*>(ptd::get_self_id_data()) != c.td)
        monitor("task " + std::to_string(c.lid) + ": thread_data object changed across " + where);
    if (ptd::get_thread_data(c.id) != c.data)
        monitor("task " + std::to_string(c.lid) + ": task-local data word changed across " + where);
    if (ptd::get_self_stacksize() != R.size)
        monitor("task " + std::to_string(c.lid) + ": stack size changed across " + where);
    std::uint64_t here = reinterpret_cast<std::uint64_t>(&R);
    (void) here;
    std::uint64_t sp = reinterpret_cast<std::uint64_t>(__builtin_frame_address(0));
    if (sp < R.lo || sp >= R.hi)
        monitor("task " + std::to_string(c.lid) + ": running outside its own stack after " + where);
    std::size_t w = pika::get_worker_thread_num();
    if (w != c.worker)
    {
        c.worker = w;
        ++R.migrations;
        g_migrations.fetch_add(1, std::memory_order_relaxed);
    }
}

// every task of the harness (canary, helper, donor) runs this first: a task must start clean.
// After reporting, the inherited state is cleared so that the run can go on and report everything.
static void check_clean_start(std::string const& who)
{
    auto* td = ptd::get_self_id_data();
    auto id = ptd::get_self_id();
    if (!td->interruption_enabled())
    {
        monitor(who + ": starts with interruption disabled (inherited)");
        td->set_interruption_enabled(true);
    }
    if (td->interruption_requested())
    {
        monitor(who + ": starts with an inherited interruption request");
        td->interrupt(false);
    }
    if (ptd::get_thread_data(id) != 0)
    {
        monitor(who + ": starts with inherited task data " + std::to_string(ptd::get_thread_data(id)));
        ptd::set_thread_data(id, 0);
    }
}

struct susp_arg
{
    ctx* c;
    int kind;
};

// one suspension point; noexcept because it is called through the asm routine
static void do_suspend(void* p) noexcept
{
    auto* a = static_cast<susp_arg*>(p);
    if (a->kind == 0)
    {
        g_yields.fetch_add(1, std::memory_order_relaxed);
        pika::this_thread::yield();
    }
    else
    {
        // real suspension: a helper task (on another worker if there is one) releases us
        g_suspends.fetch_add(1, std::memory_order_relaxed);
        auto sem = std::make_shared<pika::counting_semaphore<>>(0);
        g_helpers.fetch_add(1);
        std::int16_t hint = std::int16_t((pika::get_worker_thread_num() + 1 + a->c->r.below(3)) % std::size_t(g_workers));
        auto s = ex::with_hint(ex::thread_pool_scheduler{}, pika::execution::thread_schedule_hint(hint));
        ex::start_detached(ex::schedule(s) | ex::then([sem] {
            check_clean_start("helper task");
            if ((reinterpret_cast<std::uintptr_t>(sem.get()) >> 4) & 1) pika::this_thread::yield();
            sem->release();
            g_helpers_done.fetch_add(1);
        }));
        try
        {
            sem->acquire();
        }
        catch (...)
        {
            monitor("task " + std::to_string(a->c->lid) + ": suspension threw");
        }
    }
}

static void suspension_point(ctx& c)
{
    susp_arg a{&c, c.r.below(3) == 0 ? 1 : 0};
    if (c.r.below(2) == 0)
    {
        std::uint64_t vals[6];
        for (int i = 0; i < 6; ++i) vals[i] = mix(std::uint64_t(c.lid) * 131 + i, c.r.next());
        g_regcalls.fetch_add(1, std::memory_order_relaxed);
        std::uint64_t bad = verif_canary_call(&do_suspend, &a, vals);
        if (bad != 0)
        {
            static char const* const names[6] = {"rbx", "rbp", "r12", "r13", "r14", "r15"};
            std::string which;
            for (int i = 0; i < 6; ++i)
                if (bad & (1u << i)) which += std::string(which.empty() ? "" : ",") + names[i];
            monitor("task " + std::to_string(c.lid) + ": callee-saved register(s) " + which +
                " not restored across a " + (a.kind ? "suspension" : "yield"));
        }
    }
    else { do_suspend(&a); }
    check_identity(c, a.kind ? "suspension" : "yield");
}

__attribute__((noinline)) static void deep(ctx& c, int depth)
{
    volatile std::uint64_t pat[24];
    std::uint64_t const s = mix(std::uint64_t(c.lid), std::uint64_t(depth));
    for (int i = 0; i < 24; ++i) pat[i] = mix(s, std::uint64_t(i));
    volatile double fd = double(s % 100003) * 1.25 + 0.5;
    volatile float ff = float(s % 1009) * 0.5f;
    bool here = c.suspensions_left > 0 && (depth == c.maxdepth || c.r.below(std::uint32_t(c.maxdepth)) < 3);
    if (here)
    {
        --c.suspensions_left;
        suspension_point(c);
    }
    if (depth < c.maxdepth) deep(c, depth + 1);
    if (here && c.suspensions_left > 0 && c.r.below(2) == 0)
    {
        --c.suspensions_left;
        suspension_point(c);
    }
    for (int i = 0; i < 24; ++i)
    {
        if (pat[i] != mix(s, std::uint64_t(i)))
        {
            monitor("task " + std::to_string(c.lid) + ": stack canary at depth " + std::to_string(depth) +
                " word " + std::to_string(i) + " corrupted");
            break;
        }
    }
    if (fd != double(s % 100003) * 1.25 + 0.5 || ff != float(s % 1009) * 0.5f)
        monitor("task " + std::to_string(c.lid) + ": floating-point local at depth " + std::to_string(depth) +
            " corrupted");
}

static void canary_body(long lid, std::uint64_t seed, int cls)
{
    auto& R = (*g_recs)[lid];
    ctx c{lid, rng{seed}, ptd::get_self_id(), static_cast<void*>(ptd::get_self_id_data()), 0,
        pika::get_worker_thread_num(), 0, 0};
    R.cls = cls;
    R.td = c.td;
    auto* td = ptd::get_self_id_data();
    // --- clean start
    check_clean_start("task " + std::to_string(lid));
    void* td_at_reg = c.td;
    if (!ptd::add_thread_exit_callback(c.id, [lid, td_at_reg] {
            auto& Q = (*g_recs)[lid];
            Q.exit_runs.fetch_add(1);
            if (static_cast<void*>(ptd::get_self_id_data()) != td_at_reg)
                monitor("exit callback of task " + std::to_string(lid) + " ran in another task's context");
            if (Q.finished.load() == 0)
                monitor("exit callback of task " + std::to_string(lid) + " ran before the task body finished");
        }))
        monitor("task " + std::to_string(lid) + ": exit callback refused at task start (inherited state)");
    // --- stack class, size and address range
    R.size = ptd::get_self_stacksize();
    R.conf = g_conf[cls];
    if (R.size != R.conf)
        monitor("task " + std::to_string(lid) + " of class " + k_cls_name[cls] + ": stack size " +
            std::to_string(R.size) + " != configured " + std::to_string(R.conf));
    if (ptd::get_self_stacksize_enum() != k_cls[cls])
        monitor("task " + std::to_string(lid) + ": stack-size class differs from the requested one");
    {
        std::ptrdiff_t avail = pika::this_thread::get_available_stack_space();
        std::uint64_t sp = reinterpret_cast<std::uint64_t>(__builtin_frame_address(0));
        std::uint64_t x = sp - std::uint64_t(avail) - 12;
        R.lo = x & ~std::uint64_t(4095);
        // the estimate is exact when the stack pointer inside get_available_stack_space is within one
        // page below ours; otherwise fall back to the nearest page boundary below
        R.hi = R.lo + std::uint64_t(R.size);
        if (sp < R.lo || sp >= R.hi)
            monitor("task " + std::to_string(lid) + ": frame address outside the computed stack range");
    }
    R.t_start = g_clock.fetch_add(1);
    c.data = 0xC0DE000000ull + std::uint64_t(lid);
    ptd::set_thread_data(c.id, c.data);
    // --- recursion with canaries; depth by class (uses up to about a third of the stack)
    std::int64_t budget = R.size / 3;
    int maxd = int(budget / 420);
    static int const cap[4] = {60, 150, 1200, 4000};
    if (maxd > cap[cls]) maxd = cap[cls];
    if (maxd < 4) maxd = 4;
    c.maxdepth = 1 + int(c.r.below(std::uint32_t(maxd)));
    c.suspensions_left = 1 + int(c.r.below(6));
    deep(c, 0);
    check_identity(c, "the whole body");
    // --- children that inherit this task's stack-size class (thread_stacksize::current), normal and high priority:
    // such a child must run on a stack of the parent's configured size
    if (c.r.below(3) == 0)
    {
        std::size_t const want = std::size_t(R.size);
        for (int k = 0; k < 2; ++k)
        {
            auto s = ex::with_stacksize(ex::thread_pool_scheduler{}, pika::execution::thread_stacksize::current);
            if (k == 1) s = ex::with_priority(s, pika::execution::thread_priority::high);
            g_helpers.fetch_add(1);
            ex::start_detached(ex::schedule(s) | ex::then([want, lid, k] {
                check_clean_start("inheriting child");
                std::size_t const got = std::size_t(ptd::get_self_stacksize());
                if (got != want)
                    monitor("child of task " + std::to_string(lid) + " created with thread_stacksize::current (" +
                        (k ? "high" : "normal") + " priority) runs on a stack of " + std::to_string(got) + " bytes, its parent has " +
                        std::to_string(want));
                g_helpers_done.fetch_add(1);
            }));
        }
    }
    // --- donor role
    std::uint32_t d = c.r.below(8);
    if (d < 5) g_dirty.fetch_add(1, std::memory_order_relaxed);
    if (d == 0 || d == 3) td->interrupt(true);
    if (d == 1 || d == 3) td->set_interruption_enabled(false);
    if (d == 2 || d == 3 || d == 4) ptd::set_thread_data(c.id, 0xDEAD0000ull + std::uint64_t(lid));
    R.t_end = g_clock.fetch_add(1);
    R.finished.store(1);
    g_done.fetch_add(1);
}

// State owned by a task's own function object (closure): its destructor runs after the thread function has returned but
// still belongs to the task - it must see the task's identity and may yield (coroutine_impl::reset destroys the function
// before it drops the thread id for exactly this reason).
static std::atomic<long> g_sessions_closed{0};
static std::atomic<long> g_session_yields_migrated{0};
struct session
{
    bool armed = false;
    ptd::thread_id_type id;
    void* td = nullptr;
    int yields = 0;
    session() = default;
    session(session&& o) noexcept
      : armed(o.armed)
      , id(o.id)
      , td(o.td)
      , yields(o.yields)
    {
        o.armed = false;
    }
    session(session const&) = delete;
    ~session()
    {
        if (!armed) return;
        auto check = [&](char const* where) {
            if (ptd::get_self_ptr() == nullptr || ptd::get_self_id() != id)
                monitor(std::string("closure-owned state destroyed outside its task's identity: thread id invalid or changed ") + where);
            else if (static_cast<void*>(ptd::get_self_id_data()) != td)
                monitor(std::string("closure-owned state destroyed outside its task's identity: thread_data object changed ") + where);
        };
        check("when the function object is destroyed");
        if (ptd::get_self_ptr() != nullptr && ptd::get_self_id() == id)
        {
            std::size_t w0 = pika::get_worker_thread_num();
            for (int i = 0; i < yields; ++i)
            {
                pika::this_thread::yield();
                check("after a yield inside the destructor of the function object");
            }
            if (pika::get_worker_thread_num() != w0) g_session_yields_migrated.fetch_add(1);
        }
        g_sessions_closed.fetch_add(1);
    }
};

static void spawn_canary(rng& r, int round)
{
    long lid = g_ids.fetch_add(1);
    int cls = int(r.below(10));
    cls = cls < 4 ? 0 : cls < 7 ? 1 : cls < 9 ? 2 : 3;    // small 40%, medium 30%, large 20%, huge 10%
    std::uint64_t seed = r.next();
    auto s = ex::with_stacksize(ex::thread_pool_scheduler{}, k_cls[cls]);
    if (r.below(4) != 0)
        s = ex::with_hint(s, pika::execution::thread_schedule_hint(std::int16_t((lid + round) % g_workers)));
    if (r.below(6) == 0) s = ex::with_priority(s, pika::execution::thread_priority::high);
    ex::start_detached(ex::schedule(s) | ex::then([=] { canary_body(lid, seed, cls); }));
}

static int run_canary(std::uint64_t seed, int rounds, int per_round)
{
    auto& cfg = pika::detail::get_runtime().get_config();
    for (int i = 0; i < 4; ++i) g_conf[i] = cfg.get_stack_size(k_cls[i]);
    g_workers = int(pika::get_num_worker_threads());
    std::atomic<int> donors_interrupted{0};
    tt::sync_wait(ex::schedule(ex::thread_pool_scheduler{}) | ex::then([&] {
        rng r{seed * 7919 + 17};
        for (int round = 0; round < rounds; ++round)
        {
            long base = g_ids.load();
            for (int i = 0; i < per_round; ++i) spawn_canary(r, round);
            // realistic donors: interrupted from outside while computing, never reach an interruption point
            for (int k = 0; k < 2; ++k)
            {
                std::atomic<bool> started{false}, finished{false};
                std::atomic<unsigned long> sinkv{0};
                pika::thread donor([&] {
                    check_clean_start("donor thread");
                    started.store(true);
                    unsigned long x = 1;
                    for (int i = 0; i < 20000; ++i) x = x * 6364136223846793005ul + 1442695040888963407ul;
                    sinkv.store(x);
                    finished.store(true);
                });
                // (on the shared-priority scheduler a pika::thread placed on another worker's queue has
                // no valid id - not this property's subject; then just wait for it)
                if (donor.joinable())
                {
                    while (!started.load()) pika::this_thread::yield();
                    try
                    {
                        donor.interrupt();
                        ++donors_interrupted;
                    }
                    catch (...)
                    {
                    }
                    try
                    {
                        donor.join();
                    }
                    catch (...)
                    {
                    }
                }
                while (!finished.load()) pika::this_thread::yield();
            }
            // threads whose closure owns state with a destructor that uses the task's identity and yields
            if (pika::thread::hardware_concurrency() > 0)
            {
                long const closed0 = g_sessions_closed.load();
                int started_sessions = 0;
                for (int k = 0; k < 3; ++k)
                {
                    session sess;
                    sess.yields = int(r.below(4));
                    pika::thread st([sess = std::move(sess)]() mutable {
                        check_clean_start("session thread");
                        sess.id = ptd::get_self_id();
                        sess.td = static_cast<void*>(ptd::get_self_id_data());
                        sess.armed = true;
                        if (sess.yields & 1) pika::this_thread::yield();
                    });
                    if (st.joinable())
                    {
                        ++started_sessions;
                        try { st.join(); } catch (...) {}
                    }
                }
                // join returns when the thread function has returned; the closure is destroyed right after that
                while (g_sessions_closed.load() < closed0 + started_sessions) pika::this_thread::yield();
            }
            while (g_done.load() < base + per_round || g_helpers_done.load() < g_helpers.load())
                pika::this_thread::yield();
            for (int i = 0; i < 4; ++i) pika::this_thread::yield();
        }
    }));
    return donors_interrupted.load();
}

static void run_fpprobe()
{
    std::atomic<int> phase{0};
    unsigned a_set = 0, a_after = 0, mx0 = 0, mx1 = 0;
    unsigned short cw0 = 0, cw1 = 0;
    std::size_t wa = 0, wb = 0;
    std::atomic<int> done{0};
    tt::sync_wait(ex::schedule(ex::thread_pool_scheduler{}) | ex::then([&] {
        ex::start_detached(ex::schedule(ex::thread_pool_scheduler{}) | ex::then([&] {    // task A
            std::fesetround(FE_UPWARD);
            a_set = unsigned(std::fegetround());
            mx0 = _mm_getcsr();
            asm volatile("fnstcw %0" : "=m"(cw0));
            wa = pika::get_worker_thread_num();
            phase.store(1);
            while (phase.load() != 2) pika::this_thread::yield();
            a_after = unsigned(std::fegetround());
            mx1 = _mm_getcsr();
            asm volatile("fnstcw %0" : "=m"(cw1));
            std::fesetround(FE_TONEAREST);
            phase.store(3);
            done.fetch_add(1);
        }));
        ex::start_detached(ex::schedule(ex::thread_pool_scheduler{}) | ex::then([&] {    // task B
            while (phase.load() != 1) pika::this_thread::yield();
            std::fesetround(FE_DOWNWARD);
            wb = pika::get_worker_thread_num();
            phase.store(2);
            while (phase.load() != 3) pika::this_thread::yield();
            std::fesetround(FE_TONEAREST);
            done.fetch_add(1);
        }));
        while (done.load() != 2) pika::this_thread::yield();
        std::fesetround(FE_TONEAREST);
    }));
    bool leaked = a_after != a_set;
    std::printf("stat fpprobe a_set=0x%x a_after=0x%x mxcsr_before=0x%x mxcsr_after=0x%x fcw_before=0x%x fcw_after=0x%x worker_a=%zu worker_b=%zu\n",
        a_set, a_after, mx0, mx1, unsigned(cw0), unsigned(cw1), wa, wb);
    if (leaked)
        std::printf("finding fp-control-leak: task A set rounding mode 0x%x (FE_UPWARD), yielded, task B set 0x%x "
                    "(FE_DOWNWARD) on the same worker, A resumed with rounding mode 0x%x (MXCSR 0x%x -> 0x%x, x87 CW 0x%x -> 0x%x)\n",
            a_set, unsigned(FE_DOWNWARD), a_after, mx0, mx1, unsigned(cw0), unsigned(cw1));
}

static void run_swapdiff(std::uint64_t seed, int n)
{
    rng r{seed ^ 0x5157a9d1ffull};
    for (int k = 0; k < n; ++k)
    {
        alignas(64) static std::uint64_t io[64];
        alignas(64) static std::uint64_t frame[512];
        std::memset(io, 0, sizeof(io));
        // target frame somewhere (8-aligned) in `frame`, 12 words used + room above/below for the probe's own pushes
        std::size_t off = 200 + r.below(100);
        std::uint64_t* T = &frame[off];
        for (auto& w : frame) w = r.next();
        for (int i = 0; i < 8; ++i) io[i] = r.next();
        io[8] = reinterpret_cast<std::uint64_t>(T);
        io[12] = r.next();    // rbx to carry through the way back (io[96/8])
        io[13] = r.next();    // rbp
        std::uint64_t Tin[12];
        for (int i = 0; i < 12; ++i) Tin[i] = T[i];
        verif_swap_probe(io);
        // the frame pushed by the first switch lives below our stack pointer now: copy it before any call
        std::uint64_t frv[11];
        {
            std::uint64_t const volatile* fr = reinterpret_cast<std::uint64_t const volatile*>(io[9]);
            for (int i = 0; i < 11; ++i) frv[i] = fr[i];
        }
        // record: inputs, T as given (T[8] = landing address), observations
        std::printf("swap %d in", k);
        for (int i = 0; i < 8; ++i) std::printf(" %" PRIu64, io[i]);
        std::printf(" T %" PRIu64, io[8]);
        for (int i = 0; i < 12; ++i) std::printf(" %" PRIu64, i == 8 ? T[8] : Tin[i]);
        std::printf(" sp %" PRIu64 " from %" PRIu64 " saved %" PRIu64 " from2 %" PRIu64, io[11],
            reinterpret_cast<std::uint64_t>(&io[9]), io[9], reinterpret_cast<std::uint64_t>(&io[10]));
        std::printf(" frame");
        for (int i = 0; i < 11; ++i) std::printf(" %" PRIu64, frv[i]);
        std::printf(" land");
        for (int i = 16; i < 28; ++i) std::printf(" %" PRIu64, io[i]);
        std::printf(" back");
        for (int i = 32; i < 44; ++i) std::printf(" %" PRIu64, io[i]);
        std::printf(" carry %" PRIu64 " %" PRIu64 " saved2 %" PRIu64 "\n", io[12], io[13], io[10]);
    }
}

int main(int argc, char** argv)
{
    if (argc < 5) return 2;
    std::uint64_t seed = std::strtoull(argv[1], nullptr, 10);
    std::string mode = argv[2];
    int rounds = std::atoi(argv[3]);
    int per_round = std::atoi(argv[4]);
    g_seed = seed;
    if (mode == "swapdiff")
    {
        std::printf("case ctx mode=swapdiff seed=%llu n=%d\n", (unsigned long long) seed, rounds);
        run_swapdiff(seed, rounds);
        std::printf("end ok\nendcase\n");
        return 0;
    }
    g_recs = new std::vector<task_rec>(std::size_t(rounds) * std::size_t(per_round) + 16);
    char const* pe = std::getenv("VERIF_PERTURB");
    g_perturb = pe ? std::uint32_t(std::atoi(pe)) : 0;
#if defined(PIKA_VERIF_HOOKS)
    pika::verif::sink.store(&sink);
#endif
    std::vector<char const*> av{argv[0]};
    for (int i = 5; i < argc; ++i) av.push_back(argv[i]);
    pika::start(nullptr, int(av.size()), av.data());
    int donors = 0;
    std::printf("case ctx mode=%s seed=%llu rounds=%d per_round=%d\n", mode.c_str(), (unsigned long long) seed, rounds, per_round);
    if (mode == "fpprobe") run_fpprobe();
    else donors = run_canary(seed, rounds, per_round);
    pika::finalize();
    pika::stop();
    if (mode == "canary")
    {
        long n = g_ids.load();
        // exit callbacks: exactly once per task
        for (long i = 0; i < n; ++i)
        {
            auto& R = (*g_recs)[i];
            if (R.exit_runs.load() != 1)
                monitor("exit callback of task " + std::to_string(i) + " ran " + std::to_string(R.exit_runs.load()) + " times");
        }
        // disjointness of the stacks of simultaneously live tasks
        std::vector<long> idx;
        for (long i = 0; i < n; ++i) idx.push_back(i);
        std::sort(idx.begin(), idx.end(), [&](long a, long b) { return (*g_recs)[a].lo < (*g_recs)[b].lo; });
        long overlaps = 0;
        for (std::size_t a = 0; a < idx.size(); ++a)
        {
            auto& A = (*g_recs)[idx[a]];
            for (std::size_t b = a + 1; b < idx.size(); ++b)
            {
                auto& B = (*g_recs)[idx[b]];
                if (B.lo >= A.hi) break;
                bool live = A.t_start < B.t_end && B.t_start < A.t_end;
                if (live && ++overlaps <= 3)
                    monitor("tasks " + std::to_string(idx[a]) + " and " + std::to_string(idx[b]) +
                        " were live at the same time on overlapping stacks");
            }
        }
        // recycling observed through object identity
        std::vector<void*> tds;
        for (long i = 0; i < n; ++i) tds.push_back((*g_recs)[i].td);
        std::sort(tds.begin(), tds.end());
        long distinct = long(std::unique(tds.begin(), tds.end()) - tds.begin());
        int per_cls[4] = {0, 0, 0, 0};
        for (long i = 0; i < n; ++i) ++per_cls[(*g_recs)[i].cls];
        std::printf("stat tasks=%ld objects=%ld reused=%ld hook_news=%ld hook_rebinds=%ld migrations=%ld yields=%ld suspends=%ld regcalls=%ld dirty_exits=%ld donors_interrupted=%d helpers=%ld workers=%d small=%d medium=%d large=%d huge=%d conf=%lld,%lld,%lld,%lld guard=%d\n",
            n, distinct, n - distinct, g_news.load(), g_rebinds.load(), g_migrations.load(), g_yields.load(),
            g_suspends.load(), g_regcalls.load(), g_dirty.load(), donors, g_helpers.load(), g_workers, per_cls[0], per_cls[1],
            per_cls[2], per_cls[3], (long long) g_conf[0], (long long) g_conf[1], (long long) g_conf[2], (long long) g_conf[3],
            int(pika::threads::coroutines::detail::posix::use_guard_pages));
        for (long i = 0; i < n; ++i)
        {
            auto& R = (*g_recs)[i];
            std::printf("stack %ld %d %" PRIu64 " %" PRIu64 " %ld %ld %lld %lld\n", i, R.cls, R.lo, R.hi, R.t_start, R.t_end,
                (long long) R.size, (long long) R.conf);
        }
    }
    for (auto const& m : g_monitor) std::printf("monitor %s\n", m.c_str());
    if (g_mon_count.load() > long(g_monitor.size())) std::printf("monitor (%ld more)\n", g_mon_count.load() - long(g_monitor.size()));
    std::printf("end ok\nendcase\n");
    return 0;
}
